"""./check <ID> [--tier quick|thorough] [--replay file] [--only i,j,k]"""
import argparse
import importlib
import os
import sys
import warnings


def _env_seed():
    v = (os.environ.get("VERIF_SEED") or "0").strip()
    try:
        return int(v)
    except ValueError:  # any string is accepted as a seed
        import zlib

        return zlib.crc32(v.encode()) % 1000003


def main(argv=None):
    warnings.simplefilter("ignore")
    ap = argparse.ArgumentParser()
    ap.add_argument("prop")
    ap.add_argument("--tier", default=os.environ.get("VERIF_TIER", "quick"))
    ap.add_argument("--seed", type=int, default=_env_seed())
    ap.add_argument("--replay")
    ap.add_argument("--only")
    a = ap.parse_args(argv)
    if a.tier not in ("quick", "thorough"):
        a.tier = "quick"
    os.environ.setdefault("PYTHONHASHSEED", "0")
    os.environ["VERIF_SEED"] = str(a.seed)  # check modules that derive sub-seeds read the effective seed here
    from vp import farm

    mod = importlib.import_module(f"vp.checks.{a.prop.lower()}")
    if hasattr(mod, "main"):
        return mod.main(a.tier, a.seed, a.replay)
    only = [int(x) for x in a.only.split(",")] if a.only else None
    return farm.run_check(mod, a.tier, a.seed, a.replay, only)


if __name__ == "__main__":
    sys.exit(main())
