"""./check <ID> [--tier quick|thorough] [--replay file] [--only i,j,k]"""
import argparse
import importlib
import os
import sys
import warnings


def main(argv=None):
    warnings.simplefilter("ignore")
    ap = argparse.ArgumentParser()
    ap.add_argument("prop")
    ap.add_argument("--tier", default=os.environ.get("VERIF_TIER", "quick"))
    ap.add_argument("--seed", type=int, default=int(os.environ.get("VERIF_SEED", "0") or 0))
    ap.add_argument("--replay")
    ap.add_argument("--only")
    a = ap.parse_args(argv)
    if a.tier not in ("quick", "thorough"):
        a.tier = "quick"
    os.environ.setdefault("PYTHONHASHSEED", "0")
    from vp import farm

    mod = importlib.import_module(f"vp.checks.{a.prop.lower()}")
    if hasattr(mod, "main"):
        return mod.main(a.tier, a.seed, a.replay)
    only = [int(x) for x in a.only.split(",")] if a.only else None
    return farm.run_check(mod, a.tier, a.seed, a.replay, only)


if __name__ == "__main__":
    sys.exit(main())
