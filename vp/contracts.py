"""Runtime contracts on the real pharmpy API (DESIGN.md 2.2), applied from outside the repository.

`install()` wraps every public callable of pharmpy.modeling (and a few tools / model methods) with a monitor that
  K-IMM  snapshots every Model / ModelEntry argument deeply before the call and compares afterwards, whether the
         call returns or raises;
  K-WF   checks that a returned Model is well formed (inits within bounds, unique names, no newly undefined
         symbols, code can be generated);
  K-EQ   samples equality / hash / copy laws on arguments and results.
Wrapped functions are rebound in every pharmpy.* module that imported them by name.  Only the outermost public call
is judged (a thread-local depth counter); nested calls are counted.

A generic wrapper is used instead of icontract decorators because icontract conditions must name the decorated
function's parameters, which differ for each of the ~230 functions; icontract is used for the class invariants
(`Parameters`, `RandomVariables`) where one condition fits.
"""
from __future__ import annotations

import copy
import functools
import inspect
import json
import sys
import threading
from collections import Counter

_local = threading.local()
EVENTS = []  # violations recorded by the monitors: dicts
COUNTS = Counter()
_installed = {}

RESERVED = {"t", "NEWIND", "T", "PRED", "RES", "WRES", "IPRED", "IRES", "IWRES", "CIPREDI", "TIME", "F", "DV", "A_0",
            "ICALL", "MDV", "EVID", "AMT", "RATE", "CMT", "SS", "II", "ADDL", "MIXNUM", "MIXEST", "NIREC", "NDREC"}


class ContractViolation(Exception):
    pass


def _hash_df(df):
    import pandas as pd

    if df is None:
        return None
    try:
        h = int(pd.util.hash_pandas_object(df, index=True).sum())
    except Exception:
        h = hash(df.to_csv())
    return (h, tuple(map(str, df.columns)), tuple(map(str, df.dtypes)), len(df), id(df))


def snapshot(model):
    """Deep fingerprint of a Model (content only, plus the identity of its DataFrame object)."""
    out = {}
    try:
        out["dataset"] = _hash_df(model.dataset)
    except Exception as e:
        out["dataset"] = f"<{type(e).__name__}>"
    for attr in ("datainfo", "parameters", "random_variables", "statements", "execution_steps"):
        try:
            out[attr] = json.dumps(getattr(model, attr).to_dict(), sort_keys=True, default=str)
        except Exception as e:
            out[attr] = f"<{type(e).__name__}>"
    out["name"] = getattr(model, "name", None)
    out["description"] = getattr(model, "description", None)
    try:
        out["dvs"] = repr(sorted((str(k), v) for k, v in model.dependent_variables.items()))
    except Exception:
        pass
    try:
        ie = model.initial_individual_estimates
        out["iie"] = None if ie is None else _hash_df(ie)
    except Exception:
        pass
    try:
        internals = getattr(model, "internals", None)
        cs = getattr(internals, "control_stream", None)
        out["control_stream"] = None if cs is None else str(cs)
    except Exception as e:
        out["control_stream"] = f"<{type(e).__name__}>"
    return out


def diff_snap(a, b):
    return [k for k in a if a.get(k) != b.get(k)]


def _models_in(args, kwargs):
    from pharmpy.model import Model

    found = []

    def visit(x, path, depth=0):
        if isinstance(x, Model):
            found.append((path, x))
        elif hasattr(x, "model") and type(x).__name__ == "ModelEntry":
            try:
                found.append((path + ".model", x.model))
            except Exception:
                pass
        elif isinstance(x, (list, tuple)) and depth < 2:
            for i, y in enumerate(x[:20]):
                visit(y, f"{path}[{i}]", depth + 1)
        elif isinstance(x, dict) and depth < 2:
            for k, y in list(x.items())[:20]:
                visit(y, f"{path}[{k!r}]", depth + 1)

    for i, a in enumerate(args):
        visit(a, f"arg{i}")
    for k, a in kwargs.items():
        visit(a, k)
    return found


def undefined_symbols(model):
    """Symbols used by a statement that are neither parameter, rv, data column, idv, amount nor defined earlier."""
    from pharmpy.model import Assignment

    known = set(model.parameters.names) | set(model.random_variables.names)
    try:
        known |= set(model.datainfo.names)
    except Exception:
        pass
    known.add("t")
    und = set()
    defined = set()
    for s in model.statements:
        rhs = {str(x) for x in s.rhs_symbols}
        for name in rhs:
            base = name
            if base in known or base in defined:
                continue
            if "(" in base:  # amounts A_X(t): defined by the ODE system
                continue
            und.add(base)
        if isinstance(s, Assignment):
            defined.add(s.symbol.name)
        else:
            defined |= {str(a) for a in s.amounts}
    return und


def wellformed(model, arg_models):
    """-> list of problems of a returned model."""
    probs = []
    try:
        for p in model.parameters:
            if not (p.lower <= p.init <= p.upper):
                probs.append(f"parameter {p.name}: init {p.init} outside [{p.lower}, {p.upper}]")
        def dups(xs):
            xs = list(xs)
            return {n for n in set(xs) if xs.count(n) > 1}

        # (delta form, like the undefined symbols below: a duplicate that an argument model already has is the fault of
        # the call that made it, not of every later call that passes it on)
        had_p, had_r = set(), set()
        for _, m in arg_models:
            try:
                had_p |= dups(m.parameters.names)
                had_r |= dups(m.random_variables.names)
            except Exception:
                pass
        dp = dups(model.parameters.names) - had_p
        if dp:
            probs.append(f"duplicate parameter names {sorted(dp)}")
        dr = dups(model.random_variables.names) - had_r
        if dr:
            probs.append(f"duplicate random variable names {sorted(dr)}")
        und = undefined_symbols(model)
        base = set()
        for _, m in arg_models:
            try:
                base |= undefined_symbols(m)
            except Exception:
                pass
        new = und - base - RESERVED
        if new:
            probs.append(f"statements use symbols that nothing defines: {sorted(new)}")
    except Exception as e:
        probs.append(f"well-formedness query raised {type(e).__name__}: {e}")
    try:
        _ = model.code
    except Exception as e:
        probs.append(f"code cannot be generated: {type(e).__name__}: {str(e)[:120]}")
    return probs


def eq_laws(obj, label):
    """Sampled laws on one object: x == x, copy(x) == x, hash consistent with ==."""
    probs = []
    try:
        if not (obj == obj):
            probs.append(f"{label}: x == x is False")
        c = copy.copy(obj)
        if not (c == obj):
            probs.append(f"{label}: copy(x) != x")
        d = copy.deepcopy(obj)
        if not (d == obj):
            probs.append(f"{label}: deepcopy(x) != x")
        try:
            if hash(c) != hash(obj) or hash(d) != hash(obj):
                probs.append(f"{label}: equal copies hash differently")
        except TypeError:
            COUNTS["eq_hash_unhashable:" + type(obj).__name__] += 1
    except Exception as e:
        probs.append(f"{label}: equality/copy raised {type(e).__name__}: {e}")
    # an equal object built separately (dict round trip) must hash alike
    try:
        if hasattr(obj, "to_dict") and hasattr(type(obj), "from_dict") and label != "Model":
            twin = type(obj).from_dict(obj.to_dict())
            COUNTS["eq_twin:" + label] += 1
            if twin == obj:
                try:
                    if hash(twin) != hash(obj):
                        probs.append(f"{label}: an equal object rebuilt from to_dict() hashes differently")
                except TypeError:
                    pass
            else:
                COUNTS["eq_twin_unequal:" + label] += 1  # round-trip inequality is judged by C12
    except Exception:
        COUNTS["eq_twin_failed:" + label] += 1
    if label == "Model":
        try:
            df = obj.dataset
            if df is not None and len(df) and len(df.columns):
                df2 = df.copy()
                col = df2.columns[-1]
                v = df2[col].iloc[0]
                df2.loc[df2.index[0], col] = (v + 1) if isinstance(v, (int, float)) else v
                other = obj.replace(dataset=df2)
                COUNTS["eq_dataset_probe"] += 1
                if other == obj:
                    try:
                        if hash(other) != hash(obj):
                            probs.append("Model: two models that differ in one data cell compare equal but hash differently")
                    except TypeError:
                        pass
        except Exception:
            COUNTS["eq_dataset_probe_failed"] += 1
    return probs


def _record(kind, fn, msg, extra=None):
    EVENTS.append({"kind": kind, "function": fn, "msg": msg, "extra": extra})


def monitor(fn, qualname=None):
    name = qualname or getattr(fn, "__qualname__", getattr(fn, "__name__", "?"))

    @functools.wraps(fn)
    def wrapper(*args, **kwargs):
        depth = getattr(_local, "depth", 0)
        if depth > 0 or getattr(_local, "off", False):
            COUNTS["nested_calls"] += 1
            return fn(*args, **kwargs)
        _local.depth = 1
        models = _models_in(args, kwargs)
        before = [(path, m, snapshot(m)) for path, m in models]
        COUNTS["calls"] += 1
        COUNTS["call:" + name] += 1
        raised = None
        result = None
        try:
            result = fn(*args, **kwargs)
            return result
        except BaseException as e:
            raised = e
            raise
        finally:
            try:
                for path, m, snap in before:
                    COUNTS["K-IMM"] += 1
                    after = snapshot(m)
                    changed = diff_snap(snap, after)
                    if changed:
                        _record("K-IMM", name, f"{name} modified its input model ({path}): {changed} changed"
                                + (f" [call raised {type(raised).__name__}]" if raised else ""),
                                {"changed": changed, "raised": type(raised).__name__ if raised else None})
                if raised is None:
                    from pharmpy.model import Model

                    outs = [result] if isinstance(result, Model) else (
                        [x for x in result if isinstance(x, Model)] if isinstance(result, (tuple, list)) else [])
                    for out in outs[:3]:
                        COUNTS["K-WF"] += 1
                        for p in wellformed(out, models):
                            _record("K-WF", name, f"{name} returned a model that is not well formed: {p}")
                        if COUNTS["K-WF"] % 5 == 0:
                            COUNTS["K-EQ"] += 1
                            for obj, label in ((out, "Model"), (out.statements, "Statements"), (out.parameters, "Parameters"),
                                               (out.random_variables, "RandomVariables")):
                                for p in eq_laws(obj, label):
                                    _record("K-EQ", name, p)
                            ode = out.statements.ode_system
                            if ode is not None:
                                for p in eq_laws(ode, "CompartmentalSystem"):
                                    _record("K-EQ", name, p)
            finally:
                _local.depth = 0

    wrapper.__vp_wrapped__ = fn
    return wrapper


def install():
    """Wrap the public modeling API and rebind the wrapped functions everywhere in pharmpy."""
    if _installed:
        return _installed
    import pharmpy.modeling as pm
    import pharmpy.tools  # noqa
    import pharmpy.workflows  # noqa

    mapping = {}
    for name in pm.__all__:
        f = getattr(pm, name, None)
        if inspect.isfunction(f) and not hasattr(f, "__vp_wrapped__"):
            mapping[f] = monitor(f, name)
    # methods
    from pharmpy.model import Model
    from pharmpy.model.external.nonmem.model import Model as NMModel

    for cls in (NMModel, Model):
        for meth in ("update_source", "write_files"):
            f = cls.__dict__.get(meth)
            if inspect.isfunction(f) and not hasattr(f, "__vp_wrapped__"):
                setattr(cls, meth, monitor(f, f"{cls.__name__}.{meth}"))
                COUNTS["wrapped_methods"] += 1
    for modname, mod in list(sys.modules.items()):
        if not modname.startswith("pharmpy") or mod is None:
            continue
        for attr, val in list(vars(mod).items()):
            try:
                if inspect.isfunction(val) and val in mapping:
                    setattr(mod, attr, mapping[val])
                    COUNTS["rebound"] += 1
            except TypeError:
                pass
    _installed.update({getattr(f, "__name__", str(f)): w for f, w in mapping.items()})
    COUNTS["wrapped_functions"] = len(mapping)
    return _installed


class off:
    """Context manager: suspend monitoring (for harness-internal calls)."""

    def __enter__(self):
        self.prev = getattr(_local, "off", False)
        _local.off = True

    def __exit__(self, *a):
        _local.off = self.prev


def drain():
    ev = list(EVENTS)
    EVENTS.clear()
    return ev
