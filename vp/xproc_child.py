"""Child of the C12 cross-process monitor: builds the models named on stdin in THIS interpreter (own PYTHONHASHSEED,
fresh import state) and prints their keys and digests.  `python -m vp.xproc_child < specs.json`."""
from __future__ import annotations

import hashlib
import json
import random
import sys


def build(spec):
    """Deterministic (given the spec) construction of a model; mirrors vp.checks.c12.build_model."""
    from vp.checks import c12

    return c12.build_model(spec)


def main():
    import warnings

    warnings.simplefilter("ignore")
    req = json.load(sys.stdin)
    out = []
    from pharmpy.workflows.hashing import ModelHash

    for spec in req["items"]:
        try:
            model = build(spec)
            if model is None:
                out.append({"error": "refused"})
                continue
            if req.get("order"):
                # different construction order inside this process: hash a sibling first, touch caches
                _ = hash(model)
                _ = model.statements.free_symbols
            mh = ModelHash(model)
            d = model.to_dict()
            js = json.dumps(d)
            item = {
                "key": str(mh),
                "dataset_key": mh.dataset_hash,
                "dict_sha": hashlib.sha256(js.encode()).hexdigest(),
                "code_sha": hashlib.sha256(model.code.encode()).hexdigest(),
            }
            if req.get("want_dict"):
                item["dict"] = js
            out.append(item)
        except Exception as e:  # noqa
            out.append({"error": f"{type(e).__name__}: {str(e)[:200]}"})
    json.dump({"hashseed": sys.flags.hash_randomization, "items": out}, sys.stdout)


if __name__ == "__main__":
    main()
