"""Independent reference interpreter for the supported NM-TRAN subset (DESIGN.md Appendix A).

Shares no code with pharmpy: own record splitter, tokenizer, Pratt parser with Fortran precedence, sequential
store interpreter, parameter-record readers and PREDPP library tables.
"""
from __future__ import annotations

import math
import re
from dataclasses import dataclass, field
from typing import Optional

from vp.numctx import CTX


class Unsupported(Exception):
    """The text uses a construct outside the reference subset: the case is not judged."""


class RefError(Exception):
    """Numerically undefined evaluation (division by zero, log of non-positive...)."""


class RefUnbound(Exception):
    """Read of a variable that has no value."""


# =========================================================================================== record level
REC_RE = re.compile(r"^[ \t]*\$([A-Za-z]+)", re.M)

CANON = {
    "PRO": "PROBLEM", "INP": "INPUT", "DAT": "DATA", "SUB": "SUBROUTINES", "MOD": "MODEL", "ABB": "ABBREVIATED",
    "PK": "PK", "PRE": "PRED", "ERR": "ERROR", "DES": "DES", "THE": "THETA", "OME": "OMEGA", "SIG": "SIGMA",
    "EST": "ESTIMATION", "COV": "COVARIANCE", "TAB": "TABLE", "SIZ": "SIZES", "SIM": "SIMULATION",
    "ETA": "ETAS", "PHI": "ETAS", "MSF": "MSFI",
}


def canon_name(raw: str) -> str:
    r = raw.upper()
    if r == "PK":
        return "PK"
    if r.startswith("ESTM"):
        return "ESTIMATION"
    if r.startswith("THETAI") or r.startswith("THI") or r.startswith("THETAR") or r.startswith("THR") \
            or r.startswith("THETAP"):
        return r
    if r.startswith("OMEGAP") or r.startswith("SIGMAP"):
        return r
    return CANON.get(r[:3], r)


def split_records(text: str):
    """-> list of (canonical name, content string after the record name)."""
    ms = list(REC_RE.finditer(text))
    out = []
    for i, m in enumerate(ms):
        end = ms[i + 1].start() if i + 1 < len(ms) else len(text)
        out.append((canon_name(m.group(1)), text[m.end():end]))
    return out


def strip_comments(s: str) -> str:
    return "\n".join(line.split(";", 1)[0] for line in s.splitlines())


# =========================================================================================== expressions
TOKEN_RE = re.compile(
    r"""\s*(?:
      (?P<num>(?:\d+(?:\.(?!(?:AND|OR|NOT|EQ|NE|LT|LE|GT|GE|EQN|NEN)\.)\d*)?|\.\d+)(?:[EeDd][+-]?\d+)?)
    | (?P<dotop>\.(?:LT|LE|GT|GE|EQ|NE|NEN|EQN|AND|OR|NOT|TRUE|FALSE)\.)
    | (?P<name>[A-Za-z_][A-Za-z0-9_]*)
    | (?P<op>\*\*|==|/=|<=|>=|<|>|[-+*/(),=])
    )""",
    re.X | re.I,
)


def tokenize(s: str):
    toks = []
    pos = 0
    s = s.rstrip()
    while pos < len(s):
        m = TOKEN_RE.match(s, pos)
        if not m or m.end() == pos:
            if s[pos:].strip() == "":
                break
            raise Unsupported(f"cannot tokenize {s[pos:pos+20]!r}")
        pos = m.end()
        if m.group("num") is not None:
            # "1.AND." style: a number followed by a dot-operator; the regex is greedy on "1." which is fine
            txt = m.group("num")
            # guard: '1.EQ.' must not swallow the E as exponent: regex requires digits after E so "1.EQ" -> "1."
            toks.append(("num", float(txt.upper().replace("D", "E"))))
        elif m.group("dotop") is not None:
            toks.append(("op", m.group("dotop").upper()))
        elif m.group("name") is not None:
            toks.append(("name", m.group("name").upper()))
        else:
            toks.append(("op", m.group("op")))
    return toks


REL = {".LT.": "<", "<": "<", ".LE.": "<=", "<=": "<=", ".GT.": ">", ">": ">", ".GE.": ">=", ">=": ">=",
       ".EQ.": "==", "==": "==", ".NE.": "!=", "/=": "!=", ".EQN.": "==", ".NEN.": "!="}


OR_TIGHT = False  # delta-check repair only: read A.AND.B.OR.C as A.AND.(B.OR.C)


class Parser:
    """Fortran-precedence expression parser -> nested tuples."""

    def __init__(self, toks):
        self.t = toks
        self.i = 0

    def peek(self):
        return self.t[self.i] if self.i < len(self.t) else (None, None)

    def next(self):
        tok = self.peek()
        self.i += 1
        return tok

    def expect(self, val):
        k, v = self.next()
        if v != val:
            raise Unsupported(f"expected {val!r} got {v!r}")

    # logical: .OR. < .AND. < .NOT. < relational < additive
    def parse_or(self):
        if OR_TIGHT:
            return self._chain(".AND.", "and", lambda: self._chain(".OR.", "or", self.parse_not))
        return self._chain(".OR.", "or", self.parse_and)

    def parse_and(self):
        return self._chain(".AND.", "and", self.parse_not)

    def _chain(self, tok, tag, sub):
        l = sub()
        while self.peek() == ("op", tok):
            self.next()
            l = (tag, l, sub())
        return l

    def parse_not(self):
        if self.peek() == ("op", ".NOT."):
            self.next()
            return ("not", self.parse_not())
        return self.parse_rel()

    def parse_rel(self):
        l = self.parse_add()
        k, v = self.peek()
        if k == "op" and v in REL:
            self.next()
            r = self.parse_add()
            return ("rel", REL[v], l, r)
        return l

    def parse_add(self):
        k, v = self.peek()
        if k == "op" and v in "+-" and v != "":
            self.next()
            t = self.parse_mul()
            l = ("neg", t) if v == "-" else t
        else:
            l = self.parse_mul()
        while True:
            k, v = self.peek()
            if k == "op" and v in ("+", "-"):
                self.next()
                r = self.parse_mul()
                l = ("bin", v, l, r)
            else:
                return l

    def parse_mul(self):
        l = self.parse_pow()
        while True:
            k, v = self.peek()
            if k == "op" and v in ("*", "/"):
                self.next()
                # tolerate a signed factor (A*-B), accepted by NM-TRAN's Fortran
                k2, v2 = self.peek()
                if k2 == "op" and v2 in ("+", "-"):
                    self.next()
                    r = self.parse_pow()
                    if v2 == "-":
                        r = ("neg", r)
                else:
                    r = self.parse_pow()
                l = ("bin", v, l, r)
            else:
                return l

    def parse_pow(self):
        base = self.parse_atom()
        if self.peek() == ("op", "**"):
            self.next()
            k, v = self.peek()
            if k == "op" and v in ("+", "-"):
                self.next()
                e = self.parse_pow()
                if v == "-":
                    e = ("neg", e)
            else:
                e = self.parse_pow()  # right associative
            return ("bin", "**", base, e)
        return base

    def parse_atom(self):
        k, v = self.next()
        if k == "num":
            return ("num", v)
        if k == "op" and v == "(":
            e = self.parse_or()
            self.expect(")")
            return e
        if k == "op" and v == ".TRUE.":
            return ("bool", True)
        if k == "op" and v == ".FALSE.":
            return ("bool", False)
        if k == "op" and v in ("+", "-"):
            e = self.parse_pow()
            return ("neg", e) if v == "-" else e
        if k == "name":
            if self.peek() == ("op", "("):
                self.next()
                args = [self.parse_or()]
                while self.peek() == ("op", ","):
                    self.next()
                    args.append(self.parse_or())
                self.expect(")")
                return ("call", v, args)
            return ("var", v)
        raise Unsupported(f"unexpected token {v!r}")


def parse_expr(s: str):
    p = Parser(tokenize(s))
    e = p.parse_or()
    if p.i != len(p.t):
        raise Unsupported(f"trailing tokens in {s!r}")
    return e


SMALLZ = 2.8e-103
INDEXED = {"THETA", "ETA", "EPS", "ERR", "A", "DADT", "A_0", "OMEGA", "SIGMA"}


def _fn(name, a):
    n = name
    if n in ("DEXP",):
        n = "EXP"
    if n in ("DLOG", "ALOG"):
        n = "LOG"
    if n in ("DLOG10", "ALOG10"):
        n = "LOG10"
    if n in ("DSQRT",):
        n = "SQRT"
    if n in ("DSIN", "DCOS", "DTAN", "DASIN", "DACOS", "DATAN", "DABS", "DINT", "DMOD"):
        n = n[1:]
    if n in ("PTAN", "PASIN", "PACOS", "PATAN"):
        n = n[1:]
    x = a[0]
    F = CTX.f
    try:
        if n == "EXP":
            return F("exp", x)
        if n == "PEXP":
            return F("exp", x if x < 100 else CTX.num(100.0) * 0 + 100)
        if n == "LOG":
            if x <= 0:
                raise RefError("log<=0")
            return F("log", x)
        if n == "PLOG":
            return F("log", CTX.num(SMALLZ) * 0 + SMALLZ) if x < SMALLZ else F("log", x)
        if n == "LOG10":
            if x <= 0:
                raise RefError("log10<=0")
            return F("log", x) / F("log", CTX.rat(10, 1) * 0 + 10)
        if n == "PLOG10":
            y = (CTX.num(SMALLZ) * 0 + SMALLZ) if x < SMALLZ else x
            return F("log", y) / F("log", CTX.rat(10, 1) * 0 + 10)
        if n == "SQRT":
            if x < 0:
                raise RefError("sqrt<0")
            return F("sqrt", x)
        if n == "PSQRT":
            return x * 0 if x < 0 else F("sqrt", x)
        if n in ("SIN", "COS", "TAN", "ASIN", "ACOS", "ATAN"):
            if n in ("ASIN", "ACOS") and abs(x) > 1:
                raise RefError("asin/acos domain")
            return F(n.lower(), x)
        if n == "ABS":
            return abs(x)
        if n == "INT":
            # INT and MOD jump at whole numbers / multiples: an argument that sits on the jump up to rounding
            # (INT(.1**(-1)): 9.999999999999999 in double precision, 10 in exact arithmetic) has no meaning that a
            # comparison to 1e-9 could decide - the point is not compared (a random perturbation probe sees the jump
            # only for one sign of the perturbation)
            try:
                if x != 0 and abs(x - round(float(x))) <= 1e-9 * max(1.0, abs(float(x))) and float(x) != round(float(x)):
                    raise RefError("INT at a jump")
            except (TypeError, ValueError, OverflowError):
                pass
            return CTX.trunc(x)
        if n == "MOD":
            if a[1] == 0:
                raise RefError("mod0")
            try:
                q = float(x) / float(a[1])
                if q != 0 and abs(q - round(q)) <= 1e-9 * max(1.0, abs(q)) and q != round(q):
                    raise RefError("MOD at a jump")
            except (TypeError, ValueError, OverflowError, ZeroDivisionError):
                pass
            return CTX.fmod(x, a[1])
        if n == "GAMLN":
            if x <= 0:
                raise RefError("gamln<=0")
            return F("lgamma", x)
        if n == "PHI":
            return (1 + F("erf", x / F("sqrt", x * 0 + 2))) / 2
        if n == "PDZ":
            return 1 / (x * 0 + SMALLZ) if abs(x) < SMALLZ else 1 / x
        if n == "PZR":
            return x * 0 + SMALLZ if abs(x) < SMALLZ else x
        if n == "PNP":
            return x * 0 + SMALLZ if x < SMALLZ else x
        if n == "PHE":
            return x * 0 + 100 if x > 100 else x
        if n == "PNG":
            return x * 0 if x < 0 else x
        if n == "MIN":
            return min(a)
        if n == "MAX":
            return max(a)
    except (ValueError, OverflowError, ZeroDivisionError) as e:
        raise RefError(str(e))
    raise Unsupported(f"function {name}")


def _exponent(e, st):
    """Exponents that are numeric literals are taken exactly (never perturbed by the conditioning probe)."""
    if e[0] == "num":
        return CTX.val(e[1])
    if e[0] == "neg" and e[1][0] == "num":
        return -CTX.val(e[1][1])
    return eval_expr(e, st)


def eval_expr(e, st):
    k = e[0]
    if k == "num":
        return CTX.num(e[1])
    if k == "bool":
        return e[1]
    if k == "var":
        try:
            return CTX.val(st[e[1]])
        except KeyError:
            raise RefUnbound(e[1])
    if k == "neg":
        return -eval_expr(e[1], st)
    if k == "bin":
        op = e[1]
        a = eval_expr(e[2], st)
        b = _exponent(e[3], st) if op == "**" else eval_expr(e[3], st)
        try:
            if op == "+":
                return a + b
            if op == "-":
                return a - b
            if op == "*":
                return a * b
            if op == "/":
                if b == 0:
                    raise RefError("div0")
                return a / b
            if op == "**":
                if a == 0 and b < 0:
                    raise RefError("0**neg")
                if a < 0 and b != int(b):
                    raise RefError("neg**frac")
                return CTX.pow(a, b)
        except (OverflowError, ZeroDivisionError):
            raise RefError("overflow")
    if k == "rel":
        a = eval_expr(e[2], st)
        b = eval_expr(e[3], st)
        return {"<": a < b, "<=": a <= b, ">": a > b, ">=": a >= b, "==": a == b, "!=": a != b}[e[1]]
    if k == "and":
        return bool(eval_expr(e[1], st)) and bool(eval_expr(e[2], st))
    if k == "or":
        return bool(eval_expr(e[1], st)) or bool(eval_expr(e[2], st))
    if k == "not":
        return not eval_expr(e[1], st)
    if k == "call":
        name = e[1]
        if name in INDEXED:
            idx = [int(a[1]) if a[0] == "num" else int(eval_expr(a, st)) for a in e[2]]
            key = f"{name}({','.join(str(i) for i in idx)})"
            if name == "ERR":
                key = f"EPS({idx[0]})"
            try:
                return CTX.val(st[key])
            except KeyError:
                raise RefUnbound(key)
        return _fn(name, [eval_expr(a, st) for a in e[2]])
    raise Unsupported(str(k))


# =========================================================================================== statements
@dataclass
class Assign:
    target: str
    expr: tuple


@dataclass
class If:
    branches: list  # [(cond_expr or None for else, [stmts])]


def _logical_lines(code: str):
    """Comments stripped, '&' continuations joined, blank lines dropped."""
    lines = []
    cur = ""
    for raw in code.splitlines():
        line = raw.split(";", 1)[0].rstrip()
        if line.lstrip().startswith('"'):
            raise Unsupported("verbatim code")
        if not line.strip():
            continue
        if line.rstrip().endswith("&"):
            cur += line.rstrip()[:-1] + " "
            continue
        lines.append(cur + line)
        cur = ""
    if cur.strip():
        lines.append(cur)
    return lines


IF_RE = re.compile(r"^\s*IF\s*\(", re.I)


def _match_paren(s, start):
    depth = 0
    for i in range(start, len(s)):
        if s[i] == "(":
            depth += 1
        elif s[i] == ")":
            depth -= 1
            if depth == 0:
                return i
    raise Unsupported("unbalanced parentheses")


def _parse_target(lhs: str) -> str:
    lhs = lhs.strip().upper()
    m = re.match(r"^([A-Z_][A-Z0-9_]*)\s*(?:\(\s*(\d+)\s*\))?$", lhs)
    if not m:
        raise Unsupported(f"assignment target {lhs!r}")
    return f"{m.group(1)}({int(m.group(2))})" if m.group(2) else m.group(1)


def _parse_assign(s: str) -> Assign:
    # split on the first '=' that is not part of ==, /=, <=, >=
    depth = 0
    for i, ch in enumerate(s):
        if ch == "(":
            depth += 1
        elif ch == ")":
            depth -= 1
        elif ch == "=" and depth == 0:
            if s[i + 1:i + 2] == "=" or s[i - 1:i] in "/<>=":
                continue
            return Assign(_parse_target(s[:i]), parse_expr(s[i + 1:]))
    raise Unsupported(f"not an assignment: {s!r}")


def parse_code(code: str):
    lines = _logical_lines(code)
    pos = 0

    def block(terminators):
        nonlocal pos
        out = []
        while pos < len(lines):
            line = lines[pos].strip()
            up = re.sub(r"\s+", " ", line.upper())
            if any(up.startswith(t) for t in terminators):
                return out
            pos += 1
            if up in ("EXIT", "RETURN") or up.startswith("EXIT ") or up.startswith("CALL ") or up.startswith("DO ") \
                    or up.startswith("DOWHILE") or up.startswith("WRITE") or up.startswith("PRINT") \
                    or up.startswith("COMRES") or up.startswith("MTIME"):
                raise Unsupported(up.split()[0])
            if IF_RE.match(line):
                p0 = line.index("(")
                p1 = _match_paren(line, p0)
                cond = parse_expr(line[p0 + 1:p1])
                rest = line[p1 + 1:].strip()
                if rest.upper() == "THEN":
                    branches = []
                    body = block(("ELSE", "ENDIF", "END IF"))
                    branches.append((cond, body))
                    while True:
                        if pos >= len(lines):
                            raise Unsupported("unterminated IF")
                        l2 = lines[pos].strip()
                        u2 = re.sub(r"\s+", " ", l2.upper())
                        pos += 1
                        if u2 in ("ENDIF", "END IF"):
                            break
                        m = re.match(r"^ELSE\s*IF\s*\(", l2, re.I)
                        if m:
                            q0 = l2.index("(")
                            q1 = _match_paren(l2, q0)
                            c2 = parse_expr(l2[q0 + 1:q1])
                            if l2[q1 + 1:].strip().upper() != "THEN":
                                raise Unsupported("ELSEIF without THEN")
                            branches.append((c2, block(("ELSE", "ENDIF", "END IF"))))
                        elif u2 == "ELSE":
                            branches.append((None, block(("ENDIF", "END IF"))))
                        else:
                            raise Unsupported(f"unexpected {l2!r}")
                    out.append(If(branches))
                else:
                    out.append(If([(cond, [_parse_assign(rest)])]))
            else:
                out.append(_parse_assign(line))
        return out

    res = block(())
    if pos != len(lines):
        raise Unsupported("stray block terminator")
    return res


def exec_code(stmts, st):
    for s in stmts:
        if isinstance(s, Assign):
            v = eval_expr(s.expr, st)
            if isinstance(v, bool):
                v = CTX.one() if v else CTX.one() * 0
            else:
                # NM-TRAN variables are double precision: a value beyond its range is an overflow in NONMEM, not a
                # number to compare (50-digit arithmetic would carry on with 10**(10**40)).  And a variable beyond 1e35
                # absorbs O(1) terms in 50-digit arithmetic as well as in double precision ('TV1 - THETA(4) - TV1' with
                # TV1 = 1e212 is 0 here and in NONMEM, -THETA(4) in exact arithmetic): no arithmetic at hand says what
                # such a program means to 1e-9, so the point is not compared
                try:
                    if abs(v) > 1e35:
                        raise RefError("magnitude beyond the comparison arithmetic")
                except TypeError:
                    pass
            st[s.target] = v
        else:
            # conditions are evaluated in order at the time the block is entered; first true branch runs
            for cond, body in s.branches:
                if cond is None or eval_expr(cond, st):
                    exec_code(body, st)
                    break
    return st


def assigned_names(stmts, acc=None):
    acc = [] if acc is None else acc
    for s in stmts:
        if isinstance(s, Assign):
            if s.target not in acc:
                acc.append(s.target)
        else:
            for _, body in s.branches:
                assigned_names(body, acc)
    return acc


# =========================================================================================== parameter records
@dataclass
class Theta:
    init: float
    lower: float
    upper: float
    fix: bool
    name: Optional[str] = None  # from a trailing comment, informational


def _num(tok: str) -> float:
    t = tok.strip().upper()
    if t in ("INF", "+INF"):
        return math.inf
    if t == "-INF":
        return -math.inf
    v = float(t.replace("D", "E"))
    if v >= 1000000:
        return math.inf
    if v <= -1000000:
        return -math.inf
    return v


def parse_theta_records(contents: list) -> list:
    thetas = []
    for content in contents:
        # keep the first comment word per line as an informational name
        for line in content.splitlines():
            code, _, comment = line.partition(";")
            names = [comment.strip().split()[0]] if comment.strip() else []
            items = _theta_items(code)
            for j, it in enumerate(items):
                for _ in range(it[4]):
                    thetas.append(Theta(it[0], it[1], it[2], it[3], names[0] if names and len(items) == 1 else None))
    return thetas


def _theta_items(code: str):
    """-> list of (init, lower, upper, fix, repeat)"""
    s = code.strip()
    out = []
    i = 0
    up = s.upper()
    # strip record-level options
    for opt in ("NUMBERPOINTS", "NUMPOINTS", "NUMBERPTS", "NUMPTS", "ABORT", "NOABORT", "NOABORTFIRST"):
        if opt in up:
            raise Unsupported(f"$THETA option {opt}")
    while i < len(s):
        ch = s[i]
        if ch in " \t,":
            i += 1
            continue
        if ch == "(":
            j = _match_paren(s, i)
            inner = s[i + 1:j]
            fix = False
            m = re.search(r"\bFIX(?:ED|E)?\b", inner, re.I)
            if m:
                fix = True
                inner = inner[:m.start()] + " " + inner[m.end():]
            parts = [p for p in re.split(r"[,\s]+", inner.strip()) if p != ""]
            # handle forms with empty positions "(low,,up)": not generated
            if len(parts) == 1:
                init, lo, hi = _num(parts[0]), -math.inf, math.inf
            elif len(parts) == 2:
                lo, init, hi = _num(parts[0]), _num(parts[1]), math.inf
            elif len(parts) == 3:
                lo, init, hi = _num(parts[0]), _num(parts[1]), _num(parts[2])
            else:
                raise Unsupported(f"theta item {inner!r}")
            i = j + 1
            rep = 1
            m = re.match(r"\s*[xX]\s*(\d+)", s[i:])
            if m:
                rep = int(m.group(1))
                i += m.end()
            m = re.match(r"\s*FIX(?:ED|E)?\b", s[i:], re.I)
            if m:
                fix = True
                i += m.end()
            out.append((init, lo, hi, fix, rep))
            continue
        m = re.match(r"FIX(?:ED|E)?\b", s[i:], re.I)
        if m:
            if not out:
                raise Unsupported("leading FIX")
            last = out[-1]
            out[-1] = (last[0], last[1], last[2], True, last[4])
            i += m.end()
            continue
        m = re.match(r"[-+]?(?:\d+\.?\d*|\.\d+)(?:[EeDd][+-]?\d+)?|[-+]?INF", s[i:], re.I)
        if m:
            out.append((_num(m.group(0)), -math.inf, math.inf, False, 1))
            i += m.end()
            continue
        raise Unsupported(f"theta text {s[i:i+15]!r}")
    res = []
    for init, lo, hi, fix, rep in out:
        if lo == init == hi:
            fix = True
        res.append((init, lo, hi, fix, rep))
    return res


@dataclass
class Block:
    size: int
    matrix: list  # numeric covariance matrix (list of lists)
    fix: bool
    same: bool = False
    names: list = field(default_factory=list)


def parse_omega_records(contents: list) -> list:
    """-> list of Block in eta order (diagonal records give size-1 blocks)."""
    blocks: list = []
    for content in contents:
        code = strip_comments(content)
        up = code.upper()
        m = re.search(r"\bBLOCK\s*(?:\(\s*(\d+)\s*\))?", up)
        if m:
            n = int(m.group(1)) if m.group(1) else None
            rest = code[:m.start()] + " " + code[m.end():]
            mu = re.search(r"\bSAME\s*(?:\(\s*(\d+)\s*\))?", rest, re.I)
            if mu:
                rep = int(mu.group(1)) if mu.group(1) else 1
                if not blocks:
                    raise Unsupported("SAME without previous block")
                prev = blocks[-1]
                if n is not None and n != prev.size:
                    raise Unsupported("SAME size mismatch")
                for _ in range(rep):
                    blocks.append(Block(prev.size, [row[:] for row in prev.matrix], prev.fix, True))
                continue
            if n is None:
                raise Unsupported("BLOCK without size")
            opts, vals, recfix = _omega_tokens(rest)
            fix = recfix
            exp = []
            for v, r, f, sd in vals:
                exp.extend([v] * r)
                fix = fix or f
                if sd:
                    opts.add("SD")
            if len(exp) != n * (n + 1) // 2:
                raise Unsupported(f"BLOCK({n}) with {len(exp)} values")
            L = [[0.0] * n for _ in range(n)]
            k = 0
            for i in range(n):
                for j in range(i + 1):
                    L[i][j] = exp[k]
                    k += 1
            blocks.append(Block(n, _to_cov(L, n, opts), fix))
        else:
            opts, vals, recfix = _omega_tokens(code)
            if opts & {"CORR", "CHOLESKY"}:
                raise Unsupported("CORR/CHOLESKY on a diagonal record")
            for v, r, f, sd in vals:
                for _ in range(r):
                    val = v * v if ("SD" in opts or sd) else v
                    blocks.append(Block(1, [[val]], bool(recfix or f)))
    return blocks


def _to_cov(L, n, opts):
    sd = "SD" in opts
    corr = "CORR" in opts
    chol = "CHOLESKY" in opts
    if chol:
        return [[sum(L[i][k] * L[j][k] for k in range(n)) for j in range(n)] for i in range(n)]
    d = [L[i][i] for i in range(n)]
    sds = d if sd else [math.sqrt(x) if x >= 0 else float("nan") for x in d]
    M = [[0.0] * n for _ in range(n)]
    for i in range(n):
        for j in range(i + 1):
            if i == j:
                M[i][i] = d[i] * d[i] if sd else d[i]
            else:
                v = L[i][j] * sds[i] * sds[j] if corr else L[i][j]
                M[i][j] = M[j][i] = v
    return M


def _omega_tokens(code: str):
    """-> (set of record options, [(value, repeat, fix, sd)], record-level fix)"""
    opts = set()
    vals = []
    recfix = False
    s = code
    i = 0
    numre = r"[-+]?(?:\d+\.?\d*|\.\d+)(?:[EeDd][+-]?\d+)?"
    while i < len(s):
        ch = s[i]
        if ch in " \t\n\r,":
            i += 1
            continue
        if ch == "(":
            j = _match_paren(s, i)
            inner = s[i + 1:j]
            fx = bool(re.search(r"\bFIX(?:ED|E)?\b", inner, re.I))
            sd = bool(re.search(r"\b(SD|STANDARD)\b", inner, re.I))
            if re.search(r"\b(CORR\w*|CHOL\w*)\b", inner, re.I):
                raise Unsupported("per-item CORR/CHOLESKY")
            cleaned = re.sub(r"[A-Za-z]+", " ", inner)
            nums = re.findall(numre, cleaned)
            i = j + 1
            rep = 1
            m = re.match(r"\s*[xX]\s*(\d+)", s[i:])
            if m:
                rep = int(m.group(1))
                i += m.end()
            for nv in nums:
                vals.append((float(nv.upper().replace("D", "E")), rep, fx, sd))
            continue
        m = re.match(numre, s[i:])
        if m:
            vals.append((float(m.group(0).upper().replace("D", "E")), 1, False, False))
            i += m.end()
            continue
        m = re.match(r"[A-Za-z]+", s[i:])
        if m:
            w = m.group(0).upper()
            i += m.end()
            if w.startswith("FIX"):
                if vals:
                    v, r, f, sd = vals[-1]
                    vals[-1] = (v, r, True, sd)
                else:
                    recfix = True
            elif w in ("SD", "STANDARD"):
                opts.add("SD")
            elif w.startswith("VAR"):
                opts.add("VAR")
            elif w.startswith("CORR"):
                opts.add("CORR")
            elif w.startswith("COV"):
                opts.add("COV")
            elif w.startswith("CHOL"):
                opts.add("CHOLESKY")
            elif w.startswith("DIAG"):
                opts.add("DIAGONAL")
                m2 = re.match(r"\s*\(\s*\d+\s*\)", s[i:])
                if m2:
                    i += m2.end()
            else:
                raise Unsupported(f"omega option {w}")
            continue
        raise Unsupported(f"omega text {s[i:i+10]!r}")
    return opts, vals, recfix


# =========================================================================================== whole control stream
@dataclass
class RefModel:
    records: list
    thetas: list
    omegas: list
    sigmas: list
    input_names: list  # after DROP removal, synonyms resolved to the first name that is not reserved
    advan: Optional[str]
    trans: Optional[str]
    comps: list  # [(name, opts set)] from $MODEL
    pk: list
    pred: list
    error: list
    des: list
    abbr: dict  # name -> "ETA(1)" style key

    @property
    def ncomp(self):
        return {"ADVAN1": 1, "ADVAN2": 2, "ADVAN3": 2, "ADVAN4": 3, "ADVAN10": 1, "ADVAN11": 3,
                "ADVAN12": 4}.get(self.advan, len(self.comps))


def read_control_stream(text: str) -> RefModel:
    recs = split_records(text)
    if sum(1 for n, _ in recs if n == "PROBLEM") > 1:
        raise Unsupported("multiple $PROBLEM")
    by = {}
    for n, c in recs:
        by.setdefault(n, []).append(c)
    thetas = parse_theta_records(by.get("THETA", []))
    omegas = parse_omega_records(by.get("OMEGA", []))
    sigmas = parse_omega_records(by.get("SIGMA", []))
    advan = trans = None
    for c in by.get("SUBROUTINES", []):
        cc = strip_comments(c).upper()
        m = re.search(r"ADVAN\s*=?\s*(?:ADVAN)?(\d+)", cc)
        if m:
            advan = f"ADVAN{m.group(1)}"
        m = re.search(r"TRANS\s*=?\s*(?:TRANS)?(\d+)", cc)
        if m:
            trans = f"TRANS{m.group(1)}"
    if advan and trans is None:
        trans = "TRANS1"
    comps = []
    for c in by.get("MODEL", []):
        cc = strip_comments(c)
        for m in re.finditer(r"COMP\w*\s*=?\s*(?:\(([^)]*)\)|(\w+))", cc, re.I):
            inner = m.group(1) if m.group(1) is not None else m.group(2)
            parts = [p for p in re.split(r"[\s,]+", inner.strip()) if p]
            name = parts[0].strip('"\'').upper() if parts else f"COMP{len(comps)+1}"
            opts = set()
            for p in parts[1:]:
                pu = p.upper()
                if pu.startswith("DEFDOS"):
                    opts.add("DEFDOSE")
                elif pu.startswith("DEFOBS"):
                    opts.add("DEFOBS")
                elif pu == "NODOSE":
                    opts.add("NODOSE")
                elif pu in ("INITIALOFF", "NOOFF", "EQUILIBRIUM", "EXCLUDE"):
                    opts.add(pu)
            comps.append((name, opts))
    abbr = {}
    for c in by.get("ABBREVIATED", []):
        cc = strip_comments(c)
        for m in re.finditer(r"REPLACE\s+(\w+)\s*=\s*(\w+)\s*\(\s*(\d+)\s*\)", cc, re.I):
            abbr[m.group(1).upper()] = f"{m.group(2).upper()}({int(m.group(3))})"
        if re.search(r"REPLACE\s+\w+\s*\(", cc, re.I):
            raise Unsupported("$ABBR REPLACE with indexed lhs")
    input_names = []
    for c in by.get("INPUT", []):
        for tok in strip_comments(c).split():
            tu = tok.upper()
            if "=" in tu:
                a, b = tu.split("=", 1)
                if b in ("DROP", "SKIP"):
                    input_names.append(None)
                elif a in ("DROP", "SKIP"):
                    input_names.append(None)
                else:
                    input_names.append((a, b))
            elif tu in ("DROP", "SKIP"):
                input_names.append(None)
            else:
                input_names.append(tu)

    def code(name):
        cs = by.get(name, [])
        if not cs:
            return []
        return parse_code("\n".join(cs))

    return RefModel(recs, thetas, omegas, sigmas, input_names, advan, trans, comps,
                    code("PK"), code("PRED"), code("ERROR"), code("DES"), abbr)


# =========================================================================================== PREDPP
LIB_NAMES = {
    "ADVAN1": ["CENTRAL"],
    "ADVAN2": ["DEPOT", "CENTRAL"],
    "ADVAN3": ["CENTRAL", "PERIPHERAL"],
    "ADVAN4": ["DEPOT", "CENTRAL", "PERIPHERAL"],
    "ADVAN10": ["CENTRAL"],
    "ADVAN11": ["CENTRAL", "PERIPHERAL1", "PERIPHERAL2"],
    "ADVAN12": ["DEPOT", "CENTRAL", "PERIPHERAL1", "PERIPHERAL2"],
}


def _need(st, *names):
    out = []
    for n in names:
        if n not in st:
            raise RefUnbound(n)
        out.append(st[n])
    return out


def _div(a, b):
    if abs(b) < 1e-12:
        raise RefError("singular TRANS")
    return a / b


def micro_constants(rm: RefModel, st: dict):
    """-> dict (i, j) -> rate constant, compartments 1..n, output = 0."""
    a, t = rm.advan, rm.trans
    K = {}
    if a in ("ADVAN1", "ADVAN2"):
        c = 1 if a == "ADVAN1" else 2
        if t == "TRANS1":
            (k,) = _need(st, "K")
        elif t == "TRANS2":
            cl, v = _need(st, "CL", "V")
            k = _div(cl, v)
        else:
            raise Unsupported(f"{a} {t}")
        K[(c, 0)] = k
        if a == "ADVAN2":
            (ka,) = _need(st, "KA")
            K[(1, 2)] = ka
        return K
    if a in ("ADVAN3", "ADVAN4"):
        c = 1 if a == "ADVAN3" else 2
        p = c + 1
        kcp, kpc = (f"K{c}{p}", f"K{p}{c}")
        if t == "TRANS1":
            k, k12, k21 = _need(st, "K", kcp, kpc)
        elif t == "TRANS3":
            cl, v, q, vss = _need(st, "CL", "V", "Q", "VSS")
            k, k12, k21 = _div(cl, v), _div(q, v), _div(q, vss - v)
        elif t == "TRANS4":
            cl, v1, q, v2 = _need(st, "CL", f"V{c}", "Q", f"V{p}")
            k, k12, k21 = _div(cl, v1), _div(q, v1), _div(q, v2)
        elif t == "TRANS5":
            aob, al, be = _need(st, "AOB", "ALPHA", "BETA")
            k21 = _div(aob * be + al, aob + 1)
            k = _div(al * be, k21)
            k12 = al + be - k21 - k
        elif t == "TRANS6":
            al, be, k21 = _need(st, "ALPHA", "BETA", kpc)
            k = _div(al * be, k21)
            k12 = al + be - k21 - k
        else:
            raise Unsupported(f"{a} {t}")
        K[(c, 0)] = k
        K[(c, p)] = k12
        K[(p, c)] = k21
        if a == "ADVAN4":
            (ka,) = _need(st, "KA")
            K[(1, 2)] = ka
        return K
    if a in ("ADVAN11", "ADVAN12"):
        c = 1 if a == "ADVAN11" else 2
        p1, p2 = c + 1, c + 2
        if t == "TRANS1":
            k, k12, k21, k13, k31 = _need(st, "K", f"K{c}{p1}", f"K{p1}{c}", f"K{c}{p2}", f"K{p2}{c}")
        elif t == "TRANS4":
            cl, v1, q2, v2, q3, v3 = _need(st, "CL", f"V{c}", f"Q{p1}", f"V{p1}", f"Q{p2}", f"V{p2}")
            k, k12, k21, k13, k31 = _div(cl, v1), _div(q2, v1), _div(q2, v2), _div(q3, v1), _div(q3, v3)
        elif t == "TRANS6":
            al, be, ga, k21, k31 = _need(st, "ALPHA", "BETA", "GAMMA", f"K{p1}{c}", f"K{p2}{c}")
            k = _div(al * be * ga, k21 * k31)
            s = al + be + ga
            pp = al * be + al * ga + be * ga
            k13 = _div(pp + k31 * k31 - k31 * s - k * k21, k21 - k31)
            k12 = s - k - k13 - k21 - k31
        else:
            raise Unsupported(f"{a} {t}")
        K[(c, 0)] = k
        K[(c, p1)] = k12
        K[(p1, c)] = k21
        K[(c, p2)] = k13
        K[(p2, c)] = k31
        if a == "ADVAN12":
            (ka,) = _need(st, "KA")
            K[(1, 2)] = ka
        return K
    if a in ("ADVAN5", "ADVAN7"):
        n = len(rm.comps)
        for name, val in st.items():
            if name in getattr(rm, "ignore_k", ()):
                continue
            m = re.match(r"^K(\d+)T(\d+)$", name)
            if m:
                i, j = int(m.group(1)), int(m.group(2))
            else:
                m = re.match(r"^K(\d+)$", name)
                if not m:
                    continue
                d = m.group(1)
                if len(d) == 2:
                    i, j = int(d[0]), int(d[1])
                elif len(d) == 3:
                    c1 = (int(d[0]), int(d[1:]))
                    c2 = (int(d[:2]), int(d[2:]))
                    ok1 = c1[0] <= n + 1 and c1[1] <= n + 1 and c1[1] != 0 and d[1] != "0"
                    ok2 = c2[0] <= n + 1 and c2[1] <= n + 1
                    if ok1 and ok2:
                        raise Unsupported("ambiguous Kij")
                    if ok1:
                        i, j = c1
                    elif ok2:
                        i, j = c2
                    else:
                        continue
                elif len(d) == 4:
                    i, j = int(d[:2]), int(d[2:])
                else:
                    continue
            if j == n + 1:
                j = 0
            if i < 1 or i > n or j > n:
                continue
            K[(i, j)] = K.get((i, j), 0.0) + val if (i, j) in K else val
        return K
    raise Unsupported(f"no micro constants for {a}")


def comp_names(rm: RefModel):
    if rm.advan in LIB_NAMES:
        return LIB_NAMES[rm.advan]
    return [n for n, _ in rm.comps]


def default_dose_comp(rm: RefModel) -> int:
    if rm.advan in LIB_NAMES:
        return 1
    for i, (n, o) in enumerate(rm.comps, 1):
        if "DEFDOSE" in o:
            return i
    for i, (n, o) in enumerate(rm.comps, 1):
        if n == "DEPOT" and "NODOSE" not in o:
            return i
    for i, (n, o) in enumerate(rm.comps, 1):
        if "NODOSE" not in o:
            return i
    raise Unsupported("no dose compartment")


def default_obs_comp(rm: RefModel) -> int:
    if rm.advan in LIB_NAMES:
        return LIB_NAMES[rm.advan].index("CENTRAL") + 1
    for i, (n, o) in enumerate(rm.comps, 1):
        if "DEFOBS" in o:
            return i
    for i, (n, o) in enumerate(rm.comps, 1):
        if n == "CENTRAL":
            return i
    return 1


def vector_field(rm: RefModel, st: dict, a: list, t: float):
    """da/dt for state a (list, compartment 1..n) given the $PK store st."""
    n = rm.ncomp
    if rm.advan in ("ADVAN6", "ADVAN8", "ADVAN9", "ADVAN13", "ADVAN14", "ADVAN15", "ADVAN16", "ADVAN17", "ADVAN18"):
        s2 = dict(st)
        for i in range(n):
            s2[f"A({i+1})"] = a[i]
        s2["T"] = t
        exec_code(rm.des, s2)
        out = []
        for i in range(n):
            key = f"DADT({i+1})"
            if key not in s2:
                raise RefUnbound(key)
            out.append(s2[key])
        return out
    if rm.advan == "ADVAN10":
        vm, km = _need(st, "VM", "KM")
        if abs(km + a[0]) < 1e-12:
            raise RefError("KM+A=0")
        return [-vm * a[0] / (km + a[0])]
    K = micro_constants(rm, st)
    d = [0.0] * n
    for (i, j), k in K.items():
        flow = k * a[i - 1]
        d[i - 1] -= flow
        if j != 0:
            d[j - 1] += flow
    return d
