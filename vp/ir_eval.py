"""Independent numeric evaluator of pharmpy IR expressions and statement lists.

Does not call pharmpy's evaluate_*, full_expression, subs or lambdify: it walks the sympy tree of an
expression and computes a float under an environment {symbol name -> float}; applied undefined
functions (compartment amounts `A_X(t)`) are looked up by function name.
"""
from __future__ import annotations

import math

import mpmath
import sympy
from sympy.core.function import AppliedUndef

from vp.numctx import CTX


class EvalError(Exception):
    """Numerically undefined at this point (division by ~0, log of negative, complex, overflow)."""


class NoBranch(EvalError):
    """A Piecewise without default none of whose conditions holds: the symbol has no value on this path."""


class Unbound(Exception):
    """A symbol had no value in the environment."""


def to_sympy(e):
    if hasattr(e, "_sympy_"):
        return e._sympy_()
    return sympy.sympify(e)


_FUNCS1 = {
    sympy.exp: "exp",
    sympy.sin: "sin",
    sympy.cos: "cos",
    sympy.tan: "tan",
    sympy.asin: "asin",
    sympy.acos: "acos",
    sympy.atan: "atan",
    sympy.sinh: "sinh",
    sympy.cosh: "cosh",
    sympy.tanh: "tanh",
    sympy.Abs: "abs",
    sympy.floor: "floor",
    sympy.ceiling: "ceil",
    sympy.loggamma: "lgamma",
    sympy.gamma: "gamma",
    sympy.erf: "erf",
}


def ev(e, env, funcs=None):
    """Evaluate sympy expression e (or pharmpy Expr) to float."""
    e = to_sympy(e)
    try:
        v = _ev(e, env, funcs or {})
    except (ZeroDivisionError, OverflowError, ValueError, mpmath.libmp.libhyper.NoConvergence) as x:
        raise EvalError(str(x))
    if isinstance(v, (complex, mpmath.mpc)):
        raise EvalError("complex")
    if isinstance(v, bool):
        return v
    if v != v or v in (math.inf, -math.inf):
        raise EvalError("nan/inf")
    return v


def _ev(e, env, funcs):
    if e.is_Symbol:
        try:
            return CTX.val(env[e.name])
        except KeyError:
            raise Unbound(e.name)
    if e.is_Number:
        if e is sympy.S.NaN or e is sympy.zoo or e.is_infinite:
            raise EvalError("nan const")
        if e.is_Rational:
            return CTX.rat(int(e.p), int(e.q))
        return CTX.num(float(e))
    if e is sympy.S.Exp1:
        return CTX.e()
    if e is sympy.S.Pi:
        return CTX.pi()
    if e is sympy.true:
        return True
    if e is sympy.false:
        return False
    f = e.func
    if f is sympy.Add:
        return CTX.fsum([_ev(a, env, funcs) for a in e.args])
    if f is sympy.Mul:
        r = CTX.one()
        for a in e.args:
            r *= _ev(a, env, funcs)
        return r
    if f is sympy.Pow:
        b = _ev(e.args[0], env, funcs)
        x = _ev(e.args[1], env, funcs)
        if b == 0 and x < 0:
            raise EvalError("0**neg")
        if b < 0 and x != int(x):
            raise EvalError("neg**frac")
        if abs(b) < 1e-300 and x < 0:
            raise EvalError("tiny**neg")
        return CTX.pow(b, x)
    if f is sympy.log:
        a = _ev(e.args[0], env, funcs)
        if a <= 0:
            raise EvalError("log<=0")
        if len(e.args) == 2:
            return CTX.f("log", a) / CTX.f("log", _ev(e.args[1], env, funcs))
        return CTX.f("log", a)
    if f is sympy.sign:
        a = _ev(e.args[0], env, funcs)
        return (a > 0) - (a < 0)
    if f is sympy.Mod:
        a = _ev(e.args[0], env, funcs)
        b = _ev(e.args[1], env, funcs)
        return a - b * CTX.f("floor", a / b)
    if f in _FUNCS1:
        return CTX.f(_FUNCS1[f], _ev(e.args[0], env, funcs))
    if f is sympy.Piecewise:
        for val, cond in e.args:
            if _ev(cond, env, funcs):
                return _ev(val, env, funcs)
        raise NoBranch("piecewise-no-branch")
    if f is sympy.Max:
        return max(_ev(a, env, funcs) for a in e.args)
    if f is sympy.Min:
        return min(_ev(a, env, funcs) for a in e.args)
    # relations / booleans
    if isinstance(e, sympy.core.relational.Relational):
        a = _ev(e.args[0], env, funcs)
        b = _ev(e.args[1], env, funcs)
        if f is sympy.Eq:
            return a == b
        if f is sympy.Ne:
            return a != b
        if f in (sympy.Lt, sympy.StrictLessThan):
            return a < b
        if f in (sympy.Le, sympy.LessThan):
            return a <= b
        if f in (sympy.Gt, sympy.StrictGreaterThan):
            return a > b
        if f in (sympy.Ge, sympy.GreaterThan):
            return a >= b
    if f is sympy.And:
        return all(_ev(a, env, funcs) for a in e.args)
    if f is sympy.Or:
        return any(_ev(a, env, funcs) for a in e.args)
    if f is sympy.Not:
        return not _ev(e.args[0], env, funcs)
    if isinstance(e, AppliedUndef):
        name = e.func.__name__
        if name in funcs:
            return CTX.val(funcs[name])
        if str(e) in env:
            return CTX.val(env[str(e)])
        if name in env:
            return CTX.val(env[name])
        raise Unbound(str(e))
    if isinstance(e, sympy.Function):
        name = type(e).__name__
        if name == "PHI":  # standard normal cdf
            a = _ev(e.args[0], env, funcs)
            return (1 + CTX.f("erf", a / CTX.f("sqrt", CTX.rat(2, 1)))) / 2
        if name in funcs:
            return CTX.val(funcs[name])
    raise EvalError(f"unsupported node {f}")


def run_statements(stmts, env, amounts=None):
    """Sequentially execute a list of pharmpy statements on a copy of env.

    amounts: dict name -> value for the amounts A_x(t) defined by a CompartmentalSystem statement (they
    are bound, under the function name, when the system is passed).
    Returns the final store.
    """
    from pharmpy.model import Assignment

    store = dict(env)
    for s in stmts:
        if isinstance(s, Assignment):
            store[s.symbol.name] = ev(s.expression, store)
        else:
            if amounts is not None:
                for k, v in amounts.items():
                    store[k] = v
    return store
