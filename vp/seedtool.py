"""Seeded-change bookkeeping: import, confirm and evaluate the property-breaking changes kept under /verif/seeded.

  python -m vp.seedtool import  <ID>                 copy /tmp/mut/<ID>/out/* to seeded/<ID>/
  python -m vp.seedtool confirm <ID> [name]          demo exits 0 clean / 1 patched; pinned suite passes the same tests
  python -m vp.seedtool run     <ID> [name] [--checks C01,C06] [--tier quick] [--seed 0]
  python -m vp.seedtool table                        summary of all results (markdown)

Every step works in its own scratch git worktree of /repo under /tmp (removed afterwards); /repo itself is never
modified: the checks are pointed at the worktree's sources through PYTHONPATH and write their evidence and replays to a
scratch directory (VERIF_OUT), so the committed evidence of the unchanged tree is not touched.
"""
from __future__ import annotations

import json
import os
import re
import shutil
import subprocess
import sys
import time
import xml.etree.ElementTree as ET
from pathlib import Path

ROOT = Path(__file__).resolve().parent.parent
SEEDED = ROOT / "seeded"
PY = "/venv/bin/python"


def sh(cmd, **kw):
    return subprocess.run(cmd, shell=isinstance(cmd, str), capture_output=True, text=True, **kw)


class Worktree:
    def __init__(self, tag):
        self.path = Path(f"/tmp/seedwt-{tag}-{os.getpid()}")

    def __enter__(self):
        if self.path.exists():
            sh(["git", "-C", "/repo", "worktree", "remove", "--force", str(self.path)])
        r = sh(["git", "-C", "/repo", "worktree", "add", "--detach", str(self.path), "HEAD"])
        if r.returncode:
            raise RuntimeError(r.stderr)
        # uncommitted changes of /repo (there should be none) are not carried over
        return self.path

    def __exit__(self, *a):
        sh(["git", "-C", "/repo", "worktree", "remove", "--force", str(self.path)])
        shutil.rmtree(self.path, ignore_errors=True)
        sh(["git", "-C", "/repo", "worktree", "prune"])


def names(pid, name=None):
    d = SEEDED / pid
    if name:
        return [name]
    return sorted(p.name for p in d.iterdir() if (p / "patch.diff").exists())


def cmd_import(pid):
    src = Path(f"/tmp/mut/{pid}/out")
    for d in sorted(src.iterdir()):
        if not (d / "patch.diff").exists():
            continue
        dst = SEEDED / pid / d.name
        dst.mkdir(parents=True, exist_ok=True)
        for f in ("patch.diff", "demo.py", "meta.json"):
            if (d / f).exists():
                shutil.copy(d / f, dst / f)
        print("imported", pid, d.name)


def pinned_pass_set(junit):
    out = set()
    for tc in ET.parse(junit).getroot().iter("testcase"):
        if not any(ch.tag in ("failure", "error", "skipped") for ch in tc):
            out.add(f"{tc.get('classname')}::{tc.get('name')}")
    return out


def cmd_confirm(pid, name=None):
    base = set(json.load(open("/root/.vp/BASELINE.json"))["stable_pass"])
    for n in names(pid, name):
        d = SEEDED / pid / n
        res = {"property": pid, "name": n}
        with Worktree(f"{pid}-{n}"[:40]) as wt:
            env = dict(os.environ, PYTHONPATH=str(wt / "src"), PYTHONDONTWRITEBYTECODE="1")
            r0 = sh([PY, "-W", "ignore", str(d / "demo.py")], env=env, cwd=str(wt), timeout=1800)
            res["demo_clean_exit"] = r0.returncode
            ap = sh(["git", "-C", str(wt), "apply", str(d / "patch.diff")])
            res["patch_applies"] = ap.returncode == 0
            if ap.returncode:
                res["apply_error"] = ap.stderr[-300:]
            else:
                r1 = sh([PY, "-W", "ignore", str(d / "demo.py")], env=env, cwd=str(wt), timeout=1800)
                res["demo_patched_exit"] = r1.returncode
                res["demo_patched_tail"] = (r1.stdout + r1.stderr)[-400:]
                junit = f"/tmp/seed-junit-{os.getpid()}.xml"
                sh(f"cd {wt} && {PY} -m pytest -ra -q -p no:cacheprovider --timeout=900 --continue-on-collection-errors "
                   f"--junitxml={junit}", env=env, timeout=3600)
                got = pinned_pass_set(junit)
                os.remove(junit)
                res["pinned_passed"] = len(got & base)
                res["pinned_lost"] = sorted(base - got)[:10]
        res["confirmed"] = bool(res.get("patch_applies") and res["demo_clean_exit"] == 0 and res.get("demo_patched_exit") == 1
                                and not res.get("pinned_lost"))
        (d / "confirm.json").write_text(json.dumps(res, indent=1))
        print(pid, n, "confirmed" if res["confirmed"] else "NOT CONFIRMED", {k: v for k, v in res.items() if k in
              ("demo_clean_exit", "demo_patched_exit", "patch_applies", "pinned_passed", "pinned_lost")})


def cmd_run(pid, name=None, checks=None, tier="quick", seed="0", workers="6"):
    checks = checks or [pid]
    for n in names(pid, name):
        d = SEEDED / pid / n
        with Worktree(f"{pid}-{n}"[:40]) as wt:
            ap = sh(["git", "-C", str(wt), "apply", str(d / "patch.diff")])
            if ap.returncode:
                print(pid, n, "patch does not apply:", ap.stderr[-200:])
                continue
            for chk in checks:
                out = Path(f"/var/tmp/seeded_out/{pid}-{n}-{chk}")
                shutil.rmtree(out, ignore_errors=True)
                out.mkdir(parents=True)
                env = dict(os.environ, PYTHONPATH=str(wt / "src"), VERIF_OUT=str(out), VERIF_SEED=str(seed), VERIF_WORKERS=str(workers))
                t0 = time.time()
                r = sh([str(ROOT / "check"), chk, "--tier", tier], env=env, cwd=str(ROOT), timeout=6 * 3600)
                lines = r.stdout.splitlines()
                viol = [l for l in lines if l.startswith("VIOLATION")]
                summary = [l for l in lines if l.startswith(f"[{chk}]") or l.startswith("INCONCLUSIVE")]
                groups = [l.strip() for l in lines if re.match(r"^\s+\[\d+x\]", l)]
                res = {"property": pid, "name": n, "check": chk, "tier": tier, "seed": seed, "exit": r.returncode,
                       "caught": r.returncode == 1 and bool(viol), "n_violation_lines": len(viol), "summary": summary[:3],
                       "groups": groups[:8], "wall_s": round(time.time() - t0, 1)}
                (d / f"result-{chk}-{tier}.json").write_text(json.dumps(res, indent=1))
                shutil.rmtree(out, ignore_errors=True)
                print(pid, n, chk, "CAUGHT" if res["caught"] else f"missed (exit {r.returncode})", f"{res['wall_s']}s", groups[:2])


def cmd_table():
    rows = []
    for pd_ in sorted(SEEDED.iterdir()):
        if not pd_.is_dir():
            continue
        for d in sorted(pd_.iterdir()):
            if not (d / "patch.diff").exists():
                continue
            conf = json.loads((d / "confirm.json").read_text()) if (d / "confirm.json").exists() else {}
            res = [json.loads(p.read_text()) for p in sorted(d.glob("result-*.json"))]
            caught = [f"{r['check']}/{r['tier']}" for r in res if r["caught"]]
            missed = [f"{r['check']}/{r['tier']}" for r in res if not r["caught"]]
            rows.append((pd_.name, d.name, "yes" if conf.get("confirmed") else "no", ", ".join(caught) or "-", ", ".join(missed) or "-"))
    print("| property | seeded change | confirmed | caught by | not caught by |")
    print("|---|---|---|---|---|")
    for r in rows:
        print("| " + " | ".join(r) + " |")


def main():
    a = sys.argv[1:]
    if not a:
        print(__doc__)
        return
    cmd = a[0]
    opts = {}
    pos = []
    i = 1
    while i < len(a):
        if a[i].startswith("--"):
            opts[a[i][2:]] = a[i + 1]
            i += 2
        else:
            pos.append(a[i])
            i += 1
    if cmd == "import":
        cmd_import(pos[0])
    elif cmd == "confirm":
        cmd_confirm(pos[0], pos[1] if len(pos) > 1 else None)
    elif cmd == "run":
        cmd_run(pos[0], pos[1] if len(pos) > 1 else None, checks=opts.get("checks", "").split(",") if opts.get("checks") else None,
                tier=opts.get("tier", "quick"), seed=opts.get("seed", "0"), workers=opts.get("workers", "6"))
    elif cmd == "table":
        cmd_table()


if __name__ == "__main__":
    main()
