"""C13: generator of NM-TRAN data files / $INPUT lists / $DATA options, and an independent
character-level reference reader written from the bullet rules of /repo/docs/NONMEM.rst.

Nothing in here imports pharmpy.  The reader works on characters and plain Python floats.

Reading of the documentation that the reference encodes (every clause is a bullet of docs/NONMEM.rst unless
marked otherwise):

* comment lines: default regex ``^#``; ``IGNORE=c`` (c != @) regex ``^c``; ``IGNORE=@`` regex ``^\\s*[a-zA-Z#]``;
  a final line without newline is still a line;
* after comment removal: a space directly before a TAB anywhere -> ERROR; a line that is empty or has only
  spaces/TABs -> ERROR (BLANKOK is never generated);
* items: delimiters comma, space(s), TAB; spaces around a comma and after a TAB belong to the delimiter;
  leading/trailing spaces of the row are ignored; a leading comma inserts NULL before, a trailing comma
  NULL after; two adjacent commas / TABs enclose a NULL; ``.`` is NULL;
* numbers: ordinary reals, E/e/D/d exponents, the short forms ``2-1``/``2+1``, a lone ``+``/``-`` is 0;
  any other character -> ERROR for a non-dropped column of a row that survives IGNORE/ACCEPT;
  more than 24 characters -> ERROR (non-dropped columns only);
* rows shorter than $INPUT are padded with NULL, surplus items are dropped;
* NULL becomes the NULL=c value (default 0; ``+``/``-`` mean 0);
* the token equal to pharmpy's documented ``missing_data_token`` ('-99') reads as NaN (pharmpy/__init__.py);
* IGNORE filters are applied one at a time in the order given; .EQ./.NE. (== = /=) compare the item text,
  every other operator parses the item as a number (text -> ERROR "give errors appropriately");
  filters may name dropped columns; NULL items are inserted after filtering, so a text .EQ. can never
  match a NULL item.
Not judged (NotJudged): numeric filter on a NULL / missing-token item, text .NE. on a NULL item, ACCEPT
lists with more than one filter whose AND and OR readings differ, number forms the documentation does not
list, ID columns that pharmpy would renumber or cannot hold as integers, text in TIME.
"""
from __future__ import annotations

import re

# ------------------------------------------------------------------------------------------ reference reader


class RefError(Exception):
    """The documented rules say NM-TRAN gives ERROR."""


class NotJudged(Exception):
    """The documentation does not decide this input."""


_LEGAL = re.compile(r'^([+-]?)(\d+\.?\d*|\.\d+)(?:[EeDd]([+-]?\d+)|([+-]\d+))?$')
_ALLOWED = set("0123456789+-.EeDd")
_LETTERS = set("abcdefghijklmnopqrstuvwxyzABCDEFGHIJKLMNOPQRSTUVWXYZ")

TEXT_OPS = ("EQ", "NE")
NUM_OPS = ("EQN", "NEN", "LT", "LE", "GT", "GE")


def parse_number(tok: str) -> float:
    if tok == '+' or tok == '-':
        return 0.0
    m = _LEGAL.match(tok)
    if m:
        exp = m.group(3) or m.group(4)
        s = m.group(1) + m.group(2) + ('e' + exp if exp else '')
        return float(s)
    if any(ch not in _ALLOWED for ch in tok):
        raise RefError(f"illegal item {tok!r}")
    raise NotJudged("undocumented-number-form")


def is_comment(line: str, ic) -> bool:
    if ic is None or ic == '#':
        return line.startswith('#')
    if ic == '@':
        s = line.lstrip(' \t')
        return bool(s) and (s[0] in _LETTERS or s[0] == '#')
    return line.startswith(ic)


def split_lines(text: str):
    lines = text.split('\n')
    if lines and lines[-1] == '':
        lines.pop()  # the final newline terminates the last line
    return lines


def split_row(line: str):
    """Character-level split of one (non-comment, non-blank) row into raw item texts ('' = NULL)."""
    if ' \t' in line:
        raise RefError("space before TAB")
    s = line.strip(' ')
    items = []
    cur = ''
    k = 0
    n = len(s)
    while k < n:
        ch = s[k]
        if ch == ',' or ch == '\t':
            items.append(cur)
            cur = ''
            k += 1
            while k < n and s[k] == ' ':
                k += 1
        elif ch == ' ':
            m = k
            while m < n and s[m] == ' ':
                m += 1
            # s[m] exists because trailing spaces were stripped; ' \t' excluded above
            if s[m] == ',':
                k = m  # spaces before a comma belong to the comma
                continue
            items.append(cur)
            cur = ''
            k = m
        else:
            cur += ch
            k += 1
    items.append(cur)
    return items


def _is_null(item):
    return item is None or item == '' or item == '.'


def _cmp(x, op, v):
    if op == "EQN":
        return x == v
    if op == "NEN":
        return x != v
    if op == "LT":
        return x < v
    if op == "LE":
        return x <= v
    if op == "GT":
        return x > v
    if op == "GE":
        return x >= v
    raise AssertionError(op)


def _match_one(item, op, value, missing):
    if op in TEXT_OPS:
        if _is_null(item):
            if op == "EQ":
                return False
            raise NotJudged("text-NE-on-NULL")
        eq = item == value
        return eq if op == "EQ" else not eq
    if _is_null(item):
        raise NotJudged("numeric-filter-on-NULL")
    if item == missing:
        raise NotJudged("numeric-filter-on-missing-token")
    if len(item) > 24:
        raise NotJudged("numeric-filter-on-long-item")
    x = parse_number(item)
    try:
        v = float(value)
    except ValueError:
        raise NotJudged("non-numeric-filter-value")
    return _cmp(x, op, v)


def _match_rows(rows, f, missing):
    """Evaluate one filter on all given rows; ERROR wins over not-judged."""
    res = []
    nj = None
    err = None
    for r in rows:
        try:
            res.append(_match_one(r[f['col']], f['op'], f['value'], missing))
        except RefError as e:
            err = err or e
            res.append(None)
        except NotJudged as e:
            nj = nj or e
            res.append(None)
    if err is not None:
        raise err
    if nj is not None:
        raise nj
    return res


def ref_read(text, ignore_char, colnames, drop, null_char=None, filter_kind=None, filters=(),
             missing='-99', numeric_only=()):
    """Returns {'rows': [[float|None(dropped)] ...], 'raw': [[raw items]], 'kept': [row indices]} or raises
    RefError (rules say ERROR) / NotJudged."""
    if text == '':
        raise NotJudged("empty-file")
    W = len(colnames)
    lines = [ln for ln in split_lines(text) if not is_comment(ln, ignore_char)]
    for ln in lines:
        if ' \t' in ln:
            raise RefError("space before TAB")
    for ln in lines:
        if ln.strip(' \t') == '':
            raise RefError("blank line")
    if not lines:
        raise NotJudged("no-data-rows")
    rows = []
    for ln in lines:
        items = split_row(ln)
        if len(items) < W:
            items = items + [None] * (W - len(items))
        else:
            items = items[:W]
        rows.append(items)

    idx = list(range(len(rows)))
    filters = list(filters)
    if filters:
        if filter_kind == 'ignore':
            for f in filters:
                cur = [rows[i] for i in idx]
                m = _match_rows(cur, f, missing)
                idx = [i for i, hit in zip(idx, m) if not hit]
        elif len(filters) == 1:
            m = _match_rows(rows, filters[0], missing)
            idx = [i for i, hit in zip(idx, m) if hit]
        else:
            try:
                ms = [_match_rows(rows, f, missing) for f in filters]
            except RefError:
                raise NotJudged("accept-multi-error")
            a = [i for i in idx if all(m[i] for m in ms)]
            o = [i for i in idx if any(m[i] for m in ms)]
            if a != o:
                raise NotJudged("accept-multi-ambiguous")
            idx = a

    null_value = 0.0 if null_char in (None, '+', '-') else float(null_char)
    out = []
    err = None
    nj = None
    for i in idx:
        vals = []
        for j in range(W):
            if drop[j]:
                vals.append(None)
                continue
            it = rows[i][j]
            try:
                if _is_null(it):
                    vals.append(null_value)
                elif len(it) > 24:
                    raise RefError(f"item longer than 24 characters: {it!r}")
                elif it == missing:
                    vals.append(float('nan'))
                else:
                    if j in numeric_only:
                        try:
                            vals.append(parse_number(it))
                        except RefError:
                            raise NotJudged("text-in-TIME")
                    else:
                        vals.append(parse_number(it))
            except RefError as e:
                err = err or e
                vals.append(None)
            except NotJudged as e:
                nj = nj or e
                vals.append(None)
        out.append(vals)
    if err is not None:
        raise err
    if nj is not None:
        raise nj
    # ID handling is pharmpy specific (renumbering of reused ids, int32): judged only in the plain situation
    for j in range(W):
        if not drop[j] and colnames[j] in ('ID', 'L1'):
            col = [r[j] for r in out]
            if any(v != v or v != int(v) or abs(v) > 2**31 - 1 for v in col):
                raise NotJudged("non-integer-id")
            seen = set()
            prev = object()
            for v in col:
                if v != prev:
                    if v in seen:
                        raise NotJudged("reused-id")
                    seen.add(v)
                    prev = v
    return {'rows': out, 'raw': [rows[i] for i in idx], 'kept': idx}


# ------------------------------------------------------------------------------------------------ generator

PLAIN_NAMES = ['WGT', 'APGR', 'AGE', 'SEX', 'X1', 'C2', 'HT', 'CRCL', 'DOSE', 'V9', 'AB_1', 'OCC', 'FLAG',
               'DV', 'AMT', 'TIME', 'RATE', 'EVID', 'CMT']
SYN_RESERVED = ['DV', 'AMT', 'RATE', 'EVID', 'CMT', 'TIME', 'ADDL']
SYN_NAMES = ['CONC', 'LNDV', 'DOSEX', 'R8', 'EV2', 'COMP', 'TAD', 'NADD', 'Y_OBS']
DROP_TEXT = ['abc', 'N/A', 'x1', '12:30', '2001-01-05', 'M', 'F', '1.5', '3', 'a_b', 'NA', '-', '.', '7',
             'placebo', 'Q%', 'zz9', '0', '1', '2', 'C12', 'A' * 30, '1' * 28, 'yes']
ILLEGAL = ['abc', '1x', 'N/A', 'NA', '1,5'.replace(',', ';'), '12:30', '1.2.3x', '#3', '?', 'x', '1E2F', '3*']
COMMENT_CHARS = ['C', 'I', '%', '!', 'c', 'X']

OP_TEXT = {
    'EQ': ['.EQ.', '.EQ.', '==', '='],
    'NE': ['.NE.', '.NE.', '/='],
    'EQN': ['.EQN.'],
    'NEN': ['.NEN.'],
    'LT': ['.LT.', '<'],
    'LE': ['.LE.', '<='],
    'GT': ['.GT.', '>'],
    'GE': ['.GE.', '>='],
}


def _digits(rng, n):
    return ''.join(rng.choice('0123456789') for _ in range(n))


def _mantissa(rng):
    r = rng.random()
    if r < 0.5:
        return str(rng.randint(1, 9))
    if r < 0.8:
        return f"{rng.randint(0, 9)}.{rng.randint(0, 99)}"
    if r < 0.9:
        return f".{rng.randint(1, 99)}"
    return f"{rng.randint(1, 99)}."


def gen_token(rng, signed_d=False):
    """One legal item text and the name of its lexical form.  A D exponent after a signed mantissa has a
    listed finding and is only produced on request (stratum B:signed-d-exponent)."""
    r = rng.random()
    if signed_d and r < 0.25:
        return (f"{rng.choice('+-')}{_mantissa(rng)}{rng.choice('Dd')}{rng.choice(['', '+', '-'])}"
                f"{rng.choice(['0', '1', '2', '02'])}"), 'exp_D_signed'
    if r < 0.34:
        return str(rng.randint(0, 6)), 'int'
    if r < 0.40:
        return str(rng.randint(7, 99999)), 'int'
    if r < 0.46:
        return '-' + str(rng.randint(0, 30)), 'neg'
    if r < 0.49:
        return '+' + str(rng.randint(0, 9)), 'plus'
    if r < 0.57:
        return f"{rng.randint(0, 20)}.{rng.choice(['0', '5', '25', '50', '125', '0625'])}", 'dec'
    if r < 0.59:
        return f"{rng.randint(0, 20)}.", 'dec_trail'
    if r < 0.61:
        return f".{rng.randint(1, 99)}", 'dec_lead'
    if r < 0.63:
        return '00' + str(rng.randint(0, 99)), 'lead_zero'
    if r < 0.69:
        sg = rng.choice(['', '', '-', '+'])
        return f"{sg}{_mantissa(rng)}{rng.choice('Ee')}{rng.choice(['', '+', '-'])}{rng.choice(['0', '1', '2', '3', '02', '10', '15'])}", 'exp_E'
    if r < 0.76:
        sg = ''
        return f"{sg}{_mantissa(rng)}{rng.choice('Dd')}{rng.choice(['', '+', '-'])}{rng.choice(['0', '1', '2', '3', '02', '10'])}", 'exp_D'
    if r < 0.84:
        sg = rng.choice(['', '', '', '-', '+'])
        return f"{sg}{_mantissa(rng)}{rng.choice('+-')}{rng.choice(['0', '1', '2', '3', '12', '03'])}", 'exp_short'
    if r < 0.87:
        return rng.choice('+-'), 'lone_sign'
    if r < 0.92:
        return '.', 'dot_null'
    if r < 0.96:
        return '', 'empty_null'
    if r < 0.975:
        return '-99', 'missing_token'
    if r < 0.99:
        # exactly 24 characters
        k = rng.random()
        if k < 0.4:
            return '1' + _digits(rng, 23), 'len24'
        if k < 0.7:
            return '0.' + _digits(rng, 22), 'len24'
        return '-' + _digits(rng, 3) + '.' + _digits(rng, 15) + 'E+02', 'len24'
    return str(rng.randint(0, 3)), 'int'


def gen_long_token(rng):
    n = rng.choice([25, 25, 25, 26, 30, 40])
    k = rng.random()
    if k < 0.5:
        return '1' + _digits(rng, n - 1)
    if k < 0.8:
        return '0.' + _digits(rng, n - 2)
    return '0' * (n - 1) + '7'


def gen_columns(rng, W):
    """$INPUT plan.  Each column: name (as it appears in the dataset), drop, numeric_only, text ($INPUT item),
    refs (names usable in filters)."""
    cols = []
    used = set()
    anon = 0

    def fresh(pool):
        cand = [n for n in pool if n not in used]
        n = rng.choice(cand)
        used.add(n)
        return n

    with_id = rng.random() < 0.3
    for j in range(W):
        r = rng.random()
        if j == 0 and with_id:
            used.add('ID')
            cols.append(dict(name='ID', drop=False, numeric_only=False, text='ID', refs=['ID'], kind='id'))
        elif r < 0.62:
            n = fresh(PLAIN_NAMES)
            cols.append(dict(name=n, drop=False, numeric_only=(n == 'TIME'), text=n, refs=[n], kind='plain'))
        elif r < 0.82:
            k = rng.random()
            if k < 0.3:
                anon += 1
                cols.append(dict(name=f'_DROP{anon}', drop=True, numeric_only=False,
                                 text=rng.choice(['DROP', 'SKIP']), refs=[], kind='drop_anon'))
            else:
                n = fresh(PLAIN_NAMES)
                kw = rng.choice(['DROP', 'DROP', 'SKIP'])
                text = f'{n}={kw}' if rng.random() < 0.6 else f'{kw}={n}'
                cols.append(dict(name=n, drop=True, numeric_only=False, text=text, refs=[n], kind='drop_named'))
        else:
            res = fresh(SYN_RESERVED)
            syn = fresh(SYN_NAMES)
            text = f'{syn}={res}' if rng.random() < 0.5 else f'{res}={syn}'
            cols.append(dict(name=syn, drop=False, numeric_only=(res == 'TIME'), text=text, refs=[syn, res],
                             kind='synonym'))
    if all(c['drop'] for c in cols):
        j = rng.randrange(W)
        n = fresh(PLAIN_NAMES)
        cols[j] = dict(name=n, drop=False, numeric_only=(n == 'TIME'), text=n, refs=[n], kind='plain')
        # renumber anonymous drops
        k = 0
        for c in cols:
            if c['kind'] == 'drop_anon':
                k += 1
                c['name'] = f'_DROP{k}'
    return cols


SEP_COMMA = [',', ',', ',', ' ,', ', ', ' , ', '  ,  ', ',  ']
SEP_TAB = ['\t', '\t', '\t ', '\t  ']
SEP_SPACE = [' ', ' ', '  ', '    ']


def gen_seps(rng, items, style):
    """Separators between items.  An empty item needs commas (or TABs) on both sides; a leading/trailing empty
    item needs a comma."""
    n = len(items)
    if n <= 1:
        return []
    empties = [i for i, it in enumerate(items) if it == '']
    nullsep = 'comma'
    if empties:
        if style == 'tab' and 0 not in empties and n - 1 not in empties:
            nullsep = 'tab'
        elif style == 'mixed' and 0 not in empties and n - 1 not in empties and rng.random() < 0.4:
            nullsep = 'tab'
    seps = []
    for g in range(n - 1):
        if items[g] == '' or items[g + 1] == '':
            kind = nullsep
        elif style == 'mixed':
            kind = rng.choice(['comma', 'comma', 'space', 'tab'])
        else:
            kind = style
        pool = {'comma': SEP_COMMA, 'tab': SEP_TAB, 'space': SEP_SPACE}[kind]
        if kind == 'tab' and items[g + 1] == '':
            seps.append('\t')  # blanks after this TAB would stand before the next TAB (= ERROR)
        else:
            seps.append(rng.choice(pool))
    return seps


def render_row(row):
    if row['kind'] != 'data':
        return row['text']
    s = row['lead']
    items = row['items']
    for i, it in enumerate(items):
        s += it
        if i < len(items) - 1:
            s += row['seps'][i]
    return s + row['trail']


def render_text(case):
    lines = [render_row(r) for r in case['rows']]
    return '\n'.join(lines) + ('\n' if case['final_newline'] else '')


def _value_text(rng, value):
    """Render a filter value, quoted or not (unquoted only where pharmpy's documented grammar and the doc
    bullet allow: not starting with a dot or an operator character)."""
    # unquoted: a word or a plain real number (the forms the IGNORE bullet names); anything else is quoted
    unq_ok = bool(re.fullmatch(r'[A-Za-z][A-Za-z0-9_]*|[+-]?\d+(\.\d*)?([Ee][+-]?\d+)?', value))
    if unq_ok and rng.random() < 0.6:
        return value
    q = rng.choice(['"', "'"])
    return q + value + q


def _mk_filter(rng, cols, j, op, value):
    ref = rng.choice(cols[j]['refs'])
    optext = rng.choice(OP_TEXT[op])
    vtext = _value_text(rng, value)
    return dict(col=j, op=op, value=value, ref=ref, optext=optext, vtext=vtext, text=f'{ref}{optext}{vtext}')


def _order_critical_filters(rng, cols, data_rows, nfilt):
    """IGNORE lists in which the order matters (doc: 'an illegal item gets ignored before it needs to be
    parsed'): text .EQ. filters remove every row whose item in a dropped column is text, then a numeric
    comparison parses that column."""
    options = []
    for j, c in enumerate(cols):
        if not (c['drop'] and c['refs']):
            continue
        texts = []
        ok = True
        for r in data_rows:
            if j >= len(r['items']):
                continue
            it = r['items'][j]
            if it in ('', '.'):
                continue
            try:
                if len(it) <= 24 and it != '-99':
                    parse_number(it)
                    continue
            except NotJudged:
                ok = False
                break
            except RefError:
                pass
            if len(it) > 12 or any(ch in it for ch in '"\'\\') or it in ('+', '-'):
                ok = False
                break
            if it not in texts:
                texts.append(it)
        if ok and 1 <= len(texts) <= nfilt - 1:
            options.append((j, texts))
    if not options:
        return None
    j, texts = rng.choice(options)
    fs = [_mk_filter(rng, cols, j, 'EQ', t) for t in texts]
    fs.append(_mk_filter(rng, cols, j, rng.choice(NUM_OPS), rng.choice(['0', '1', '2', '3', '1.5'])))
    for f in fs:
        f['order_critical'] = True
    return fs


def gen_filters(rng, cols, data_rows, nfilt, kind, F=None):
    """Filters that are likely to hit: values are taken from the items of the chosen column."""
    filters = []
    cand = [j for j, c in enumerate(cols) if c['refs']]
    if not cand:
        return []
    if kind == 'ignore' and nfilt >= 2 and rng.random() < 0.5:
        oc = _order_critical_filters(rng, cols, data_rows, nfilt)
        if oc:
            return oc
    for _ in range(nfilt):
        j = rng.choice(cand)
        c = cols[j]
        col_items = [r['items'][j] for r in data_rows if j < len(r['items'])]
        col_items = [it for it in col_items if it not in ('', '.')]
        numeric_items = []
        for it in col_items:
            try:
                if len(it) <= 24 and it != '-99':
                    numeric_items.append(parse_number(it))
            except (RefError, NotJudged):
                pass
        all_numeric = len(numeric_items) == len(col_items)
        if c['drop'] and not all_numeric:
            op = rng.choice(['EQ', 'EQ', 'NE'])  # numeric operators on text belong to the error stratum
        else:
            op = rng.choice(['EQ', 'EQ', 'NE', 'EQN', 'EQN', 'NEN', 'NEN', 'LT', 'LE', 'GT', 'GE'])
        has_null = any(j >= len(r['items']) or r['items'][j] in ('', '.') for r in data_rows)
        has_missing = any(j < len(r['items']) and r['items'][j] == '-99' for r in data_rows)
        if rng.random() < 0.9:
            # the documentation does not decide numeric comparisons / text .NE. on NULL items: mostly avoided
            if op in NUM_OPS and (has_null or has_missing):
                op = 'EQ'
            elif op == 'NE' and has_null:
                op = 'EQ'
        if op in TEXT_OPS:
            pool = [it for it in col_items if len(it) <= 12 and not any(ch in it for ch in '"\'\\')
                    and it not in ('+', '-')]
            if F is not None and j >= F:
                # a column that exists only as padding: a number-like text value has a listed finding
                # (stratum B:filter-padded-null)
                value = rng.choice(['abc', 'M', 'x_1'])
            elif pool and rng.random() < 0.8:
                value = rng.choice(pool)
            else:
                value = rng.choice(['1', '2', '0', 'abc', 'M', '3.5', 'x_1', '-1'])
        else:
            if numeric_items and rng.random() < 0.8:
                v = rng.choice(numeric_items)
                k = rng.random()
                if v == int(v) and abs(v) < 1e6:
                    value = str(int(v) + (rng.choice([-1, 1]) if k < 0.25 else 0))
                    if k > 0.85:
                        value += rng.choice(['.0', '.', '.5'])
                    elif op in ('EQN', 'NEN') and k >= 0.25 and value in col_items:
                        value += rng.choice(['.0', '.'])  # numerically equal, different as text
                else:
                    value = repr(v)
                if len(value) > 12:
                    value = str(rng.randint(0, 5))
            else:
                value = rng.choice(['0', '1', '2', '3', '2.5', '-1', '10', '0.5', '1E1', '+2'])
        if filters and op in NUM_OPS and value[0] in '+-':
            # a signed value in a later filter has a listed finding (stratum B:signed-filter-value)
            value = value[1:]
        ref = rng.choice(c['refs'])
        optext = rng.choice(OP_TEXT[op])
        vtext = _value_text(rng, value)
        sp = rng.random()
        if sp < 0.8:
            text = f'{ref}{optext}{vtext}'
        elif sp < 0.9:
            text = f'{ref} {optext} {vtext}'
        else:
            text = f'{ref} {optext}{vtext}'
        filters.append(dict(col=j, op=op, value=value, ref=ref, optext=optext, vtext=vtext, text=text))
    return filters


def render_filter_options(rng, kind, filters, layout=None):
    """$DATA option text for the filter list; layout: 'one' (one list), 'many' (one option per filter),
    'multiline' (the documented split over lines)."""
    if not filters:
        return []
    kw = 'IGNORE' if kind == 'ignore' else 'ACCEPT'
    if layout == 'many':
        return [f'{kw}=({f["text"]})' for f in filters]
    if layout == 'multiline':
        parts = []
        for f in filters:
            parts.append(f'{f["ref"]}\n      {f["optext"]}{f["vtext"]}')
        return [f'{kw}=(\n      ' + '\n      ,\n      '.join(parts) + '\n      )']
    return [f'{kw}=(' + ','.join(f['text'] for f in filters) + ')']


def direct_filter_strings(case):
    """The filter strings as parse_dataset would hand them to read_nonmem_dataset: the column named by its
    dataset name."""
    return [f'{case["cols"][f["col"]]["name"]}{f["optext"]}{f["vtext"]}' for f in case['filters']]


def comment_line(rng, ic):
    body = rng.choice(['', ' comment', 'ID,TIME,DV', ' 1,2,3', '\tnote', ' a b c', ',,,', '1 2 3', '#', ' x=1'])
    if ic is None or ic == '#':
        return '#' + body
    if ic == '@':
        k = rng.random()
        lead = rng.choice(['', '', ' ', '   '])
        if k < 0.4:
            return lead + '#' + body
        return lead + rng.choice(['ID', 'a', 'Z', 'TIME', 'note', 'C']) + body
    return ic + body


def header_line(rng, cols):
    names = [c['refs'][0] if c['refs'] else 'SKIPPED' for c in cols]
    names[0] = names[0] if names[0][0].isalpha() else 'ID'
    sep = rng.choice([',', ',', ' ', '\t'])
    return sep.join(names)


def gen_case(rng):
    """One read case.  Strata: 'A' only constructs without a listed finding; 'E:<construct>' exactly one
    construct for which the rules say ERROR; 'B:<construct>' exactly one construct with a (suspected) finding."""
    r = rng.random()
    if r < 0.60:
        stratum = 'A'
    elif r < 0.76:
        stratum = 'E:' + rng.choice(['space-before-tab', 'blank-line', 'blank-line', 'illegal-item', 'illegal-item',
                                     'too-long-item', 'too-long-item', 'header-not-ignored', 'comment-lookalike',
                                     'comment-lookalike',
                                     'numeric-filter-on-text', 'python-float-literal'])
    elif r < 0.84:
        stratum = 'B:surplus'
    elif r < 0.92:
        stratum = 'B:short-first-row'
    elif r < 0.95:
        stratum = 'B:comment-last-line-no-newline'
    elif r < 0.965:
        stratum = 'B:signed-d-exponent'
    elif r < 0.975:
        stratum = 'B:signed-filter-value'
    elif r < 0.98:
        stratum = 'B:filter-padded-null'
    else:
        stratum = 'B:ignore-char-special'
    return _gen_case(rng, stratum)


def _gen_case(rng, stratum):
    W = rng.choice([1, 2, 2, 3, 3, 3, 4, 4, 5, 6])
    if stratum in ('B:short-first-row', 'B:filter-padded-null') and W < 2:
        W = rng.choice([2, 3, 4])
    cols = gen_columns(rng, W)
    forms = {}

    # comment regime
    r = rng.random()
    if stratum == 'B:ignore-char-special':
        ic = rng.choice(['^', ']', '\\', '[', '-', '*', '+', '|'])
    elif r < 0.45:
        ic = None
    elif r < 0.52:
        ic = '#'
    elif r < 0.75:
        ic = '@'
    else:
        ic = rng.choice(COMMENT_CHARS)
    null_char = rng.choice('0123456789+-') if rng.random() < 0.25 else None

    # number of items per row in the file
    nrows = rng.randint(1, 7)
    F = W
    if stratum == 'B:filter-padded-null' or (stratum == 'A' and rng.random() < 0.15 and W > 1):
        F = rng.randint(1, W - 1)
    style = rng.choice(['comma', 'comma', 'space', 'tab', 'mixed', 'mixed'])
    id_val = rng.randint(1, 3)
    # distinct ids need not come in ascending order (3,3,1,1,2,2 are three individuals): in a third of the cases the next
    # id is drawn from a shuffled pool instead of counted upwards
    id_pool = None
    if rng.random() < 0.33:
        id_pool = rng.sample(range(1, 60), 40)
        id_val = id_pool.pop()
    rows = []
    anchored = False
    for i in range(nrows):
        L = F
        if stratum == 'A' and anchored and F > 1 and rng.random() < 0.12:
            L = rng.randint(1, F - 1)  # short row after a full row that cannot be a comment line: padded
        items = []
        for j in range(L):
            c = cols[j] if j < W else None
            if c is None:
                items.append(rng.choice(DROP_TEXT + ['5', '6']))
            elif c['kind'] == 'id':
                if rng.random() < 0.4:
                    if id_pool:
                        id_val = id_pool.pop()
                    else:
                        id_val += rng.randint(1, 3)
                items.append(str(id_val))
            elif c['drop']:
                items.append(rng.choice(DROP_TEXT) if rng.random() < 0.7 else gen_token(rng)[0])
            else:
                tok, form = gen_token(rng, signed_d=(stratum == 'B:signed-d-exponent'))
                if c['numeric_only'] and form == 'missing_token':
                    tok, form = '4', 'int'
                forms[form] = forms.get(form, 0) + 1
                items.append(tok)
        rstyle = style
        if rstyle == 'space':
            items = [('.' if it == '' else it) for it in items]
        if len(items) == 1 and items[0] == '':
            items[0] = '.'
        # a first item that would turn the row into a comment line is legal, but keeps the case small: allow
        if L == F and (items[0] == '' or (items[0][0] in '0123456789+-.' and items[0][0] != ic)):
            anchored = True
        lead = rng.choice(['', '', '', ' ', '   '])
        trail = rng.choice([' ', '  ', '    ']) if rng.random() < 0.1 else ''  # blanks at the end of a row
        rows.append(dict(kind='data', items=items, seps=gen_seps(rng, items, rstyle), lead=lead, trail=trail))

    case = dict(stratum=stratum, cols=cols, ignore_char=ic, null_char=null_char, filter_kind=None, filters=[],
                filter_layout='one', rows=rows, final_newline=True, forms=forms, style=style, W=W, F=F,
                construct=None)

    # filters
    if stratum in ('A', 'B:surplus', 'B:short-first-row') and rng.random() < 0.45:
        kind = 'ignore' if rng.random() < 0.75 else 'accept'
        nf = rng.choice([1, 1, 2, 3]) if kind == 'ignore' else rng.choice([1, 1, 1, 2])
        case['filter_kind'] = kind
        case['filters'] = gen_filters(rng, cols, rows, nf, kind, F)
        case['filter_layout'] = rng.choice(['one', 'one', 'many', 'multiline'])
        if not case['filters']:
            case['filter_kind'] = None

    # comment / header lines (comments by the rule of the regime)
    data_rows = list(rows)
    if stratum != 'B:comment-last-line-no-newline':
        out = []
        if ic == '@' and rng.random() < 0.6:
            out.append(dict(kind='header', text=rng.choice(['', '', ' ']) + header_line(rng, cols)))
        for rw in rows:
            if rng.random() < 0.12:
                out.append(dict(kind='comment', text=comment_line(rng, ic)))
            out.append(rw)
        # a comment after the last row keeps its newline in stratum A
        if rng.random() < 0.08:
            out.append(dict(kind='comment', text=comment_line(rng, ic)))
        case['rows'] = out
    if stratum == 'A' and rng.random() < 0.1 and case['rows'][-1]['kind'] == 'data':
        case['final_newline'] = False

    _apply_construct(rng, case, data_rows)
    if (case['stratum'] != 'B:comment-last-line-no-newline' and not case['final_newline']
            and is_comment(render_row(case['rows'][-1]), ic)):
        case['final_newline'] = True  # (a data row that is a comment by the regime's rule)
    return case


def _data_rows(case):
    return [r for r in case['rows'] if r['kind'] == 'data']


def _nondropped_positions(case, row):
    return [j for j in range(min(len(row['items']), case['W'])) if not case['cols'][j]['drop']
            and case['cols'][j]['kind'] != 'id']


def _apply_construct(rng, case, data_rows):
    st = case['stratum']
    cols = case['cols']
    W = case['W']
    if st == 'A':
        return
    if st == 'E:space-before-tab':
        cand = [(r, g) for r in data_rows for g in range(len(r['seps']))
                if r['items'][g] != '' and r['items'][g + 1] != '']
        if not cand:
            r = data_rows[0]
            r['items'] = ['1', '2'] if len(r['items']) < 2 else ['3' if it == '' else it for it in r['items']]
            r['seps'] = [','] * (len(r['items']) - 1)
            cand = [(r, 0)]
        r, g = rng.choice(cand)
        r['seps'][g] = rng.choice([' \t', '  \t', ' \t '])
        case['construct'] = 'space-before-tab'
    elif st == 'E:blank-line':
        variant = rng.choice(['mid-empty', 'mid-empty', 'mid-spaces', 'mid-tab', 'end-empty', 'start-empty',
                              'mid-double', 'end-spaces'])
        blank = {'mid-empty': [''], 'mid-spaces': [rng.choice([' ', '   '])], 'mid-tab': ['\t'],
                 'end-empty': [''], 'start-empty': [''], 'mid-double': ['', ''], 'end-spaces': ['  ']}[variant]
        rows = case['rows']
        if variant.startswith('mid') and len(rows) >= 2:
            pos = rng.randint(1, len(rows) - 1)
        elif variant.startswith('start'):
            pos = 0
        elif variant.startswith('end'):
            pos = len(rows)
        else:
            pos = len(rows)
            variant = 'end-' + variant[4:]
        for b in blank:
            rows.insert(pos, dict(kind='blank', text=b))
        case['final_newline'] = True
        case['construct'] = 'blank-line:' + variant
    elif st in ('E:illegal-item', 'E:too-long-item', 'E:python-float-literal'):
        cand = [(r, j) for r in data_rows for j in _nondropped_positions(case, r) if not cols[j]['numeric_only']]
        if not cand:
            # make room: the first non-dropped, non-id column of the first row
            j = next((j for j, c in enumerate(cols) if not c['drop'] and c['kind'] != 'id' and not c['numeric_only']), None)
            if j is None:
                case['stratum'] = 'A'
                return
            r = data_rows[0]
            while len(r['items']) <= j:
                r['items'].append('1')
            r['items'] = ['1' if it == '' else it for it in r['items']]
            r['seps'] = [','] * (len(r['items']) - 1)
            cand = [(r, j)]
        r, j = rng.choice(cand)
        if st == 'E:illegal-item':
            tok = rng.choice(ILLEGAL)
            if j == 0 and (tok[0] == '#' or tok[0].isalpha()):
                tok = '1' + tok  # must not become a comment line
                if tok[-1] in 'EeDd':
                    tok += 'x'
        elif st == 'E:too-long-item':
            tok = gen_long_token(rng)
        else:
            tok = rng.choice(['1_0', '1_000', '2_5.5', '1_0e1', '0_0'])
        r['items'][j] = tok
        case['construct'] = st[2:] + ':' + tok[:30]
    elif st == 'E:header-not-ignored':
        if case['ignore_char'] == '@':
            case['ignore_char'] = None
            case['rows'] = [r for r in case['rows'] if r['kind'] == 'data']
        # a header whose first name is a non-dropped column and that does not start with the comment char
        names = [c['refs'][0] if c['refs'] else 'SKIPPED' for c in cols]
        ic = case['ignore_char']
        first = next((j for j, c in enumerate(cols) if not c['drop'] and not c['numeric_only']), None)
        if first is None or (ic not in (None, '#') and names[0].startswith(ic)):
            case['stratum'] = 'A'
            return
        case['rows'].insert(0, dict(kind='header', text=','.join(names)))
        case['construct'] = 'header-not-ignored'
    elif st == 'E:comment-lookalike':
        ic = case['ignore_char']
        if cols[0]['drop'] or cols[0]['numeric_only']:
            case['stratum'] = 'A'
            return
        if ic in (None, '#'):
            text = ' #' + rng.choice(['1,2', 'note', '3'])  # default regex is ^# : a leading blank defeats it
        elif ic == '@':
            case['stratum'] = 'A'
            return
        else:
            text = '#' + rng.choice(['1,2', 'note', '3'])  # IGNORE=c replaces the default
        pos = rng.randint(0, len(case['rows']))
        case['rows'].insert(pos, dict(kind='lookalike', text=text))
        case['construct'] = 'comment-lookalike'
    elif st == 'E:numeric-filter-on-text':
        j = next((j for j, c in enumerate(cols) if c['refs'] and c['kind'] != 'id' and not c['numeric_only']), None)
        if j is None:
            case['stratum'] = 'A'
            return
        r = rng.choice(data_rows)
        while len(r['items']) <= j:
            r['items'].append('1')
        r['items'] = ['1' if it == '' else it for it in r['items']]
        r['seps'] = [','] * (len(r['items']) - 1)
        tok = rng.choice(['abc', 'N/A', 'x1', 'M'])
        if j == 0:
            tok = '1' + tok.replace('/', 'x')
            if case['ignore_char'] not in (None, '#', '@') and tok.startswith(case['ignore_char']):
                tok = '2' + tok
        r['items'][j] = tok
        op = rng.choice(NUM_OPS)
        optext = rng.choice(OP_TEXT[op])
        ref = rng.choice(cols[j]['refs'])
        case['filter_kind'] = 'ignore'
        case['filters'] = [dict(col=j, op=op, value='1', ref=ref, optext=optext, vtext='1', text=f'{ref}{optext}1')]
        case['filter_layout'] = 'one'
        case['construct'] = 'numeric-filter-on-text'
    elif st == 'B:signed-d-exponent':
        if not case['forms'].get('exp_D_signed'):
            cand = [(r, j) for r in data_rows for j in _nondropped_positions(case, r)]
            if not cand:
                case['stratum'] = 'A'
                return
            r, j = rng.choice(cand)
            r['items'][j] = rng.choice(['-1D2', '+2.9D3', '-5.99d-02', '-1d0', '+.5D+1'])
            case['forms']['exp_D_signed'] = 1
        case['construct'] = 'signed-d-exponent'
    elif st == 'B:signed-filter-value':
        # first filter removes every row (text .NE. on a column without NULL items), the second is a numeric
        # comparison with a signed value evaluated on no rows
        full = [j for j, c in enumerate(cols) if c['refs'] and all(
            j < len(r['items']) and r['items'][j] not in ('', '.') for r in data_rows)]
        if not full:
            case['stratum'] = 'A'
            return
        j1 = rng.choice(full)
        j2 = rng.choice([j for j, c in enumerate(cols) if c['refs']])
        op = rng.choice(NUM_OPS)
        value = rng.choice(['-2', '+2', '-1', '-0.5', '+10'])
        f1 = dict(col=j1, op='NE', value='zzz', ref=rng.choice(cols[j1]['refs']), optext='.NE.', vtext='zzz')
        f2 = dict(col=j2, op=op, value=value, ref=rng.choice(cols[j2]['refs']), optext=rng.choice(OP_TEXT[op]),
                  vtext=value)
        for f in (f1, f2):
            f['text'] = f'{f["ref"]}{f["optext"]}{f["vtext"]}'
        case['filter_kind'] = 'ignore'
        case['filters'] = [f1, f2]
        case['filter_layout'] = rng.choice(['one', 'many'])
        case['construct'] = 'signed-filter-value'
    elif st == 'B:surplus':
        # some rows carry items beyond $INPUT; the first row with probability 1/2
        which = [r for i, r in enumerate(data_rows) if (i == 0 and rng.random() < 0.5) or (i > 0 and rng.random() < 0.5)]
        if not which:
            which = [data_rows[0]]
        for r in which:
            k = rng.randint(1, 3)
            while len(r['items']) < W:
                r['items'].append(str(rng.randint(0, 9)))
            for _ in range(k):
                r['items'].append(rng.choice(['5', '6', 'abc', '1.5', 'N/A', '2001-01-05', '3' * 26]))
            st_ = 'comma' if any(it == '' for it in r['items']) else case['style']
            r['seps'] = gen_seps(rng, r['items'], st_)
        case['construct'] = 'surplus'
    elif st == 'B:short-first-row':
        r0 = data_rows[0]
        full = max(len(r['items']) for r in data_rows)
        if len(data_rows) < 2 or full < 2:
            # add a second, full row
            new = dict(kind='data', items=[('1' if (j >= W or cols[j]['kind'] != 'id') else '9') for j in range(W)],
                       seps=[','] * (W - 1), lead='', trail='')
            if cols[0]['kind'] == 'id':
                new['items'][0] = '99'
            case['rows'].append(new)
            data_rows.append(new)
            full = W
        L = rng.randint(1, max(1, min(full, W) - 1))
        r0['items'] = r0['items'][:L]
        if r0['items'][-1] == '':
            r0['items'][-1] = '.'
        if r0['items'][0] == '' and L == 1:
            r0['items'][0] = '.'
        st_ = 'comma' if any(it == '' for it in r0['items']) else case['style']
        r0['seps'] = gen_seps(rng, r0['items'], st_)
        case['construct'] = 'short-first-row'
    elif st == 'B:comment-last-line-no-newline':
        case['rows'] = list(data_rows) + [dict(kind='comment', text=comment_line(rng, case['ignore_char']))]
        case['final_newline'] = False
        case['construct'] = 'comment-last-line-no-newline'
    elif st == 'B:filter-padded-null':
        F = case['F']
        cand = [j for j in range(F, W) if cols[j]['refs']]
        if not cand:
            case['stratum'] = 'A'
            return
        j = rng.choice(cand)
        nc = case['null_char']
        value = '0' if nc in (None, '+', '-') else rng.choice([nc, nc + '.0'])
        ref = rng.choice(cols[j]['refs'])
        optext = rng.choice(['.EQ.', '=='])
        vtext = value if rng.random() < 0.6 else f"'{value}'"
        case['filter_kind'] = 'ignore'
        case['filters'] = [dict(col=j, op='EQ', value=value, ref=ref, optext=optext, vtext=vtext,
                                text=f'{ref}{optext}{vtext}')]
        case['construct'] = 'filter-padded-null'
    elif st == 'B:ignore-char-special':
        case['rows'] = [dict(kind='comment', text=comment_line(rng, case['ignore_char']))] + case['rows']
        case['construct'] = 'ignore-char-special:' + case['ignore_char']


# ------------------------------------------------------------------------------------------------ repairs
def repaired(case):
    """The same case with the stratum's construct replaced by an equivalent stratum-A form (delta check).
    Returns a deep-ish copy or None when the stratum has no repair."""
    import copy

    st = case['stratum']
    c = copy.deepcopy(case)
    W = c['W']
    rows = [r for r in c['rows'] if r['kind'] == 'data']
    if st == 'B:surplus':
        for r in rows:
            if len(r['items']) > W:
                r['items'] = r['items'][:W]
                r['seps'] = r['seps'][:W - 1]
                if r['items'][-1] == '' and (W == 1 or r['seps'][-1].strip(' ') != ','):
                    r['items'][-1] = '.'
                if len(r['items']) == 1 and r['items'][0] == '':
                    r['items'][0] = '.'
    elif st == 'B:short-first-row':
        r0 = rows[0]
        while len(r0['items']) < W:
            r0['items'].append('.')
            r0['seps'].append(',')
    elif st == 'B:comment-last-line-no-newline':
        c['final_newline'] = True
    elif st == 'B:filter-padded-null':
        for f in c['filters']:
            f['value'] = 'ZZ'
            f['vtext'] = 'ZZ'
            f['text'] = f'{f["ref"]}{f["optext"]}ZZ'
    elif st == 'B:ignore-char-special':
        old = case['ignore_char']
        c['ignore_char'] = '%'
        for r in c['rows']:
            if r['kind'] == 'comment' and r['text'].startswith(old):
                r['text'] = '%' + r['text'][1:]
    elif st == 'B:signed-d-exponent':
        for r in rows:
            r['items'] = [it.replace('D', 'E').replace('d', 'e') if re.fullmatch(r'[+-][0-9.]+[Dd][+-]?[0-9]+', it)
                          else it for it in r['items']]
    elif st == 'B:signed-filter-value':
        f = c['filters'][1]
        f['value'] = f['vtext'] = '2'
        f['text'] = f'{f["ref"]}{f["optext"]}2'
    elif st == 'E:blank-line':
        c['rows'] = [r for r in c['rows'] if r['kind'] != 'blank']
    elif st == 'E:python-float-literal':
        for r in rows:
            r['items'] = [it.replace('_', '') if re.fullmatch(r'[0-9_.e]+', it) and '_' in it else it
                          for it in r['items']]
    else:
        return None
    c['stratum'] = 'A'
    return c


# ------------------------------------------------------------------------------------------------ rendering
def render_input(rng, case):
    texts = [c['text'] for c in case['cols']]
    if len(texts) >= 3 and rng.random() < 0.15:
        k = rng.randint(1, len(texts) - 1)
        return '$INPUT ' + ' '.join(texts[:k]) + '\n$INPUT ' + ' '.join(texts[k:])
    if len(texts) >= 3 and rng.random() < 0.1:
        k = rng.randint(1, len(texts) - 1)
        return '$INPUT ' + ' '.join(texts[:k]) + '\n       ' + ' '.join(texts[k:])
    return '$INPUT ' + ' '.join(texts)


def render_ignore_char(rng, ic):
    if ic is None:
        return None
    k = rng.random()
    if ic in ("'",):
        return f'IGNORE="{ic}"'
    if ic == '"':
        return f"IGNORE='{ic}'"
    if k < 0.6:
        return f'IGNORE={ic}'
    if k < 0.8:
        return f"IGNORE='{ic}'"
    return f'IGNORE="{ic}"'


def render_data_options(rng, case):
    opts = []
    ict = render_ignore_char(rng, case['ignore_char'])
    if ict:
        opts.append(ict)
    if case['null_char'] is not None:
        opts.append(f'NULL={case["null_char"]}')
    if rng.random() < 0.5:
        opts.reverse()
    fopts = render_filter_options(rng, case['filter_kind'], case['filters'], case['filter_layout'])
    if fopts and rng.random() < 0.2:
        opts = fopts + opts
    else:
        opts = opts + fopts
    return opts


CONTROL_STREAM = """$PROBLEM c13
{input}
$DATA {datafile} {options}
$PRED
Y = THETA(1) + ETA(1) + EPS(1)
$THETA 0.1
$OMEGA 0.1
$SIGMA 0.1
$ESTIMATION METHOD=1
"""


def render_control_stream(input_text, datafile, options):
    return CONTROL_STREAM.format(input=input_text, datafile=datafile, options=' '.join(options)).replace(' \n', '\n')


# ------------------------------------------------------------------------------------------------ frames
FRAME_NAMES = ['WGT', 'APGR', 'AGE', 'X1', 'C2', 'HT', 'CRCL', 'DOSE', 'V9', 'AB_1', 'OCC', 'FLAG', 'RATE', 'CMT']


def gen_value(rng):
    """A float value for the write/read cycle and the name of its class."""
    r = rng.random()
    if r < 0.25:
        return float(rng.randint(-5, 50)), 'int_as_float'
    if r < 0.33:
        return -0.0, 'negative_zero'
    if r < 0.41:
        return rng.choice([1e-300, -1e-300, 5e-324, 2.2250738585072014e-308]), 'tiny'
    if r < 0.49:
        return rng.choice([1e300, 1.7976931348623157e308, -1e300, 2.0**53, 2.0**53 + 2, 1e22, 1e23]), 'huge'
    if r < 0.75:
        return rng.choice([0.1 + 0.2, 1 / 3, 2 / 3, rng.random(), rng.random() * 1e5, -rng.random() * 1e-5,
                           rng.uniform(-1e10, 1e10), 0.1, 1.1, 123456.78901234567]), 'digits17'
    if r < 0.87:
        return float('nan'), 'nan'
    return round(rng.uniform(-100, 100), rng.randint(0, 3)), 'short_decimal'


def gen_frame(rng, pk=False):
    """Column dict (lists of floats / ints), column order, classes seen.  pk: the pheno layout, every
    individual keeps an observation record (AMT == 0) because pharmpy documents that individuals without
    observations are removed for $PK models."""
    classes = {}
    nrows = rng.randint(1, 8)
    data = {}
    if pk:
        names = ['ID', 'TIME', 'AMT', 'WGT', 'APGR', 'DV']
    else:
        k = rng.randint(1, 6)
        names = rng.sample(FRAME_NAMES, k)
        if rng.random() < 0.5:
            names = ['ID'] + names
        if rng.random() < 0.3:
            names.insert(rng.randint(0, len(names)), 'DV')
        if rng.random() < 0.3:
            names.insert(rng.randint(1 if names[0] == 'ID' else 0, len(names)), 'TIME')
    ids = []
    cur = rng.randint(1, 5)
    for i in range(nrows):
        if i and rng.random() < 0.4:
            cur += rng.randint(1, 4)
        ids.append(cur)
    for n in names:
        if n == 'ID':
            data[n] = list(ids)
        elif n == 'TIME':
            t = 0.0
            col = []
            for i in range(nrows):
                if i and ids[i] != ids[i - 1]:
                    t = 0.0
                col.append(t)
                t += rng.choice([0.5, 1.0, 0.1 + 0.2, 12.25, 1 / 3])
            data[n] = col
        elif pk and n == 'AMT':
            col = [rng.choice([0.0, 0.0, 25.0, 3.5, 1 / 3]) for _ in range(nrows)]
            # every individual has at least one observation record
            for u in set(ids):
                rows_u = [i for i in range(nrows) if ids[i] == u]
                if all(col[i] != 0 for i in rows_u):
                    col[rows_u[-1]] = 0.0
            data[n] = col
        else:
            col = []
            for _ in range(nrows):
                v, cl = gen_value(rng)
                if pk and n in ('WGT', 'APGR') and cl == 'nan' and False:
                    pass
                classes[cl] = classes.get(cl, 0) + 1
                col.append(v)
            if rng.random() < 0.12:
                col = [int(rng.randint(-3, 40)) for _ in range(nrows)]  # an integer dtype column
                col = [v if v != -99 else 1 for v in col]
                classes['int_column'] = classes.get('int_column', 0) + 1
            data[n] = col
    return names, data, classes
