"""Operation generator and executor for the op-sequence part of C11."""
from __future__ import annotations

import sympy

from vp.farm import Case
from vp.gen import rvs as R
from vp.gen.rvs import Mismatch, NotJudged, Ref

SPECIALS = ["trailing", "zero-variance"]

K_TRAILING = "C11/unjoin-moves-trailing-variable"
K_ZERO_VAR = "C11/join-fill-overwrites-zero-variance"


# --------------------------------------------------------------------------------------- materialisation
def mk_names(names, form):
    from pharmpy.basic import Expr

    if form == "tuple":
        return tuple(names)
    if form == "set":
        return set(names)
    if form == "symbols":
        return [Expr.symbol(n) for n in names]
    if form == "mixed":
        return [Expr.symbol(n) if i % 2 else n for i, n in enumerate(names)]
    return list(names)


def mk_fill(f):
    from pharmpy.basic import Expr

    if isinstance(f, dict):
        return Expr.symbol(f["sym"])
    return f


def fill_sympy(f):
    if isinstance(f, dict):
        return sympy.Symbol(f["sym"])
    return sympy.sympify(f)


# --------------------------------------------------------------------------------------- generation
def _finding_trailing(ref, inds, new_ref):
    old = ref.names()
    return R.trailing_pattern(ref, inds) and all(R.contiguous_in(old, b) for b in new_ref.blocks)


def gen_join(rng, ref, special):
    by_level = {}
    for n in ref.names():
        by_level.setdefault(ref.level[n], []).append(n)
    op = {"op": "join", "as": rng.choice(["list", "list", "list", "tuple", "set"]), "fill": 0}
    if special == "trailing":
        cands = [b for b in ref.blocks if len(b) >= 2]
        if not cands:
            return None
        b = rng.choice(cands)
        k = rng.randint(1, len(b) - 1)
        inds = b[-k:]
        i = ref.blocks.index(b)
        if i + 1 < len(ref.blocks) and len(ref.blocks[i + 1]) == 1 and rng.random() < 0.4 \
                and ref.level[ref.blocks[i + 1][0]] == ref.level[b[0]]:
            inds = inds + ref.blocks[i + 1]
        op["inds"] = list(inds)
        return op
    if special == "zero-variance":
        z = [n for n in ref.names() if R.is_zero(ref.get(n, n))]
        if not z:
            return None
        same = [n for n in by_level[ref.level[z[0]]] if n != z[0]]
        if not same:
            return None
        inds = [n for n in ref.names() if n in {z[0], rng.choice(same)}]
        op["inds"] = inds
        op["fill"] = rng.choice([0.1, 0.05, 1, {"sym": "CFILL"}])
        return op
    if rng.random() < 0.025 and len(by_level) > 1 and special is None:
        a, b = rng.sample(sorted(by_level), 2)
        op["inds"] = [rng.choice(by_level[a]), rng.choice(by_level[b])]
        return op
    lvl = rng.choice(sorted(by_level, key=lambda k: -len(by_level[k]))[:2])
    pool = by_level[lvl]
    k = min(len(pool), rng.choice([1, 2, 2, 2, 2, 3, 3, 4]))
    inds = rng.sample(pool, k)
    if rng.random() < 0.6:
        inds = [n for n in ref.names() if n in inds]
    r = rng.random()
    templ = False
    # join gets str names only, and fill != 0 is never combined with name_template: the property states
    # nothing about symbols as indices or about the precedence of the two options
    if r < 0.45:
        op["fill"] = 0
    elif r < 0.5:
        op["fill"] = 0.0
    elif r < 0.75:
        templ = True
    else:
        op["fill"] = rng.choice([0.1, 0.05, -0.01, 1, {"sym": "CFILL"}])
    if not templ and isinstance(op["fill"], int) and op["fill"] == 0 and rng.random() < 0.5:
        del op["fill"]  # rely on the default
    if templ:
        op["template"] = rng.choice(["IIV_{}_IIV_{}", "COV_{}_{}", "OMEGA_{0}_{1}"])
        op["pnames"] = rng.sample(["CL", "V", "KA", "MAT", "Q", "V2", "1", "10"], len(inds))
        if op["as"] == "set":
            op["as"] = "list"
    elif rng.random() < 0.04 and len(inds) >= 2 and op["as"] != "set":
        inds = inds + [inds[0]]  # duplicate entry
    op["inds"] = inds
    return op


def gen_unjoin(rng, ref, special):
    if special == "trailing":
        cands = [b for b in ref.blocks if len(b) >= 2]
        if not cands:
            return None
        b = rng.choice(cands)
        k = rng.randint(1, len(b) - 1)
        inds = b[-k:]
        if len(b) - k >= 1 and rng.random() < 0.3:
            j = rng.randint(0, len(b) - k - 1)
            inds = b[:j] + inds  # prefix and suffix removed, remainder contiguous
        form = rng.choice(["list", "tuple", "str"]) if len(inds) == 1 else rng.choice(["list", "tuple"])
        return {"op": "unjoin", "inds": list(inds), "as": form}
    joint = [n for b in ref.blocks if len(b) >= 2 for n in b]
    pool = joint if joint and rng.random() < 0.85 else ref.names()
    k = min(len(pool), rng.choice([1, 1, 1, 2, 2, 3]))
    inds = rng.sample(pool, k)
    if k == 1:
        form = rng.choice(["str", "symbol", "list", "symbols"])
    else:
        form = rng.choice(["list", "list", "tuple", "symbols", "mixed", "set"])
    return {"op": "unjoin", "inds": inds, "as": form}


def fresh(rng, ref, k, eps=False):
    pool = [n for n in (R.EPS_NAMES if eps else R.ETA_NAMES) if n not in ref.level]
    return rng.sample(pool, k) if len(pool) >= k else None


def gen_other(rng, ref):
    """A small collection to concatenate (fresh names only: uniqueness of names belongs to C06)."""
    other = Ref()
    nb = rng.choice([1, 1, 2])
    for _ in range(nb):
        eps = rng.random() < 0.25
        k = rng.choice([1, 1, 2, 3])
        tmp = ref.copy()
        for n in other.names():
            tmp.level[n] = "x"
        names = fresh(rng, tmp, k, eps)
        if names is None:
            break
        lvl = "RUV" if eps else rng.choice(["IIV", "IIV", "IOV"])
        other.blocks.append(names)
        for n in names:
            other.level[n] = lvl
            other.mean[n] = R.ZERO
        R.gen_block_entries(rng, other, names, rng.choice(["symbolic", "symbolic", "numeric", "mixed"]), tag="N")
    return other if other.blocks else None


def gen_op(rng, ref, special=None):
    names = ref.names()
    if special in ("trailing",):
        g = rng.choice([gen_join, gen_unjoin])
        return g(rng, ref, special)
    if special == "zero-variance":
        for _ in range(20):  # exactly one listed construct: not the trailing-variable one as well
            op = gen_join(rng, ref, special)
            if op is None:
                return None
            try:
                new = R.ref_join(ref, op["inds"], fill_sympy(op.get("fill", 0)), op.get("template"),
                                 op.get("pnames"))[0]
            except NotJudged:
                continue
            if not _finding_trailing(ref, op["inds"], new):
                return op
        return None
    for _ in range(20):
        kind = rng.choices(
            ["join", "unjoin", "getitem_list", "getitem_slice", "read", "subs", "add", "replace", "views"],
            [30, 20, 9, 5, 9, 12, 8, 5, 2])[0]
        if kind == "join":
            op = gen_join(rng, ref, None)
            try:
                new = R.ref_join(ref, op["inds"], fill_sympy(op.get("fill", 0)), op.get("template"),
                                 op.get("pnames"))[0]
            except NotJudged:
                return op
            if _finding_trailing(ref, op["inds"], new):
                continue
            return op
        if kind == "unjoin":
            op = gen_unjoin(rng, ref, None)
            if _finding_trailing(ref, op["inds"], R.ref_unjoin(ref, op["inds"])):
                continue
            return op
        if kind == "getitem_list":
            k = rng.randint(1, len(names)) if rng.random() > 0.03 else 0
            sel = rng.sample(names, k)
            if rng.random() < 0.5:
                sel = [n for n in names if n in sel]
            return {"op": "getitem_list", "inds": sel,
                    "as": rng.choice(["list", "list", "tuple", "set", "symbols", "mixed"])}
        if kind == "getitem_slice":
            nb = len(ref.blocks)
            ch = lambda: rng.choice([None, None] + list(range(-nb, nb + 1)))  # noqa: E731
            return {"op": "getitem_slice", "slice": [ch(), ch(), rng.choice([None, None, None, 1, 2, -1])]}
        if kind == "read":
            return {"op": "read", "seed": rng.randrange(10 ** 9)}
        if kind == "views":
            return {"op": "views"}
        if kind == "subs":
            op = {"op": "subs", "rename": {}, "psub": {}, "keyform": rng.choice(["str", "symbol", "sympy"])}
            psyms = sorted({s.name for v in list(ref.cov.values()) + list(ref.mean.values())
                            for s in sympy.sympify(v).free_symbols})
            for _ in range(rng.choice([1, 1, 2, 3])):
                r = rng.random()
                if r < 0.4 or not psyms:
                    old = rng.choice(names)
                    if old in op["rename"]:
                        continue
                    new = "R_" + old + rng.choice(["", "X", "_2"])
                    if new in names or new in op["rename"].values():
                        continue  # renames onto an existing name are not generated (uniqueness is C06)
                    op["rename"][old] = new
                else:
                    old = rng.choice(psyms)
                    if old in op["psub"]:
                        continue
                    r2 = rng.random()
                    if r2 < 0.5:
                        val = {"sym": "P_" + old}
                    elif r2 < 0.75:
                        val = rng.choice([0.25, 0.5, 1.5, 2])
                    else:
                        val = {"twice": "Q_" + old}
                    op["psub"][old] = val
            if not op["rename"] and not op["psub"]:
                continue
            return op
        if kind == "add":
            o = gen_other(rng, ref)
            if o is None:
                continue
            form = rng.choice(["dist", "list", "rvs", "radd_dist", "radd_list"])
            if len(o.blocks) > 1 and form in ("dist", "radd_dist"):
                form = "list"
            return {"op": "add", "form": form, "other": o}
        if kind == "replace":
            nb = len(ref.blocks)
            idxs = list(range(nb))
            rng.shuffle(idxs)
            if rng.random() < 0.3 and nb > 1:
                idxs = idxs[: rng.randint(1, nb - 1)]
            return {"op": "replace", "idxs": idxs}
    return {"op": "views"}


def render_op(op):
    d = {k: v for k, v in op.items() if k != "other"}
    if "other" in op:
        d["other"] = op["other"].render()
    return d


# --------------------------------------------------------------------------------------- execution
class Stop(Exception):
    pass


def _psub_value(v, pharmpy_side):
    if isinstance(v, dict) and "sym" in v:
        return sympy.Symbol(v["sym"])
    if isinstance(v, dict):
        return 2 * sympy.Symbol(v["twice"])
    return v if pharmpy_side else sympy.sympify(v)


def call_join(rvs, op, form=None):
    kw = {}
    if "fill" in op:
        kw["fill"] = mk_fill(op["fill"])
    if op.get("template"):
        kw["name_template"] = op["template"]
        kw["param_names"] = list(op["pnames"])
    return rvs.join(mk_names(op["inds"], form or op["as"]), **kw)


def check_join_result(c, res, ref_before, op, fill):
    """Full judgement of a join result against the docs; returns (rvs, new_ref). Raises Mismatch."""
    new, J, created, in_self = R.ref_join(ref_before, op["inds"], fill, op.get("template"), op.get("pnames"))
    if not (isinstance(res, tuple) and len(res) == 2):
        raise Mismatch("return", f"join returned {type(res).__name__}, documented: tuple (rvs, dict)")
    out, d = res
    old = ref_before.names()
    R.compare(c, out, new, keep_rel=[n for n in old if n not in J], old_order=old)
    c.hit("join_fill" if not op.get("template") else "join_template")
    if op.get("template"):
        if not in_self:
            c.hit("not_judged:template-names-when-inds-not-in-collection-order")
        want = {}
        for i, a in enumerate(J):
            for j in range(i):
                if R.is_zero(ref_before.get(a, J[j])):
                    want[sympy.sympify(new.get(a, J[j])).name] = (a, J[j])
        if set(d) != set(want):
            raise Mismatch("return", f"join returned parameter map {d}, created covariances {sorted(want)}")
        for nm, (a, b) in want.items():
            va, vb = ref_before.get(a, a), ref_before.get(b, b)
            if va.is_Symbol and vb.is_Symbol and sorted(d[nm]) != sorted([va.name, vb.name]):
                raise Mismatch("return", f"join maps {nm} to {d[nm]}, variances are {va},{vb}")
    elif dict(d) != {}:
        raise Mismatch("return", f"join without name_template returned non-empty map {d}")
    return out, new


def run_ops(c, rng, ref, rvs, ops_log, nops, special, special_at):
    """Runs the sequence; every violation is recorded on `c`.  Returns number of state-changing ops."""
    from pharmpy.basic import Expr
    from pharmpy.model import RandomVariables

    changed = 0
    for k in range(nops):
        if not ref.names():
            break
        sp = special if (special_at == k) else None
        op = gen_op(rng, ref, sp)
        if op is None and sp is not None:
            special_at = k + 1 if k + 1 < nops else None
            op = gen_op(rng, ref, None)
        elif sp is not None:
            c.hit("stratum_construct:" + sp)
        ops_log.append(render_op(op))
        kind = op["op"]
        c.hit("op:" + kind)
        old = ref.names()
        try:
            if kind == "join":
                rvs, ref = do_join(c, rvs, ref, op)
                changed += 1
            elif kind == "unjoin":
                inds = op["inds"]
                arg = inds[0] if op["as"] == "str" else (
                    Expr.symbol(inds[0]) if op["as"] == "symbol" else mk_names(inds, op["as"]))
                out = rvs.unjoin(arg)
                new = R.ref_unjoin(ref, inds)
                try:
                    R.compare(c, out, new, keep_rel=[n for n in old if n not in inds], old_order=old)
                except Mismatch as m:
                    key = None
                    if m.fact == "order-not-needed" and R.trailing_pattern(ref, inds) and \
                            delta_trailing(ref, op, inds):
                        key = K_TRAILING
                    c.violate(key, f"after {render_op(op)}: {m.msg}", ops_log)
                    raise Stop()
                rvs, ref = out, new
                changed += 1
            elif kind == "getitem_list":
                out = rvs[mk_names(op["inds"], op["as"])]
                new = R.ref_select(ref, op["inds"])
                R.compare(c, out, new, expected_order=[n for n in old if n in op["inds"]])
                rvs, ref = out, new
                changed += 1
            elif kind == "getitem_slice":
                sl = slice(*op["slice"])
                out = rvs[sl]
                new = R.ref_slice(ref, sl)
                R.compare(c, out, new, expected_order=new.names())
                rvs, ref = out, new
                changed += 1
            elif kind == "views":
                for attr, lv in (("etas", ("IIV", "IOV")), ("epsilons", ("RUV",)), ("iiv", ("IIV",)),
                                 ("iov", ("IOV",))):
                    sub = ref.restrict([n for n in old if ref.level[n] in lv])
                    R.compare(c, getattr(rvs, attr), sub, expected_order=sub.names())
            elif kind == "read":
                do_read(c, rvs, ref, op)
            elif kind == "subs":
                rvs, ref = do_subs(c, rvs, ref, op)
                changed += 1
            elif kind == "add":
                rvs, ref = do_add(c, rvs, ref, op)
                changed += 1
            elif kind == "replace":
                dists = [rvs[i] for i in op["idxs"]]
                out = rvs.replace(dists=dists)
                new = R.ref_permute(ref, op["idxs"])
                if not isinstance(out, RandomVariables):
                    raise Mismatch("return", "replace did not return RandomVariables")
                R.compare(c, out, new, expected_order=new.names())
                rvs, ref = out, new
                changed += 1
        except Stop:
            return changed
        except NotJudged as e:
            c.hit("not_judged:" + str(e))
            return changed
        except Mismatch as m:
            c.violate(None, f"after {render_op(op)}: {m.msg}", ops_log)
            return changed
        except (KeyError, ValueError, TypeError, IndexError, AttributeError, AssertionError,
                NotImplementedError) as e:
            c.violate(None, f"{render_op(op)} raised {type(e).__name__}: {e}", ops_log)
            return changed
    return changed


def delta_trailing(ref, op, inds):
    """Same operation on the same collection, but with the variables that are taken out standing first in
    their blocks: if the order criterion then holds, the firing is due to the trailing-variable mechanism."""
    ref2 = ref.copy()
    s = set(inds)
    ref2.blocks = [[n for n in b if n in s] + [n for n in b if n not in s] for b in ref.blocks]
    try:
        rv2 = R.build_rvs(ref2)
        old = ref2.names()
        cc = Case()
        if op["op"] == "unjoin":
            R.compare(cc, rv2.unjoin(list(inds)), R.ref_unjoin(ref2, inds),
                      keep_rel=[n for n in old if n not in s], old_order=old)
        else:
            op2 = dict(op, inds=[n for n in old if n in s])
            check_join_result(cc, call_join(rv2, op2), ref2, op2, fill_sympy(op.get("fill", 0)))
        return True
    except Exception:
        return False


def do_join(c, rvs, ref, op):
    fill = fill_sympy(op.get("fill", 0))
    try:
        R.ref_join(ref, op["inds"], fill, op.get("template"), op.get("pnames"))
    except NotJudged:
        try:
            call_join(rvs, op)  # executed for the record only; the docs do not define the outcome
        except Exception:
            pass
        raise
    res = call_join(rvs, op)
    try:
        return check_join_result(c, res, ref, op, fill)
    except Mismatch as m:
        key = None
        zero_var = any(R.is_zero(ref.get(n, n)) for n in op["inds"])
        if m.fact == "order-not-needed" and R.trailing_pattern(ref, op["inds"]) and \
                delta_trailing(ref, op, op["inds"]):
            key = K_TRAILING
        elif zero_var and not R.is_zero(fill) and m.fact in ("variance", "covariance_matrix"):
            try:
                op0 = dict(op, fill=0)
                check_join_result(Case(), call_join(rvs, op0), ref, op0, R.ZERO)
                key = K_ZERO_VAR
            except Exception:
                pass
        c.violate(key, f"after {render_op(op)}: {m.msg}", {"before": ref.render()})
        raise Stop()


def do_subs(c, rvs, ref, op):
    from pharmpy.basic import Expr

    kf = op["keyform"]
    d = {}
    for old, new in op["rename"].items():
        if kf == "str":
            d[old] = new
        else:
            d[Expr.symbol(old)] = Expr.symbol(new)
    for old, val in op["psub"].items():
        key = old if kf == "str" else (Expr.symbol(old) if kf == "symbol" else sympy.Symbol(old))
        v = _psub_value(val, True)
        if kf == "symbol" and not isinstance(v, (int, float)):
            v = Expr(v)
        d[key] = v
    psub = {sympy.Symbol(o): _psub_value(v, False) for o, v in op["psub"].items()}
    new = R.ref_subs(ref, op["rename"], psub)
    out = rvs.subs(d)
    R.compare(c, out, new, expected_order=new.names())
    return out, new


def do_add(c, rvs, ref, op):
    other = op["other"]
    form = op["form"]
    ro = R.build_rvs(other)
    if form == "dist":
        out = rvs + ro[0]
    elif form == "list":
        out = rvs + [ro[i] for i in range(len(ro))]
    elif form == "rvs":
        out = rvs + ro
    elif form == "radd_dist":
        out = ro[0] + rvs
    else:
        out = [ro[i] for i in range(len(ro))] + rvs
    left_first = form in ("dist", "list", "rvs")
    new = R.ref_concat(ref, other) if left_first else R.ref_concat(other, ref)
    R.compare(c, out, new, expected_order=new.names())
    return out, new


def do_read(c, rvs, ref, op):
    import random

    from pharmpy.basic import Expr

    rng = random.Random(op["seed"])
    nb = len(ref.blocks)
    i = rng.randrange(-nb, nb)
    c.hit("getitem_read")
    d = rvs[i]
    if list(d.names) != ref.blocks[i]:
        raise Mismatch("getitem", f"rvs[{i}] has names {d.names}, block {ref.blocks[i]}")
    n = rng.choice(ref.names())
    for key in (n, Expr.symbol(n)):
        d = rvs[key]
        if list(d.names) != ref.blocks[ref.block_index(n)]:
            raise Mismatch("getitem", f"rvs[{key!r}] has names {d.names}")
        if key not in rvs:
            raise Mismatch("getitem", f"{key!r} in rvs is False")
    if "NOPE_" + n in rvs:
        raise Mismatch("getitem", "a missing name is reported as contained")
    joint = [b for b in ref.blocks if len(b) >= 2]
    if not joint:
        return
    b = rng.choice(joint)
    d = rvs[b[0]]
    m = len(b)
    r = rng.random()
    if r < 0.2:
        j = rng.randrange(-m, m)
        idx, want = j, [b[j]]
    elif r < 0.4:
        j = rng.randrange(m)
        idx, want = b[j], [b[j]]
    elif r < 0.75:
        sel = rng.sample(b, rng.randint(1, m))
        want = [n for n in b if n in sel]
        idx = rng.choice([list, tuple, set])(sel)
    else:
        a = rng.randrange(0, m)
        z = rng.randrange(a + 1, m + 1)
        st = rng.choice([None, 1, 2])
        idx = slice(a, z, st) if st else slice(a, z)
        want = b[a:z:st]
    c.hit("op:dist_getitem")
    sub = d[idx]
    if list(sub.names) != want:
        raise Mismatch("dist_getitem", f"{list(b)}[{idx!r}] has names {sub.names}, expected {want}")
    if sub.level != ref.level[b[0]]:
        raise Mismatch("dist_getitem", "level changed")
    for x, a in enumerate(want):
        if not R.expr_equal(sub.get_variance(a), ref.get(a, a)):
            raise Mismatch("variance", f"{list(b)}[{idx!r}]: variance of {a} is {sub.get_variance(a)}, "
                                       f"reference {ref.get(a, a)}")
        mm = sub.mean[x] if hasattr(sub.mean, "rows") else sub.mean
        if not R.expr_equal(mm, ref.mean[a]):
            raise Mismatch("mean", f"{list(b)}[{idx!r}]: mean of {a} is {mm}")
        for y in range(x):
            got = sub.get_covariance(a, want[y])
            if not R.expr_equal(got, ref.get(a, want[y])):
                raise Mismatch("covariance", f"{list(b)}[{idx!r}]: cov({a},{want[y]}) is {got}, reference "
                                             f"{ref.get(a, want[y])}")
