"""Parameter-value part of C11: validate / nearest_valid / sdcorr / Model.create+replace / ucp scale."""
from __future__ import annotations

import numpy as np
import sympy

from vp.farm import Case
from vp.gen import psd as P
from vp.gen import rvs as R

K_NUMERIC = "C11/nearest-valid-numeric-entry"
K_SHARED = "C11/nearest-valid-shared-symbol"


def gen_values_block(rng, n, fam):
    """Symmetric n x n matrix with positive diagonal of the family valid / invalid / borderline."""
    for _ in range(50):
        sd = np.array([10 ** rng.uniform(-1.5, 0.5) for _ in range(n)])
        if fam == "valid":
            C = P.from_eigs(rng, [rng.uniform(0.2, 3) for _ in range(n)])
            d = np.sqrt(np.diag(C))
            A = C / np.outer(d, d) * np.outer(sd, sd)
            if rng.random() < 0.3:
                A = np.abs(A)  # all covariances positive
                if np.linalg.eigvalsh(A).min() < 1e-3 * np.linalg.norm(A):
                    continue
        elif fam == "invalid":
            Rm = np.eye(n)
            for i in range(n):
                for j in range(i):
                    Rm[i, j] = Rm[j, i] = rng.uniform(-1.6, 1.6)
            A = Rm * np.outer(sd, sd)
            if np.linalg.eigvalsh(A).min() > -1e-3 * np.linalg.norm(A):
                continue
        else:
            if n >= 2 and rng.random() < 0.5:
                rk = rng.randint(1, n - 1)
                B = np.array([[rng.choice([-2.0, -1.0, 1.0, 2.0, 3.0]) for _ in range(rk)] for _ in range(n)])
                A = B @ B.T / 8
            else:
                lam = [rng.uniform(0.2, 3) for _ in range(n)]
                lam[0] = rng.choice([-1, 1]) * 10 ** rng.uniform(-14, -10)
                A = P.from_eigs(rng, lam)
            if np.diag(A).min() <= 0:
                continue
        A = (A + A.T) / 2
        return A
    return np.eye(n)


def classify(A):
    w = np.linalg.eigvalsh(A)
    nrm = np.linalg.norm(A)
    if abs(w.min()) < 1e-8 * nrm:
        return "borderline"
    return "valid" if w.min() > 0 else "invalid"


class ParCase:
    """A collection with purely symbolic joint blocks (unless a stratum says otherwise) and value dicts."""

    def __init__(self, rng, stratum):
        for attempt in range(2000):
            ref = R.gen_collection(rng, allow_numeric=False)
            joint = [b for b in ref.blocks if len(b) >= 2]
            if not joint:
                continue
            if stratum == "shared-symbol" and not any(len(b) >= 3 for b in joint):
                continue
            if attempt < 30 and (not any(ref.level[n] != "RUV" for n in ref.names()) or
                                 not any(ref.level[n] == "RUV" for n in ref.names())):
                if rng.random() < 0.9:
                    continue
            break
        else:
            raise RuntimeError("generator could not produce a collection for stratum " + stratum)
        for n in ref.names():
            ref.mean[n] = R.ZERO
        self.ref = ref
        self.stratum = stratum
        self.special_block = None
        self.numeric_entry = None
        self.shared = None
        joint = [b for b in ref.blocks if len(b) >= 2]
        if stratum == "numeric-entry":
            b = rng.choice(joint)
            i = rng.randrange(1, len(b))
            j = rng.randrange(0, i)
            self.special_block = b
            self.numeric_entry = (b[i], b[j])
        elif stratum == "shared-symbol":
            b = rng.choice([b for b in joint if len(b) >= 3])
            i, j = sorted(rng.sample(range(len(b)), 2))
            self.special_block = b
            self.shared = (b[i], b[j])
            ref.cov[(b[j], b[j])] = ref.get(b[i], b[i])
        self.thetas = [f"TH{k}" for k in range(1, rng.randint(1, 3) + 1)]

    def draw_values(self, rng, force=None):
        """Returns (values dict, {block tuple: (A, class)}) and applies numeric/shared constructs."""
        ref = self.ref
        values = {}
        mats = {}
        for b in ref.blocks:
            if len(b) == 1:
                v = ref.get(b[0], b[0])
                if v.is_Symbol and v.name not in values:
                    values[v.name] = 10 ** rng.uniform(-2, 0.5)
                continue
            fam = force or rng.choices(["valid", "invalid", "borderline"], [50, 38, 12])[0]
            A = gen_values_block(rng, len(b), fam)
            if self.shared and list(b) == list(self.special_block):
                i, j = b.index(self.shared[0]), b.index(self.shared[1])
                A[j, j] = A[i, i]
            mats[tuple(b)] = A
            for i, a in enumerate(b):
                for j in range(i + 1):
                    s = ref.get(a, b[j])
                    if s.is_Symbol:
                        values[s.name] = float(A[i, j])
        for t in self.thetas:
            values[t] = rng.choice([1.0, -2.5, 0.004693, 100.0, rng.uniform(-5, 5)])
        if self.numeric_entry:
            # the collection gets the numeric value of this draw at the chosen entry
            a, b2 = self.numeric_entry
            blk = self.special_block
            A = mats[tuple(blk)]
            val = float(A[blk.index(a), blk.index(b2)])
            sym = self.ref_symbolic().get(a, b2)
            values.pop(sym.name, None)
            self.numeric_value = val
        return values, {k: (A, classify(A)) for k, A in mats.items()}

    def ref_symbolic(self):
        return self.ref

    def ref_for_pharmpy(self):
        """The collection handed to pharmpy (numeric entry inserted if the stratum asks for it)."""
        if not self.numeric_entry:
            return self.ref
        r = self.ref.copy()
        a, b = self.numeric_entry
        v = self.numeric_value
        if v == 0:
            r.cov.pop(R.Ref.key(a, b), None)
        else:
            r.cov[R.Ref.key(a, b)] = sympy.Float(v)
        return r

    def ref_delta(self):
        """Stratum-A equivalent of the special construct (fresh symbols instead of numeric / shared)."""
        r = self.ref.copy()
        extra = {}
        if self.shared:
            a, b = self.shared
            r.cov[(b, b)] = sympy.Symbol("UNSHARED_" + b)
            extra["UNSHARED_" + b] = self.ref.get(a, a).name
        return r, extra


def block_matrix(ref, b, values):
    A = np.zeros((len(b), len(b)))
    for i, a in enumerate(b):
        for j, bb in enumerate(b):
            e = sympy.sympify(ref.get(a, bb))
            A[i, j] = float(e.xreplace({s: values[s.name] for s in e.free_symbols}))
    return A


def judge_repaired(c, label, ref, vin, vout, only_validity_for=None, monitor="nearest_valid"):
    """vin -> vout must leave valid blocks and all other parameters untouched and replace invalid blocks by the
    nearest PSD matrix.  Returns list of (fact, msg)."""
    out = []
    touched = set()
    for b in ref.blocks:
        if len(b) < 2:
            continue
        A = block_matrix(ref, b, vin)
        B = block_matrix(ref, b, vout)
        nrm = np.linalg.norm(A)
        cls = classify(A)
        names = {s.name for a in b for bb in b for s in sympy.sympify(ref.get(a, bb)).free_symbols}
        c.hit(monitor + "_psd")
        if np.linalg.eigvalsh((B + B.T) / 2).min() < -1e-10 * nrm:
            out.append(("not-psd", f"{label}: block {b} has eigenvalues {np.linalg.eigvalsh(B)} after repair of "
                                   f"{A.tolist()}"))
        if cls == "valid":
            c.hit(monitor + "_unaltered")
            if not np.array_equal(A, B):
                out.append(("altered", f"{label}: valid block {b} {A.tolist()} altered to {B.tolist()}"))
        elif cls == "invalid":
            touched |= names
            if only_validity_for is not None and list(b) == list(only_validity_for):
                c.hit("not_judged:nearest-ness-with-shared-symbol-or-numeric-entry")
                continue
            c.hit(monitor + "_projection")
            Pm, _ = P.project_psd(A)
            if np.linalg.norm(B - Pm) > 1e-8 * nrm:
                out.append(("not-nearest", f"{label}: invalid block {b} {A.tolist()} replaced by {B.tolist()}, "
                                           f"nearest PSD is {Pm.tolist()}"))
        else:
            touched |= names
            c.hit("not_judged:borderline-block")
    c.hit(monitor + "_others_unaltered")
    for k, v in vin.items():
        if k not in touched and (k not in vout or float(vout[k]) != float(v)):
            out.append(("altered", f"{label}: parameter {k}={v} outside any invalid block became {vout.get(k)}"))
    if set(vout) != set(vin):
        out.append(("keys", f"{label}: keys changed {sorted(set(vout) ^ set(vin))}"))
    return out


def make_parameters(rng, pc, values, fixed):
    from pharmpy.model import Parameter, Parameters

    ps = []
    ref = pc.ref_for_pharmpy()
    variances = {sympy.sympify(ref.get(n, n)).name for n in ref.names() if sympy.sympify(ref.get(n, n)).is_Symbol}
    for name, v in values.items():
        kw = {}
        if name in variances and rng.random() < 0.5:
            kw["lower"] = 0
        if name.startswith("TH"):
            r = rng.random()
            if r < 0.3:
                kw["lower"] = v - rng.choice([0.5, 10, abs(v) + 1e-3])
            elif r < 0.6:
                kw["lower"] = v - rng.choice([0.5, 10])
                kw["upper"] = v + rng.choice([0.25, 100, 1e7])
        ps.append(Parameter.create(name, v, fix=name in fixed, **kw))
    rng.shuffle(ps)
    return Parameters.create(ps)


def run_par(c, rng):
    from pharmpy.internals.math import corr2cov
    from pharmpy.model import Model

    r = rng.random()
    stratum = "A" if r < 0.84 else ("numeric-entry" if r < 0.92 else "shared-symbol")
    pc = ParCase(rng, stratum)
    values, mats = pc.draw_values(rng, force="valid" if rng.random() < 0.3 else None)
    ref = pc.ref_for_pharmpy()
    rvs = R.build_rvs(ref, use_create=rng.random() < 0.08)
    classes = sorted(cl for _, cl in mats.values())
    c.sample = {"kind": "par", "stratum": stratum, "collection": ref.render(), "values": values,
                "block_classes": classes}
    from vp.farm import fp_of

    c.fp = fp_of("par", ref.render(), sorted(values.items()))
    c.nontrivial = any(len(b) >= 2 for b in ref.blocks)
    if stratum != "A":
        c.hit("stratum_construct:" + stratum)

    def delta_ok():
        """Re-run nearest_valid_parameters with the construct replaced by fresh symbols."""
        try:
            if pc.numeric_entry:
                rd = pc.ref
                vd = dict(values)
                vd[rd.get(*pc.numeric_entry).name] = pc.numeric_value
            else:
                rd, extra = pc.ref_delta()
                vd = dict(values)
                for new, old in extra.items():
                    vd[new] = vd[old]
            got = R.build_rvs(rd).nearest_valid_parameters(vd)
            return not judge_repaired(Case(), "delta", rd, vd, {k: float(v) for k, v in got.items()})
        except Exception:
            return False

    special_key = K_NUMERIC if pc.numeric_entry else (K_SHARED if pc.shared else None)
    special_invalid = special_key and mats[tuple(pc.special_block)][1] != "valid"

    import pandas as pd

    as_series = rng.random() < 0.25  # "a dict or Series of parameter values"
    c.sample["as_series"] = as_series

    def arg():
        return pd.Series(values) if as_series else dict(values)

    # ---- (a) validate_parameters
    if "borderline" not in classes:
        c.hit("validate_parameters")
        got = rvs.validate_parameters(arg())
        want = "invalid" not in classes
        if bool(got) != want:
            c.violate(None, f"validate_parameters = {got}, blocks are {classes}", c.sample)
    else:
        c.hit("not_judged:validate-borderline")

    # ---- (b) nearest_valid_parameters
    nearest = None
    try:
        nearest = rvs.nearest_valid_parameters(arg())
    except ValueError as e:
        key = K_NUMERIC if (pc.numeric_entry and special_invalid and delta_ok()) else None
        c.violate(key, f"nearest_valid_parameters raised ValueError: {e}", c.sample)
    if nearest is not None:
        nv = {k: float(v) for k, v in nearest.items()}
        probs = judge_repaired(c, "nearest_valid_parameters", ref, values, nv,
                               only_validity_for=pc.special_block)
        c.hit("nearest_then_validate")
        if not rvs.validate_parameters(nearest):
            probs.append(("still-invalid", "validate_parameters(nearest_valid_parameters(x)) is False"))
        for fact, msg in probs[:1]:
            key = special_key if (special_key and special_invalid and fact in ("not-psd", "still-invalid")
                                  and delta_ok()) else None
            c.violate(key, msg, c.sample)

    # ---- (c) sd/corr form
    if pc.numeric_entry:
        c.hit("not_judged:sdcorr-numeric-entry-in-block")
    else:
        sc = rvs.parameters_sdcorr(arg())
        c.hit("sdcorr_definition")
        bad = None
        for b in ref.blocks:
            if len(b) == 1:
                v = ref.get(b[0], b[0])
                if v.is_Symbol and abs(sc[v.name] - np.sqrt(values[v.name])) > 1e-12 * np.sqrt(values[v.name]):
                    bad = f"sd of {v.name}: {sc[v.name]} != sqrt({values[v.name]})"
                continue
            if pc.shared and list(b) == list(pc.special_block):
                continue
            A = block_matrix(ref, b, values)
            sd = np.sqrt(np.diag(A))
            C = np.eye(len(b))
            for i, a in enumerate(b):
                if abs(sc[ref.get(a, a).name] - sd[i]) > 1e-12 * sd[i]:
                    bad = f"sd of {a}: {sc[ref.get(a, a).name]} != {sd[i]}"
                for j in range(i):
                    want = A[i, j] / (sd[i] * sd[j])
                    got = sc[ref.get(a, b[j]).name]
                    C[i, j] = C[j, i] = got
                    if abs(got - want) > 1e-12 * max(1, abs(want)):
                        bad = f"corr({a},{b[j]}) = {got}, cov/(sd*sd) = {want}"
            c.hit("sdcorr_roundtrip")
            back = corr2cov(C, np.array([sc[ref.get(a, a).name] for a in b]))
            if np.abs(back - A).max() > 1e-12 * np.abs(A).max():
                bad = f"corr2cov(parameters_sdcorr(x)) != x for block {b}: {back.tolist()} vs {A.tolist()}"
        for t in pc.thetas:
            if sc[t] != values[t]:
                bad = f"non-variability parameter {t} changed {values[t]} -> {sc[t]}"
        if bad:
            c.violate(None, "parameters_sdcorr: " + bad, c.sample)

    # ---- (d) Model.create / Model.replace
    fixed = set()
    for t in pc.thetas:
        if rng.random() < 0.2:
            fixed.add(t)
    for b in ref.blocks:
        if rng.random() < 0.12 and not (len(b) >= 2 and mats[tuple(b)][1] != "valid"):
            fixed |= {s.name for a in b for bb in b for s in sympy.sympify(ref.get(a, bb)).free_symbols}
    model = None
    for label in ("Model.create", "Model.replace"):
        if label == "Model.replace":
            if model is None:
                break
            values2, mats2 = pc.draw_values(rng)
            if pc.numeric_entry:
                break  # the numeric entry belongs to the first draw
            vin, cls_in = values2, sorted(cl for _, cl in mats2.values())
        else:
            vin, cls_in = values, classes
        try:
            ps = make_parameters(rng, pc, vin, fixed)
            if label == "Model.create":
                m = Model.create(name="c11", parameters=ps, random_variables=rvs)
            else:
                m = model.replace(parameters=ps)
        except ValueError as e:
            key = K_NUMERIC if (pc.numeric_entry and special_invalid and delta_ok()) else None
            c.violate(key, f"{label} raised ValueError: {e}", c.sample)
            break
        vout = dict(m.parameters.inits)
        mon = "model_create" if label == "Model.create" else "model_replace"
        c.hit(mon + "_inits")
        probs = judge_repaired(c, label, ref, vin, vout, monitor=mon,
                               only_validity_for=pc.special_block)
        if list(m.parameters.names) != list(ps.names):
            probs.append(("order", f"{label} reordered parameters"))
        for fact, msg in probs[:1]:
            sp_inv = special_key and classify(block_matrix(ref, pc.special_block, vin)) != "valid"
            key = special_key if (special_key and sp_inv and fact == "not-psd" and delta_ok()) else None
            c.violate(key, msg, {"sample": c.sample, "values_in": vin})
        if probs:
            break
        if label == "Model.create":
            model = m
            replace_rvs_only(c, rng, pc, ref, rvs, vin, fixed, special_key, delta_ok)
            if all(cl == "valid" for cl in cls_in):
                check_ucp(c, rng, pc, ref, m, vin, fixed)
            else:
                c.hit("not_judged:ucp-needs-positive-definite-inits")


def replace_rvs_only(c, rng, pc, ref, rvs, vin, fixed, special_key, delta_ok):
    """The same parameters first in a model whose random effects are all independent (every off-diagonal parameter is
    present but unused), then ONLY the random variables are replaced by the collection with joint blocks: the
    initial estimates of the result must again be valid for every block (nearest valid matrix, valid ones untouched)."""
    from pharmpy.model import Model, NormalDistribution, RandomVariables

    if pc.numeric_entry or pc.shared or not any(len(b) >= 2 for b in ref.blocks):
        c.hit("not_judged:replace-rvs-only-needs-a-symbolic-joint-block")
        return
    try:
        diag = RandomVariables.create([
            NormalDistribution.create(n, ref.level[n], R.to_native(ref.mean[n]), R.to_native(ref.get(n, n)))
            for b in ref.blocks for n in b])
        m0 = Model.create(name="c11d", parameters=make_parameters(rng, pc, vin, fixed), random_variables=diag)
    except (ValueError, TypeError):
        c.hit("not_judged:replace-rvs-only-diagonal-model-refused")
        return
    vin0 = dict(m0.parameters.inits)
    try:
        m1 = m0.replace(random_variables=rvs)
    except ValueError as e:
        c.violate(None, f"Model.replace(random_variables=...) raised ValueError: {e}", c.sample)
        return
    c.hit("model_replace_rvs_only")
    vout = dict(m1.parameters.inits)
    probs = judge_repaired(c, "Model.replace(random_variables only)", ref, vin0, vout, monitor="model_replace_rvs",
                           only_validity_for=pc.special_block)
    for fact, msg in probs[:1]:
        sp_inv = special_key and classify(block_matrix(ref, pc.special_block, vin0)) != "valid"
        key = special_key if (special_key and sp_inv and fact == "not-psd" and delta_ok()) else None
        c.violate(key, msg, {"sample": c.sample, "values_in": vin0})


def check_ucp(c, rng, pc, ref, m, values, fixed):
    from pharmpy.modeling import calculate_parameters_from_ucp, calculate_ucp_scale

    if pc.numeric_entry:
        c.hit("not_judged:ucp-numeric-entry")
        return
    if not any(ref.level[n] != "RUV" for n in ref.names()) or not any(ref.level[n] == "RUV" for n in ref.names()):
        c.hit("not_judged:ucp-without-etas-or-epsilons")
        return
    if pc.shared:
        c.hit("not_judged:ucp-shared-symbol")
        return
    ucps = {}
    negative = False
    for b in ref.blocks:
        if len(b) == 1:
            s = ref.get(b[0], b[0])
            if s.name not in fixed:
                ucps[s.name] = 0.1
            continue
        L = np.linalg.cholesky(block_matrix(ref, b, values))
        for i, a in enumerate(b):
            for j in range(i + 1):
                s = ref.get(a, b[j])
                if s.name in fixed:
                    continue
                if i != j and L[i, j] < 0:
                    negative = True
                    ucps[s.name] = -0.1
                else:
                    ucps[s.name] = 0.1
    for t in pc.thetas:
        if t not in fixed:
            ucps[t] = 0.1
    if negative:
        c.hit("not_judged:all-ucp-0.1-with-negative-cholesky-element(sign-aware-start-used)")
    try:
        scale = calculate_ucp_scale(m)
        got = calculate_parameters_from_ucp(m, scale, dict(ucps))
    except Exception as e:
        c.violate(None, f"ucp scale round trip raised {type(e).__name__}: {e}", {"sample": c.sample,
                                                                                   "fixed": sorted(fixed)})
        return
    c.hit("ucp_roundtrip")
    c.hit("ucp_roundtrip_signed" if negative else "ucp_roundtrip_all_0.1")
    want_names = [p.name for p in m.parameters if not p.fix]
    if list(got.index) != want_names:
        c.violate(None, f"calculate_parameters_from_ucp returned {list(got.index)}, non-fixed parameters are "
                        f"{want_names}", c.sample)
        return
    scale_of = {}
    for b in ref.blocks:
        A = block_matrix(ref, b, values)
        for a in b:
            for bb in b:
                scale_of[ref.get(a, bb).name] = np.abs(A).max()
    for p in m.parameters:
        if p.fix:
            continue
        g = float(got[p.name])
        if p.name in scale_of:
            tol = 1e-9 * scale_of[p.name]
        else:
            up = min(p.upper, 1e6)
            lo = max(p.lower, -1e6)
            tol = 1e-9 * max(1.0, up - lo)  # logistic on the bound range: absolute error eps * range
        if abs(g - p.init) > tol:
            c.violate(None, f"from_ucp(scale(M), start) gives {p.name}={g}, initial estimate {p.init} "
                            f"(ucp {ucps[p.name]})", {"sample": c.sample, "fixed": sorted(fixed), "ucps": ucps})
            return
