"""Matrix families and numpy oracles for the numeric part of C11 (nearest PSD, conversions)."""
from __future__ import annotations

import numpy as np

LABELS = ["THETA(1)", "OMEGA(1,1)", "OMEGA(2,1)", "OMEGA(2,2)", "SIGMA(1,1)", "POP_CL", "IIV_CL", "2", "10"]


def gauss(rng, n, m=None):
    m = n if m is None else m
    return np.array([[rng.gauss(0, 1) for _ in range(m)] for _ in range(n)])


def rand_orth(rng, n):
    Q, _ = np.linalg.qr(gauss(rng, n))
    return Q


def from_eigs(rng, lam):
    Q = rand_orth(rng, len(lam))
    A = (Q * np.array(lam)) @ Q.T
    return (A + A.T) / 2


def gen_matrix(rng, family, n):
    """Returns an exactly symmetric float matrix of the family."""
    scale = 10 ** rng.uniform(-4, 4)
    if family == "pd":
        return from_eigs(rng, [10 ** rng.uniform(-2, 1) for _ in range(n)]) * scale
    if family == "pd_int":
        L = np.tril(np.array([[rng.choice([-2, -1, 0, 1, 2]) for _ in range(n)] for _ in range(n)], dtype=float))
        np.fill_diagonal(L, [rng.choice([1, 2, 3]) for _ in range(n)])
        return L @ L.T
    if family == "psd0":
        r = rng.randint(1, n - 1)
        B = np.array([[rng.choice([-2, -1, 0, 1, 2, 3]) for _ in range(r)] for _ in range(n)], dtype=float)
        if not B.any():
            B[0, 0] = 1.0
        return B @ B.T
    if family == "slight":
        lam = [10 ** rng.uniform(-1, 1) for _ in range(n)]
        nrm = np.sqrt(sum(x * x for x in lam))
        lam[rng.randrange(n)] = -(10 ** rng.uniform(-13, -5)) * nrm
        return from_eigs(rng, lam) * scale
    if family == "strong":
        v = rng.random()
        if v < 0.1:
            lam = [-(10 ** rng.uniform(-2, 1)) for _ in range(n)]  # negative definite -> nearest is 0
            return from_eigs(rng, lam) * scale
        if v < 0.2:  # hollow: zero diagonal
            A = np.zeros((n, n))
            for i in range(n):
                for j in range(i):
                    A[i, j] = A[j, i] = rng.choice([-1.0, 1.0, 0.5, 2.0])
            return A
        if v < 0.35:  # "correlation" with |r| > 1
            A = np.eye(n)
            for i in range(n):
                for j in range(i):
                    A[i, j] = A[j, i] = rng.choice([1.2, -1.5, 0.9, -0.99, 1.0])
            if np.linalg.eigvalsh(A).min() > -0.05:
                A[1, 0] = A[0, 1] = 1.5
            return A
        while True:
            lam = [rng.uniform(-1, 1) for _ in range(n)]
            if min(lam) <= -0.05:
                break
        return from_eigs(rng, lam) * scale
    raise ValueError(family)


def skew(rng, n):
    G = gauss(rng, n)
    return (G - G.T) / 2


def project_psd(A):
    """Frobenius-nearest symmetric PSD matrix (Higham 1988): clip the eigenvalues of the symmetric part."""
    S = (A + A.T) / 2
    w, V = np.linalg.eigh(S)
    return (V * np.clip(w, 0, None)) @ V.T, w


def well_conditioned_pd(rng, n):
    scale = 10 ** rng.uniform(-3, 3)
    return from_eigs(rng, [rng.uniform(0.1, 10) for _ in range(n)]) * scale


def judge_nearest(c, A, B, noise):
    """Facts about B = nearest_positive_semidefinite(A).  Returns list of (fact, message)."""
    out = []
    nrm = np.linalg.norm(A)
    if nrm == 0:
        return out
    B = np.asarray(B, dtype=float)
    P, w = project_psd(A)
    c.hit("nearest_psd_is_psd")
    if B.shape != A.shape or not np.all(np.isfinite(B)):
        return [("shape", f"result has shape {B.shape} / non-finite entries")]
    asym = np.linalg.norm(B - B.T)
    if asym > 1e-10 * nrm:
        out.append(("not-symmetric", f"result is not symmetric: ||B-B^T||={asym:.3g}, ||A||={nrm:.3g}"))
    mine = np.linalg.eigvalsh((B + B.T) / 2).min()
    if mine < -1e-10 * nrm:
        out.append(("not-psd", f"result has eigenvalue {mine:.3g} < -1e-10*||A|| (||A||={nrm:.3g})"))
    borderline = abs(w.min()) < 1e-8 * nrm
    if borderline:
        c.hit("not_judged:borderline-matrix")
        return out
    if w.min() > 0 and noise in ("none", "roundoff"):
        c.hit("nearest_psd_unchanged")
        d = np.abs(B - A).max()
        # exactly symmetric valid input: "never altered" is exact; with rounding-level skew noise a
        # symmetrisation is tolerated
        if d > (0.0 if noise == "none" else 1e-12 * nrm):
            out.append(("altered", f"clearly PSD matrix (min eig {w.min():.3g}) altered by {d:.3g}"))
    c.hit("nearest_psd_projection")
    d = np.linalg.norm(B - P)
    if d > 1e-8 * nrm:
        out.append(("not-nearest", f"||B - Pi_PSD(sym A)||_F = {d:.3g} > 1e-8*||A|| = {1e-8 * nrm:.3g}"))
    return out
