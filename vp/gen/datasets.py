"""Event-dataset generator and the record-by-record reference walk used by check C14.

Nothing in here imports pharmpy (except `build_model`, which only wires a generated frame into a Model).
A dataset is described by a JSON-able *spec*:

    spec = {
      "base":     key of BASE_INFO (which structural model the dataset is attached to),
      "columns":  [{"name", "type", "dtype", "drop"}, ...]          in frame order,
      "rows":     [[v, v, ...], ...]                                in file order, aligned with columns,
      "kinds":    ["dose" | "rdose" | "obs" | "mobs" | "other" | "reset", ...]   generator ground truth,
      "features": [str, ...]                                        constructs the generator put in,
    }

Ground truth ("kinds") is what the generator *meant* each record to be; the column values are then written
by NM-TRAN's conventions (EVID 0 obs / 1 dose / 2 other / 3 reset / 4 reset+dose; MDV 1 on everything that is
not an observation; AMT > 0 exactly on dose records).  The reference walks below use explicit loops only.
"""
from __future__ import annotations

import math

# compartment number (1-based position in pharmpy's compartment_names) and admid of every dosing compartment of
# the structural models the datasets are attached to; verified against the real models in c14.setup()
BASE_INFO = {
    "iv": {"names": ["CENTRAL"], "dosing": {1: 1}, "central": 1},
    "oral": {"names": ["DEPOT", "CENTRAL"], "dosing": {1: 1}, "central": 2},
    "ivoral": {"names": ["DEPOT", "CENTRAL"], "dosing": {1: 1, 2: 2}, "central": 2},
    "ivoral_transit": {"names": ["TRANSIT1", "TRANSIT2", "DEPOT", "CENTRAL"], "dosing": {1: 1, 4: 2}, "central": 4},
}

TIME_STEPS = [0.0, 0.0, 0.0, 0.5, 1.0, 1.0, 2.0, 4.0, 12.0]
II_CHOICES = [0.5, 1.0, 2.0, 4.0, 6.0, 12.0, 24.0]
AMT_CHOICES = [0.5, 3.5, 10.0, 25.0, 100.0]
ID_POOL = [1, 2, 3, 5, 7, 9, 10, 11, 12, 20, 21, 100, 101, 999, 1000]

# constructs for which a finding is (or may be) listed: clean datasets contain none of them
CONSTRUCTS = ["idname", "unsorted", "intcols", "single_obs", "single_dose", "reset", "first_tie", "nonmem", "nocov",
              "admid_nocentral", "single_record"]


def _is_nan(x):
    return isinstance(x, float) and x != x


# ----------------------------------------------------------------------------------------------------------
# generator
# ----------------------------------------------------------------------------------------------------------
def choose_profile(rng, idx):
    """Stratification: ~40 % clean, ~45 % clean + exactly one construct, ~15 % wild."""
    r = idx % 20
    if r < 8:
        return "clean", []
    if r < 17:
        return "one", [CONSTRUCTS[(idx // 20 + r) % len(CONSTRUCTS)]]
    k = rng.randint(2, 4)
    return "wild", sorted(rng.sample([c for c in CONSTRUCTS if c not in ("nonmem", "single_record")], k))


def gen_spec(rng, idx, tier):
    profile, constructs = choose_profile(rng, idx)
    for _attempt in range(40):
        spec = _gen_spec(rng, profile, constructs)
        if spec is not None:
            spec["profile"] = profile
            spec["constructs"] = constructs
            return spec
    # extremely unlikely: fall back to whatever the generator produces
    spec = _gen_spec(rng, "wild", constructs, accept_any=True)
    spec["profile"] = "wild"
    spec["constructs"] = constructs
    return spec


def _gen_spec(rng, profile, constructs, accept_any=False):
    cons = set(constructs)
    base = rng.choice(["iv", "oral", "oral", "ivoral", "ivoral", "ivoral_transit"])
    if "nonmem" in cons:
        base = "ivoral"
    if "admid_nocentral" in cons:
        base = "oral"
    info = BASE_INFO[base]

    # ---- which columns exist
    has_dose = rng.random() < 0.97
    has_evid = has_dose and rng.random() < 0.5
    has_mdv = has_dose and rng.random() < 0.45
    has_cmt = has_dose and rng.random() < (0.6 if len(info["dosing"]) > 1 else 0.3)
    has_admid = has_dose and rng.random() < (0.25 if has_cmt else 0.35)
    has_rate = has_dose and rng.random() < 0.25
    has_addl = has_dose and rng.random() < 0.5
    has_ss = has_dose and rng.random() < 0.3
    has_ii = has_addl or has_ss
    if "reset" in cons:
        has_evid = has_dose = True
    if "nonmem" in cons:
        has_cmt = False
        has_dose = True
    if "admid_nocentral" in cons:
        # an admid column, no compartment column, and a structural model whose central compartment gets no dose
        has_dose = has_admid = True
        has_cmt = False
    elif has_admid and not has_cmt and info["central"] not in info["dosing"]:
        has_admid = False
    n_cov = 0 if "nocov" in cons else rng.choice([1, 1, 2, 2, 3])
    decoys = rng.random() < 0.2  # dropped columns with a role type and misleading content

    names = {
        "id": rng.choice(["SUBJ", "PAT", "IDNR", "id"]) if "idname" in cons else "ID",
        "idv": rng.choice(["TIME", "TIME", "T", "TAFD", "HOURS"]),
        "dv": rng.choice(["DV", "DV", "CONC", "Y"]),
        "dose": rng.choice(["AMT", "AMT", "DOSE"]),
        "mdv": rng.choice(["MDV", "MDV", "MISS"]),
        "event": rng.choice(["EVID", "EVID", "EVENT"]),
        "compartment": rng.choice(["CMT", "CMT", "COMP"]),
        "admid": rng.choice(["ADM", "ROUTE"]),
        "rate": "RATE",
        "additional": rng.choice(["ADDL", "ADDL", "NADD"]),
        "ii": rng.choice(["II", "II", "TAU"]),
        "ss": "SS",
    }
    if "nonmem" in cons:
        names.update({"idv": "TIME", "dv": "DV", "dose": "AMT"})
    int_able = set()
    if "intcols" not in cons and not has_addl and rng.random() < 0.6:
        # integer ids are the norm; kept out of clean ADDL datasets only (see construct "intcols")
        int_able = {"id"} | {c for c in ["event", "mdv", "compartment", "ss", "admid"] if rng.random() < 0.3}
    if "intcols" in cons:
        has_dose = has_addl = has_ii = True
        cand = ["id", "event", "mdv", "compartment", "additional", "ss", "admid"]
        int_able = {"id"} | {c for c in cand if rng.random() < 0.5}
        if rng.random() < 0.2:
            int_able.add("idv")

    # ---- individuals
    n_ind = rng.choice([1, 2, 2, 3, 3, 4, 5, 6])
    if "single_record" in cons:
        n_ind = 1
    ids = rng.sample(ID_POOL, n_ind)
    if "unsorted" in cons:
        if n_ind < 2:
            n_ind = rng.choice([2, 3, 4])
            ids = rng.sample(ID_POOL, n_ind)
        ids.sort()
        while ids == sorted(ids):
            rng.shuffle(ids)
    else:
        ids.sort()

    routes = sorted(info["dosing"].items())  # [(cmt, admid)]
    allow_reset = "reset" in cons
    recs = []  # list of dict role -> value, plus kind
    # a few datasets have one long individual (18-30 records): sorting more than 16 rows is where an unstable sort shows
    long_subj = rng.choice(ids) if rng.random() < 0.05 else None
    for subj in ids:
        recs.extend(_gen_individual(rng, subj, routes, info, has_dose, has_evid, has_mdv, has_addl, has_ss, has_ii,
                                    has_rate, allow_reset, force_first_tie=("first_tie" in cons and subj != ids[0]),
                                    long=(subj == long_subj)))

    # ---- pruning constructs
    if "single_obs" in cons:
        seen = False
        out = []
        for r in recs:
            if r["kind"] == "obs":
                if seen:
                    continue
                seen = True
            out.append(r)
        recs = out
    if "single_dose" in cons and has_dose:
        seen = False
        out = []
        for r in recs:
            if r["kind"] in ("dose", "rdose"):
                if seen:
                    if r["kind"] == "dose":
                        continue
                    # a reset-and-dose record keeps its reset (the clock may restart there)
                    r = dict(r, kind="reset", evid=3.0, amt=0.0, addl=0.0, ii=0.0, ss=0.0, rate=0.0)
                seen = True
            out.append(r)
        recs = out
    if "single_record" in cons:
        recs = [r for r in recs if r["kind"] == "obs"][:1]
    if not recs:
        return None
    # validity: within an individual time never runs backwards except at a reset record
    last = {}
    for r in recs:
        if r["kind"] not in ("reset", "rdose") and r["id"] in last and r["t"] < last[r["id"]]:
            raise AssertionError("generator produced a non-chronological dataset")
        last[r["id"]] = r["t"]
    if len(recs) < 2 and "single_record" not in cons and not accept_any:
        return None
    n_obs = sum(1 for r in recs if r["kind"] == "obs")
    n_dose = sum(1 for r in recs if r["kind"] in ("dose", "rdose"))
    if not accept_any:
        if "single_obs" in cons and n_obs != 1:
            return None
        if "single_dose" in cons and has_dose and n_dose != 1:
            return None
        if "single_obs" not in cons and "single_record" not in cons and n_obs < 2:
            return None
        if "single_dose" not in cons and "single_record" not in cons and has_dose and n_dose < 2:
            return None
        if "reset" in cons and not any(r["kind"] in ("reset", "rdose") for r in recs):
            return None

    # ---- covariates (values per record)
    ids_present = []
    for r in recs:
        if r["id"] not in ids_present:
            ids_present.append(r["id"])
    if "unsorted" in cons and ids_present == sorted(ids_present) and not accept_any:
        return None
    cov_names = ["WGT", "AGE", "SEX"][:n_cov]
    cov_cols = {}
    nan_cov = rng.random() < 0.15
    for cn in cov_names:
        varying = rng.random() < 0.4
        vals = []
        cur_id = None
        cur = None
        for r in recs:
            if r["id"] != cur_id:
                cur_id = r["id"]
                cur = float(rng.choice([0, 1, 50, 70.5, 33]))
                ind_varies = varying and rng.random() < 0.6
            elif ind_varies and rng.random() < 0.4:
                cur = cur + rng.choice([1.0, -1.0, 0.5])
            v = cur
            if nan_cov and rng.random() < 0.15:
                v = float("nan")
            vals.append(v)
        cov_cols[cn] = vals

    # ---- first_tie must really be absent from clean datasets / present when requested
    ft = has_first_dose_tie_in_later_individual(recs)
    if not accept_any:
        if "first_tie" in cons and not ft:
            return None
        if "first_tie" not in cons and ft and profile != "wild":
            return None

    # ---- assemble columns
    cols = []  # (name, type, values)
    cols.append((names["id"], "id", [r["id"] for r in recs]))
    cols.append((names["idv"], "idv", [r["t"] for r in recs]))
    if has_dose:
        cols.append((names["dose"], "dose", [r["amt"] for r in recs]))
    if has_rate:
        cols.append((names["rate"], "rate", [r["rate"] for r in recs]))
    if has_addl:
        cols.append((names["additional"], "additional", [r["addl"] for r in recs]))
    if has_ii:
        cols.append((names["ii"], "ii", [r["ii"] for r in recs]))
    if has_ss:
        cols.append((names["ss"], "ss", [r["ss"] for r in recs]))
    if has_cmt:
        cols.append((names["compartment"], "compartment", [r["cmt"] for r in recs]))
    if has_admid:
        cols.append((names["admid"], "admid", [r["admid"] for r in recs]))
    if has_evid:
        cols.append((names["event"], "event", [r["evid"] for r in recs]))
    if has_mdv:
        cols.append((names["mdv"], "mdv", [r["mdv"] for r in recs]))
    cols.append((names["dv"], "dv", [r["dv"] for r in recs]))
    for cn in cov_names:
        cols.append((cn, "covariate", cov_cols[cn]))
    cols.append(("REC", "unknown", [float(1001 + i) for i in range(len(recs))]))
    if names["id"] != "ID" and rng.random() < 0.35:
        # a column that happens to be called ID but is not the subject identifier (e.g. a site number)
        cols.append(("ID", "unknown", [1.0 for _ in recs]))
    dropped = set()
    if decoys and "nonmem" not in cons:
        # dropped columns are "barred from being used": typed like a role column but with misleading content
        if not has_mdv:
            cols.append(("XMDV", "mdv", [float(rng.choice([0, 1])) for _ in recs]))
            dropped.add("XMDV")
        if not has_cmt and not has_admid:
            cols.append(("XCMT", "compartment", [float(rng.choice([1, 2, 3])) for _ in recs]))
            dropped.add("XCMT")
        cols.append(("XCOV", "covariate", [float(i % 3) for i in range(len(recs))]))
        dropped.add("XCOV")
    # column order: id first usually, sometimes shuffled
    if rng.random() < 0.25 and "nonmem" not in cons:
        rng.shuffle(cols)

    columns = []
    data = []
    for name, typ, vals in cols:
        role = typ
        dtype = "float64"
        if role in int_able and name not in dropped and all((not _is_nan(v)) and float(v).is_integer() for v in vals):
            dtype = "int64"
        columns.append({"name": name, "type": typ, "dtype": dtype, "drop": name in dropped})
        data.append([int(v) if dtype == "int64" else float(v) for v in vals])
    rows = [[data[j][i] for j in range(len(columns))] for i in range(len(recs))]
    features = sorted(_features(recs, names, base, has_cmt, ids_present, int_able, dropped, has_evid, has_mdv, has_rate,
                                has_admid, has_dose))
    return {
        "base": base,
        "columns": columns,
        "rows": rows,
        "kinds": [r["kind"] for r in recs],
        "features": features,
    }


def _gen_individual(rng, subj, routes, info, has_dose, has_evid, has_mdv, has_addl, has_ss, has_ii, has_rate,
                    allow_reset, force_first_tie, long=False):
    n = rng.randint(18, 30) if long else rng.choice([1, 2, 3, 3, 4, 4, 5, 6, 7, 8])
    t = rng.choice([0.0, 0.0, 0.0, 0.5, 1.0, 10.0])
    out = []
    earlier_dose_times = []
    last_admid = routes[0][1]
    kinds_w = [("obs", 50)]
    if has_dose:
        kinds_w.append(("dose", 32))
    if has_mdv:
        kinds_w.append(("mobs", 4))
    if has_evid or (has_mdv and has_dose):
        kinds_w.append(("other", 5))
    if allow_reset and has_evid:
        kinds_w.append(("reset", 10))
        kinds_w.append(("rdose", 10))
    total = sum(w for _, w in kinds_w)
    forced = []
    if force_first_tie and has_dose:
        forced = ["dose", "obs"]
        n = max(n, 2)
    for k in range(n):
        if k < len(forced):
            kind = forced[k]
        elif k == 0:
            kind = "dose" if (has_dose and rng.random() < 0.7) else "obs"
        else:
            x = rng.random() * total
            kind = kinds_w[-1][0]
            for kk, w in kinds_w:
                if x < w:
                    kind = kk
                    break
                x -= w
        if k > 0:
            if forced and k == 1:
                dt = 0.0
            else:
                dt = rng.choice(TIME_STEPS)
            if kind in ("reset", "rdose") and rng.random() < 0.7:
                t_new = rng.choice([0.0, 0.0, 0.5, t, t + 1.0])  # the clock may restart at a reset
                if t_new < t:
                    # dose times of the occasions before the restart: a later record may fall on exactly such a time
                    earlier_dose_times = sorted({q["t"] for q in out if q["kind"] in ("dose", "rdose")})
                t = t_new
            else:
                later = [x for x in earlier_dose_times if x > t]
                if later and kind in ("obs", "mobs") and rng.random() < 0.4:
                    t = rng.choice(later)  # same clock reading as a dose of an earlier occasion (no tie: another occasion)
                else:
                    t = t + dt
        r = {"id": subj, "t": t, "kind": kind, "amt": 0.0, "rate": 0.0, "addl": 0.0, "ii": 0.0, "ss": 0.0,
             "cmt": 0.0, "admid": float(last_admid), "dv": 0.0}
        if kind in ("dose", "rdose"):
            r["amt"] = rng.choice(AMT_CHOICES)
            cmt, admid = rng.choice(routes)
            r["cmt"] = float(cmt)
            r["admid"] = float(admid)
            last_admid = admid
            if has_addl and rng.random() < 0.45:
                r["addl"] = float(rng.choice([1, 1, 2, 3, 6]))
                r["ii"] = rng.choice(II_CHOICES)
            if has_ss and rng.random() < 0.25:
                r["ss"] = float(rng.choice([1, 1, 1, 2]))
                if r["ii"] == 0.0:
                    r["ii"] = rng.choice(II_CHOICES)
            if has_rate and cmt == info["central"] and rng.random() < 0.5:
                r["rate"] = rng.choice([1.0, 5.0, 50.0])
        else:
            r["cmt"] = float(rng.choice([info["central"], info["central"], 0]))
            if kind == "obs":
                r["dv"] = round(rng.uniform(0.1, 40.0), 2)
        r["evid"] = {"obs": 0.0, "mobs": 0.0, "dose": 1.0, "other": 2.0, "reset": 3.0, "rdose": 4.0}[kind]
        r["mdv"] = 0.0 if kind == "obs" else 1.0
        out.append(r)
    return out


def has_first_dose_tie_in_later_individual(recs):
    """An observation directly tied (same time, later in the file) with the individual's first dose, in an
    individual that is not the first of the file."""
    first_id = recs[0]["id"] if recs else None
    seen_dose = {}
    first_dose_t = {}
    for r in recs:
        i = r["id"]
        if r["kind"] in ("dose", "rdose"):
            if i not in first_dose_t:
                first_dose_t[i] = r["t"]
            seen_dose[i] = seen_dose.get(i, 0) + 1
        elif i != first_id and seen_dose.get(i, 0) >= 1 and i in first_dose_t and r["t"] == first_dose_t[i] \
                and seen_dose[i] >= 1:
            # tied with the first dose time and at least the first dose precedes it
            return True
    return False


def _features(recs, names, base, has_cmt, ids_present, int_able, dropped, has_evid, has_mdv, has_rate, has_admid,
              has_dose):
    f = set()
    if names["id"] != "ID":
        f.add("id-not-ID")
    if names["idv"] != "TIME":
        f.add("idv-not-TIME")
    if ids_present != sorted(ids_present):
        f.add("ids-unsorted")
    if any(b - a > 1 for a, b in zip(sorted(ids_present), sorted(ids_present)[1:])):
        f.add("ids-noncontiguous")
    if int_able:
        f.add("int-columns")
    if dropped:
        f.add("dropped-decoys")
    if has_evid:
        f.add("evid-col")
    if has_mdv:
        f.add("mdv-col")
    if has_rate:
        f.add("rate-col")
    if has_admid:
        f.add("admid-col")
    if has_cmt:
        f.add("cmt-col")
    if not has_dose:
        f.add("no-dose-col")
    kinds = [r["kind"] for r in recs]
    for k in ("other", "reset", "rdose", "mobs"):
        if k in kinds:
            f.add("kind-" + k)
    if any(r["addl"] > 0 for r in recs):
        f.add("addl")
    if any(r["ss"] > 0 for r in recs):
        f.add("ss")
    if len({r["cmt"] for r in recs if r["kind"] in ("dose", "rdose")}) > 1:
        f.add("two-routes")
    per_id = {}
    for r in recs:
        per_id[r["id"]] = per_id.get(r["id"], 0) + 1
    if max(per_id.values()) > 16:
        f.add("long-individual")
    # ties between a dose and an observation, in both orders
    for a, b in zip(recs, recs[1:]):
        if a["id"] == b["id"] and a["t"] == b["t"]:
            if a["kind"] in ("dose", "rdose") and b["kind"] == "obs":
                f.add("tie-dose-then-obs")
            if a["kind"] == "obs" and b["kind"] in ("dose", "rdose"):
                f.add("tie-obs-then-dose")
    # an additional dose that falls after a later explicit dose record
    for i, r in enumerate(recs):
        if r["addl"] > 0:
            last_t = r["t"] + r["addl"] * r["ii"]
            for q in recs[i + 1:]:
                if q["id"] != r["id"] or q["kind"] in ("reset", "rdose"):
                    break
                if q["kind"] == "dose" and q["t"] < last_t:
                    f.add("addl-overlaps-later-dose")
                    break
    return f


# ----------------------------------------------------------------------------------------------------------
# spec accessors
# ----------------------------------------------------------------------------------------------------------
class View:
    """Column-role access to a spec (plain lists)."""

    def __init__(self, spec):
        self.spec = spec
        self.columns = spec["columns"]
        self.rows = spec["rows"]
        self.kinds = spec["kinds"]
        self.n = len(self.rows)
        self.colnames = [c["name"] for c in self.columns]
        self.role = {}
        self.covariates = []
        for c in self.columns:
            if c["drop"]:
                continue
            if c["type"] == "covariate":
                self.covariates.append(c["name"])
            elif c["type"] != "unknown":
                self.role.setdefault(c["type"], c["name"])
        self.info = BASE_INFO[spec["base"]]

    def has(self, role):
        return role in self.role

    def col(self, name):
        j = self.colnames.index(name)
        return [row[j] for row in self.rows]

    def rolecol(self, role):
        return self.col(self.role[role])

    def ids(self):
        return self.rolecol("id")

    def times(self):
        return self.rolecol("idv")

    def individuals(self):
        """[(id, [row indices])] in order of first appearance."""
        out = []
        pos = {}
        for i, v in enumerate(self.ids()):
            if v not in pos:
                pos[v] = len(out)
                out.append((v, []))
            out[pos[v]][1].append(i)
        return out

    def segments(self):
        """Reset segment number per record: a record with kind reset/rdose starts a new segment."""
        seg = [0] * self.n
        for _, idxs in self.individuals():
            s = 0
            for i in idxs:
                if self.kinds[i] in ("reset", "rdose"):
                    s += 1
                seg[i] = s
        return seg

    def is_dose(self, i):
        return self.kinds[i] in ("dose", "rdose")

    def is_obs(self, i):
        return self.kinds[i] == "obs"


# ----------------------------------------------------------------------------------------------------------
# reference walks
# ----------------------------------------------------------------------------------------------------------
def ref_doseid(v: View):
    """Per record: (expected value or None, reason).  Dose periods are counted per individual in file order.
    Documented tie rule: an observation at the time of a dose belongs to the previous dose."""
    out = [None] * v.n
    times = v.times()
    seg = v.segments()
    ss = v.rolecol("ss") if v.has("ss") else [0.0] * v.n
    for _, idxs in v.individuals():
        nd = 0
        for i in idxs:
            if v.is_dose(i):
                nd += 1
                out[i] = (nd, "dose")
                continue
            ties = [j for j in idxs if v.is_dose(j) and seg[j] == seg[i] and times[j] == times[i]]
            if any(v.is_dose(j) and seg[j] != seg[i] and times[j] == times[i] for j in idxs):
                # the clock value coincides with a dose on the other side of a reset: whether that is "the same
                # time point" is not documented
                out[i] = (None, "same-clock-value-as-dose-across-a-reset")
            elif not ties:
                out[i] = (nd, "plain")
            elif not v.is_obs(i):
                out[i] = (None, "non-observation-tied-with-dose")
            elif len(ties) > 1:
                out[i] = (None, "several-doses-at-the-time-of-the-observation")
            elif ties[0] > i:
                out[i] = (nd, "tie-obs-before-dose")
            elif ss[ties[0]] > 0:
                out[i] = (nd, "tie-with-ss-dose")  # code comment + DESIGN guard: a steady-state dose keeps the group
            elif nd == 1:
                out[i] = (None, "tie-with-first-dose")  # there is no previous dose: 0 or 1, docs silent
            else:
                out[i] = (nd - 1, "tie-obs-after-dose")
    return out


def dose_events(v: View):
    """Explicit + implied (ADDL/II) dose events: list of (row index of the originating record, k, time, seg)."""
    times = v.times()
    seg = v.segments()
    addl = v.rolecol("additional") if (v.has("additional") and v.has("ii")) else [0.0] * v.n
    ii = v.rolecol("ii") if v.has("ii") else [0.0] * v.n
    ev = []
    for i in range(v.n):
        if v.is_dose(i):
            ev.append((i, 0, times[i], seg[i]))
        # pharmpy expands on ADDL of any record; the generator only sets ADDL on dose records
        if addl[i] > 0:
            for k in range(1, int(addl[i]) + 1):
                ev.append((i, k, times[i] + ii[i] * k, seg[i]))
    return ev


def ref_tad(v: View):
    """Per record: (expected time after the most recent dose or None, reason)."""
    out = [None] * v.n
    times = v.times()
    seg = v.segments()
    ids = v.ids()
    ss = v.rolecol("ss") if v.has("ss") else [0.0] * v.n
    events = dose_events(v)
    for i in range(v.n):
        if v.is_dose(i):
            out[i] = (0.0, "dose")
            continue
        t = times[i]
        # dose events of this individual and reset segment that precede record i in the event order
        mine = [e for e in events if ids[e[0]] == ids[i] and e[3] == seg[i]]
        at_t = [e for e in mine if e[2] == t]
        at_t_before = [e for e in at_t if e[0] < i]
        earlier = [e[2] for e in mine if e[2] < t and e[0] < i]
        if v.kinds[i] == "reset":
            out[i] = (None, "reset-record")
            continue
        if any(ids[e[0]] == ids[i] and e[3] != seg[i] and e[2] == t for e in events):
            out[i] = (None, "same-clock-value-as-dose-across-a-reset")
            continue
        if not v.is_obs(i):
            if at_t:
                out[i] = (None, "non-observation-tied-with-dose")
            elif earlier:
                out[i] = (t - max(earlier), "plain")
            else:
                out[i] = (None, "no-dose-yet")
            continue
        if len(at_t) > 1:
            out[i] = (None, "several-doses-at-the-time-of-the-observation")
        elif at_t_before and ss[at_t_before[0][0]] > 0:
            out[i] = (0.0, "tie-with-ss-dose")  # the observation stays in the group of the steady-state dose
        elif not earlier:
            out[i] = (None, "tie-with-first-dose" if at_t_before else "no-dose-yet")
        else:
            out[i] = (t - max(earlier), "tie" if at_t else "plain")
    return out


def ref_admid(v: View):
    """Generated ADMID (no admid column): per record (expected or None, reason)."""
    out = [None] * v.n
    dosing = v.info["dosing"]
    cmt = v.rolecol("compartment") if v.has("compartment") else None
    for _, idxs in v.individuals():
        last = None
        for i in idxs:
            if not v.has("event") and v.kinds[i] in ("mobs", "other"):
                # without an event column nothing says whether an MDV=1, AMT=0 record is a dose-type event
                out[i] = (None, "event-type-undocumented-without-event-column")
                last = None
                continue
            if v.is_dose(i):
                if cmt is not None:
                    a = dosing.get(int(cmt[i]))
                    out[i] = (a, "dose") if a is not None else (None, "dose-into-non-dosing-compartment")
                    last = a
                elif len(dosing) == 1:
                    a = list(dosing.values())[0]
                    out[i] = (a, "dose")
                    last = a
                else:
                    out[i] = (None, "no-cmt-column-with-several-routes")
                    last = None
            else:
                out[i] = (last, "carry") if last is not None else (None, "before-first-dose-or-unknown-route")
    return out


def ref_cmt(v: View):
    """Generated CMT (no compartment column): per record (expected or None, reason)."""
    out = [None] * v.n
    dosing = v.info["dosing"]
    by_admid = {a: c for c, a in dosing.items()}
    adm = v.rolecol("admid") if v.has("admid") else None
    for i in range(v.n):
        if not v.is_dose(i):
            out[i] = (None, "non-dose-record")
        elif adm is not None:
            c = by_admid.get(int(adm[i]))
            out[i] = (c, "dose") if c is not None else (None, "unknown-admid")
        elif len(dosing) == 1:
            out[i] = (list(dosing.keys())[0], "dose")
        else:
            out[i] = (None, "no-admid-column-with-several-routes")
    return out


def ref_expand(v: View):
    """Expected implied dose records: list of (origin row index, time)."""
    return [(e[0], e[2]) for e in dose_events(v) if e[1] > 0]


def ref_total_amount(v: View):
    amt = v.rolecol("dose")
    addl = v.rolecol("additional") if (v.has("additional") and v.has("ii")) else [0.0] * v.n
    tot = 0.0
    for i in range(v.n):
        tot += amt[i] * (addl[i] + 1)
    return tot


def ref_time_varying(v: View):
    """{covariate: True/False/None}; None when only the treatment of missing values decides."""
    res = {}
    for name in v.covariates:
        vals = v.col(name)
        strict = False  # two distinct non-missing values within one individual
        loose = False  # distinct when a missing value counts as a value
        for _, idxs in v.individuals():
            seen = []
            seen_nan = False
            for i in idxs:
                x = vals[i]
                if _is_nan(x):
                    seen_nan = True
                elif x not in seen:
                    seen.append(x)
            if len(seen) > 1:
                strict = True
            if len(seen) + (1 if seen_nan else 0) > 1:
                loose = True
        res[name] = strict if strict == loose else None
    return res


# ----------------------------------------------------------------------------------------------------------
# spec transformations used for attribution (delta checks): each returns a semantically equivalent spec without
# one construct
# ----------------------------------------------------------------------------------------------------------
def _copy_spec(spec):
    return {
        **spec,
        "columns": [dict(c) for c in spec["columns"]],
        "rows": [list(r) for r in spec["rows"]],
        "kinds": list(spec["kinds"]),
    }


def neutral_idname(spec):
    s = _copy_spec(spec)
    for c in s["columns"]:
        if c["name"] == "ID" and c["type"] != "id":
            c["name"] = "SITE"
    for c in s["columns"]:
        if c["type"] == "id" and not c["drop"]:
            c["name"] = "ID"
    return s


def neutral_sorted_ids(spec):
    """Relabel ids increasingly in order of first appearance."""
    s = _copy_spec(spec)
    j = next(k for k, c in enumerate(s["columns"]) if c["type"] == "id" and not c["drop"])
    m = {}
    for r in s["rows"]:
        if r[j] not in m:
            m[r[j]] = type(r[j])(len(m) + 1)
        r[j] = m[r[j]]
    return s


def neutral_float(spec):
    s = _copy_spec(spec)
    for k, c in enumerate(s["columns"]):
        if c["dtype"] != "float64":
            c["dtype"] = "float64"
            for r in s["rows"]:
                r[k] = float(r[k])
    return s


def neutral_segment_times(spec):
    """Shift the clock of every reset segment so that no time value occurs in two segments of an individual."""
    s = _copy_spec(spec)
    v = View(s)
    seg = v.segments()
    j = v.colnames.index(v.role["idv"])
    for i, r in enumerate(s["rows"]):
        r[j] = type(r[j])(r[j] + 10000 * seg[i])
    return s


def neutral_prepend_individual(spec):
    """One extra individual (a single observation record at time 0) in front of the file: row label 0 then belongs to
    nobody else."""
    s = _copy_spec(spec)
    v = View(s)
    row = []
    for c in s["columns"]:
        if c["type"] == "id" and not c["drop"]:
            x = max(v.ids()) + 1
        elif c["name"] == "REC":
            x = 1000.0
        else:
            x = 0
        row.append(int(x) if c["dtype"] == "int64" else float(x))
    s["rows"].insert(0, row)
    s["kinds"].insert(0, "obs")
    return s


def neutral_evid4(spec):
    """Reset-and-dose records (EVID 4) become plain dose records (EVID 1)."""
    s = _copy_spec(spec)
    v = View(s)
    j = v.colnames.index(v.role["event"]) if v.has("event") else None
    for i, k in enumerate(s["kinds"]):
        if k == "rdose":
            s["kinds"][i] = "dose"
            if j is not None:
                s["rows"][i][j] = type(s["rows"][i][j])(1)
    return s


def neutral_untie(spec):
    """Make the times of each individual strictly increasing in file order (adds 0.01 h per record; the grid is
    0.5 h, so no new tie with an explicit or implied dose can appear)."""
    s = _copy_spec(spec)
    v = View(s)
    j = v.colnames.index(v.role["idv"])
    for _, idxs in v.individuals():
        for pos, i in enumerate(idxs):
            s["rows"][i][j] = float(s["rows"][i][j]) + 0.01 * pos
    for c in s["columns"]:
        if c["name"] == v.role["idv"]:
            c["dtype"] = "float64"
    return s


def neutral_single_individual(spec, subj):
    """The dataset restricted to one individual."""
    s = _copy_spec(spec)
    j = next(k for k, c in enumerate(s["columns"]) if c["type"] == "id" and not c["drop"])
    keep = [i for i, r in enumerate(s["rows"]) if r[j] == subj]
    s["rows"] = [s["rows"][i] for i in keep]
    s["kinds"] = [s["kinds"][i] for i in keep]
    return s, keep


# ----------------------------------------------------------------------------------------------------------
# wiring into pandas / pharmpy
# ----------------------------------------------------------------------------------------------------------
def build_frame(spec):
    import numpy as np
    import pandas as pd

    data = {}
    for j, c in enumerate(spec["columns"]):
        data[c["name"]] = np.array([r[j] for r in spec["rows"]], dtype=c["dtype"])
    return pd.DataFrame(data, columns=[c["name"] for c in spec["columns"]])


_COLINFO_CACHE = {}


def build_datainfo(spec):
    from pharmpy.model import ColumnInfo, DataInfo

    cols = []
    for c in spec["columns"]:
        key = (c["name"], c["type"], c["dtype"], c["drop"])
        ci = _COLINFO_CACHE.get(key)
        if ci is None:  # ColumnInfo.create parses a unit with sympy (~5 ms); the objects are immutable
            ci = ColumnInfo.create(c["name"], type=c["type"], datatype=c["dtype"], drop=c["drop"])
            _COLINFO_CACHE[key] = ci
        cols.append(ci)
    return DataInfo.create(cols)


def render(spec):
    """Compact JSON-able rendering for samples / replay files."""
    return {
        "base": spec["base"],
        "profile": spec.get("profile"),
        "constructs": spec.get("constructs"),
        "columns": [f"{c['name']}:{c['type']}:{c['dtype']}" + (":drop" if c["drop"] else "") for c in spec["columns"]],
        "kinds": spec["kinds"],
        "rows": [[None if _is_nan(x) else x for x in r] for r in spec["rows"]],
        "features": spec["features"],
    }
