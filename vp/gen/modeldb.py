"""Generators for check C16: hostile strings, small NONMEM models with (shared) datasets, modelfit results and
workloads of context / model database operations.  Everything is a JSON-able *spec*; `build` turns a spec into
pharmpy objects (it needs a scratch directory for the control streams and csv files it parses)."""
from __future__ import annotations

import math
import os

# strings that pandas.read_csv turns into NaN with its default settings (pandas docs, "na_values"); a log message
# equal to one of them is the listed finding C16/log-message-na-coercion and lives in its own stratum
NA_STRINGS = ["", "#N/A", "#N/A N/A", "#NA", "-1.#IND", "-1.#QNAN", "-NaN", "-nan", "1.#IND", "1.#QNAN", "<NA>", "N/A",
              "NA", "NULL", "NaN", "None", "n/a", "nan", "null"]

_WORDS = ["run", "fit", "OFV", "warning:", "theta", "ünï", "μ-model", "模型", "ok", "A", "b", "$THETA", ";", "#", "@",
          "x=1", "100%", "a/b", "c:\\d", "'q'", "tab\tbed", "--", "é", "1e5", "0x1F", "NaN?", "null.", "Na"]


def hostile(rng, *, newlines=True, na=False, blank_edges=True, long=True, max_long=10000):
    """One hostile message string.  Flags select the classes that belong to listed findings."""
    kinds = ["plain", "comma", "quote", "dquote", "digits", "unicode", "mixed", "sep", "backslash", "quoted_whole",
             "number", "bool", "csvrow"]
    if newlines:
        kinds += ["newline", "cr", "crlf", "trailing_nl"]
    if blank_edges:
        kinds += ["lead", "trail", "blank"]
    if long:
        kinds += ["long"]
    if na:
        kinds = ["na"]
    k = rng.choice(kinds)
    w = lambda: rng.choice(_WORDS)  # noqa: E731
    if k == "plain":
        return " ".join(w() for _ in range(rng.randint(1, 5)))
    if k == "comma":
        return rng.choice([",", "a,b", ",,", "x, y, z", w() + "," + w(), "a,", ",a"])
    if k == "quote":
        return rng.choice(['"', 'say "hi"', 'a"b', '"start', 'end"', w() + '"' + w()])
    if k == "dquote":
        return rng.choice(['""', 'a""b', '""""', '"",""', 'x "" y', '""' + w()])
    if k == "digits":
        return rng.choice(["0", "12345", "007", "1.5", "-3", "1e10", "+7", "00", str(rng.randint(0, 10**12))])
    if k == "unicode":
        return rng.choice(["ünï cødé", "模型 已保存", "Ω≈ç√∫", "🙂 done", "a\u00a0b", "e\u0301", "\u200bzero", "ß"])
    if k == "mixed":
        return rng.choice(['a,"b",c', '"a,b"', 'x,"y""z",', ',"', '",', '",\n"'.replace("\n", " "), "a;b|c\td"])
    if k == "sep":
        return rng.choice([";", "|", "\t", "a\tb", "a;b", "path/with/slash", "c/@m"])
    if k == "backslash":
        return rng.choice(["\\", "a\\b", "\\n", "\\\"", "c:\\dir\\", "\\,"])
    if k == "quoted_whole":
        return '"' + w() + '"'
    if k == "number":
        return repr(rng.choice([0.1, -2.5, 1e-300, 1e300, 3.0]))
    if k == "bool":
        return rng.choice(["true", "false", "True", "FALSE", "yes", "no", "inf", "-inf"])
    if k == "csvrow":
        return rng.choice(["path,time,severity,message", "c,2020-01-01 00:00:00,info,\"x\"", "ctx,,,"])
    if k == "newline":
        return rng.choice(["l1\nl2", "\n", "a\n\nb", "\nstart", 'q"\n"q', "a,\nb", "x\n" + w()])
    if k == "cr":
        return rng.choice(["x\ry", "\r", "a\rb\rc"])
    if k == "crlf":
        return rng.choice(["l1\r\nl2", "\r\n", "a\r\n"])
    if k == "trailing_nl":
        return w() + "\n"
    if k == "lead":
        return rng.choice([" lead", "  two", "\tlead", " " + w()])
    if k == "trail":
        return rng.choice(["trail ", "two  ", "tab\t", w() + " "])
    if k == "blank":
        return rng.choice([" ", "   ", "\t"])
    if k == "long":
        n = rng.choice([200, 1000, 4095, 4096, 8191, 8192, 8193, max_long])
        unit = rng.choice(["x", "ab,", 'q"', "é", "word "])
        return (unit * (n // len(unit) + 1))[:n]
    if k == "na":
        return rng.choice(NA_STRINGS)
    raise AssertionError(k)


def is_na_string(s):
    return s in NA_STRINGS


def is_numeric_like(s):
    """Could a CSV reader with type inference take the whole field for a number or a boolean?"""
    t = s.strip()
    if t.lower() in ("true", "false"):
        return True
    try:
        float(t)
        return True
    except ValueError:
        return False


# ------------------------------------------------------------------------------------------------ models
TEMPLATES = [
    # (code with {TH..} holes filled by the record generator, number of thetas)
    ("$PRED\nCL = THETA(1)*EXP(ETA(1))\nY = CL + EPS(1)\n", 1),
    ("$PRED\nBASE = THETA(1) + ETA(1)\nSLP = THETA(2)\nIPRED = BASE + SLP*TIME\nY = IPRED + IPRED*EPS(1)\n", 2),
    ("$SUBROUTINES ADVAN1 TRANS2\n$PK\nCL = THETA(1)*EXP(ETA(1))\nV = THETA(2)\nS1 = V\n$ERROR\nY = F + F*EPS(1)\n", 2),
    ("$PRED\nIF (TIME.GT.1) THEN\n  A = THETA(1)\nELSE\n  A = THETA(2)\nEND IF\nY = A*EXP(ETA(1)) + EPS(1)\n", 2),
    ("$SUBROUTINES ADVAN2 TRANS2\n$PK\nCL = THETA(1)*EXP(ETA(1))\nV = THETA(2)*EXP(ETA(2))\nKA = THETA(3)\nS2 = V\n"
     "$ERROR\nIPRED = F\nW = THETA(4)\nY = IPRED + W*EPS(1)\n", 4),
]
N_ETA = [1, 1, 1, 1, 2]

NAMES_PLAIN = ["run1", "mod_2", "a.b", "x-1", "M", "m", "r007", "ünï", "模", "model", "2", "final2", "inputs", "UPPER",
               "lo.wer.ctl", "run10", "Run1", "b_-_c", "ß", "n0"]
# legal file names whose characters collide with the text formats of the context (space-separated annotations,
# comma-separated log): own strata
NAMES_SPACE = ["a b", "run 1", " x", "two  sp", "t "]
NAMES_COMMA = ["a,b", "r,1", ",c", 'q"q']
DESCS = ["plain text", "a,b", 'q"x""y', "trail ", "", "NA", "nan", "None", "ünï cødé", "12345", "two  blanks",
         "x" * 70, "A = B", "100% done", "'single'", "slash/es", "模型"]


def gen_dataset(rng, wgt=None):
    cols = ["ID", "TIME", "AMT", "DV"] + (["WGT"] if (rng.random() < 0.3 if wgt is None else wgt) else [])
    rows = []
    vals = [0.0, 1.0, 2.5, -3.25, 0.1, 1e-05, 123456.789, 17.0, 0.30000000000000004, 1e+20, 5e-324, -0.5]
    ids = sorted(rng.sample([1, 2, 3, 5, 11, 20, 100], rng.randint(2, 3)))
    for i in ids:
        t = 0.0
        w_ = float(rng.choice([55, 70.5, 81.25]))
        for j in range(rng.randint(2, 3)):
            row = [float(i), t, float(rng.choice([10, 50])) if j == 0 else 0.0,
                   0.0 if j == 0 else (rng.choice(vals) if rng.random() < 0.5 else round(rng.uniform(-5, 40), rng.randint(0, 6)))]
            if len(cols) == 5:
                row.append(w_)
            rows.append(row)
            t += rng.choice([0.5, 1.0, 2.0, 12.0])
    return {"cols": cols, "rows": rows}


def _num(v):
    return str(int(v)) if v == int(v) and abs(v) < 1e15 else repr(v)


def dataset_text(ds):
    return ",".join(ds["cols"]) + "\n" + "".join(",".join(_num(v) for v in r) + "\n" for r in ds["rows"])


def gen_model_spec(rng, ds_index, name, desc):
    t = rng.randrange(len(TEMPLATES))
    nth = TEMPLATES[t][1]
    thetas = []
    for _ in range(nth):
        init = round(rng.uniform(0.05, 9), rng.randint(1, 4))
        form = rng.randrange(4)
        thetas.append({"init": init, "form": form, "upper": round(init * rng.choice([2, 10, 100]), 3)})
    omegas = [round(rng.uniform(0.01, 0.9), 3) for _ in range(N_ETA[t])]
    sigma = round(rng.uniform(0.01, 0.9), 3)
    return {"tmpl": t, "thetas": thetas, "omegas": omegas, "sigma": sigma, "ds": ds_index, "name": name, "desc": desc,
            "est": rng.choice(["METHOD=1 INTERACTION", "METHOD=0", "METHOD=1 INTERACTION MAXEVALS=9999"])}


def model_text(ms, ds, datafile):
    lines = ["$PROBLEM base", "$INPUT " + " ".join(ds["cols"]), f"$DATA {datafile} IGNORE=@", TEMPLATES[ms["tmpl"]][0].rstrip("\n")]
    for th in ms["thetas"]:
        f = th["form"]
        if f == 0:
            lines.append(f"$THETA {th['init']}")
        elif f == 1:
            lines.append(f"$THETA (0, {th['init']})")
        elif f == 2:
            lines.append(f"$THETA (0, {th['init']}, {th['upper']})")
        else:
            lines.append(f"$THETA {th['init']} FIX")
    for om in ms["omegas"]:
        lines.append(f"$OMEGA {om}")
    lines.append(f"$SIGMA {ms['sigma']}")
    lines.append(f"$ESTIMATION {ms['est']}")
    return "\n".join(lines) + "\n"


def gen_results_spec(rng, hostile_log=True):
    """Spec of a ModelfitResults; `pe` etc. are filled against the model's parameter names at build time."""
    def fl():
        return rng.choice([0.1 + 0.2, 1e-300, 1e300, -2.5, 0.0, 1 / 3, round(rng.uniform(-100, 100), rng.randint(0, 12)),
                           rng.uniform(-1e6, 1e6)])
    spec = {
        "ofv": rng.choice([fl(), fl(), None]),
        "pe": rng.random() < 0.8,
        "pe_vals": [fl() for _ in range(12)],
        "se": rng.random() < 0.4,
        "se_vals": [abs(fl()) for _ in range(12)],
        "cov": rng.random() < 0.3,
        "minimization_successful": rng.choice([True, False, None]),
        "significant_digits": rng.choice([None, 3.1, float(rng.randint(1, 9))]),
        "termination_cause": rng.choice([None, "rounding_errors", "maxevals_exceeded"]),
        "runtime_total": rng.choice([None, 12.5, 0.0]),
        "warnings": rng.choice([None, [], ["estimate_near_boundary"], ["final_zero_gradient", "x,y"]]),
        "log": [],
    }
    # (now and then a log long enough that positions have two digits: entry order must survive storage)
    for k in range(rng.choice([0, 0, 1, 2, 3, rng.randint(11, 24)])):
        msg = hostile(rng, long=rng.random() < 0.2, max_long=3000) if hostile_log and k < 3 else f"message number {k}"
        spec["log"].append([rng.choice(["ERROR", "WARNING"]), msg])
    return spec


def build_results(rs, model):
    import numpy as np
    import pandas as pd
    from pharmpy.workflows.log import Log
    from pharmpy.workflows.results import ModelfitResults

    names = list(model.parameters.names)
    n = len(names)
    pe = pd.Series([rs["pe_vals"][i % 12] for i in range(n)], index=names, dtype=float) if rs["pe"] else None
    se = pd.Series([rs["se_vals"][i % 12] for i in range(n)], index=names, dtype=float) if rs["se"] else None
    cov = None
    if rs["cov"]:
        a = np.array([[rs["se_vals"][(i + j) % 12] * (1 if i == j else 0.01) for j in range(n)] for i in range(n)])
        cov = pd.DataFrame((a + a.T) / 2, index=names, columns=names)
    log = Log()
    for cat, msg in rs["log"]:
        log = log.log_error(msg) if cat == "ERROR" else log.log_warning(msg)
    return ModelfitResults(ofv=rs["ofv"], parameter_estimates=pe, standard_errors=se, covariance_matrix=cov,
                           minimization_successful=rs["minimization_successful"],
                           significant_digits=rs["significant_digits"], termination_cause=rs["termination_cause"],
                           runtime_total=rs["runtime_total"], warnings=rs["warnings"], log=log)


def build(spec, srcdir):
    """-> list of entries (Model or ModelEntry as handed to the store calls), list of plain Models."""
    from pharmpy.model import Model
    from pharmpy.workflows import ModelEntry

    os.makedirs(srcdir, exist_ok=True)
    for i, ds in enumerate(spec["datasets"]):
        with open(os.path.join(srcdir, f"d{i}.csv"), "w") as f:
            f.write(dataset_text(ds))
    # `dscopy`: a second file with identical content, so that sharing is by content and not by path
    entries, models = [], []
    for j, ms in enumerate(spec["models"]):
        dsfile = f"d{ms['ds']}.csv"
        if ms.get("dscopy"):
            dsfile = f"d{ms['ds']}_copy{j}.csv"
            with open(os.path.join(srcdir, dsfile), "w") as f:
                f.write(dataset_text(spec["datasets"][ms["ds"]]))
        if ms.get("gen_text") is not None:
            text = ms["gen_text"].replace("DATAFILE", dsfile)
        else:
            text = model_text(ms, spec["datasets"][ms["ds"]], dsfile)
        p = os.path.join(srcdir, f"src{j}.mod")
        with open(p, "w") as f:
            f.write(text)
        try:
            m = Model.parse_model(p)
            _ = m.dataset
            if ms.get("gen_text") is not None:
                # precondition of the fidelity oracle: the model survives pharmpy's own write/read cycle outside any
                # database (re-spelled parameter records etc. are the business of C03/C04, not of the database)
                from pharmpy.modeling import write_model

                m1 = m.replace(name=ms["name"], description="plain text")
                p2 = os.path.join(srcdir, f"cycle{j}.mod")
                write_model(m1, p2, force=True)
                m2 = Model.parse_model(p2)
                if not (m2 == m1) or [(q.name, q.init, q.lower, q.upper, q.fix) for q in m2.parameters] != [
                        (q.name, q.init, q.lower, q.upper, q.fix) for q in m1.parameters]:
                    raise ValueError("write/read cycle outside the database is not exact")
        except Exception:
            if ms.get("gen_text") is None:
                raise
            # the grammar generator emitted something the model reader refuses (C01's business): use the template
            ms["gen_refused"] = True
            ms.pop("gen_text")
            ms["ds"] = 0
            with open(p, "w") as f:
                f.write(model_text(ms, spec["datasets"][0], "d0.csv"))
            m = Model.parse_model(p)
        m = m.replace(name=ms["name"], description=ms["desc"])
        try:  # a title that NONMEM code cannot carry is the model writer's refusal, not the database's business
            m.update_source().code.encode("latin-1")  # write_model writes latin-1
        except Exception:
            ms["desc_replaced"] = ms["desc"]
            ms["desc"] = "plain text"
            m = m.replace(description=ms["desc"])
        _ = m.dataset  # force loading now: children are forked from this state
        models.append(m)
        if ms.get("results") is not None:
            entries.append(ModelEntry.create(m, modelfit_results=build_results(ms["results"], m)))
        elif ms.get("as_entry"):
            entries.append(ModelEntry.create(m))
        else:
            entries.append(m)
    return entries, models


# ------------------------------------------------------------------------------------------------ workloads
SEVERITIES = ["info", "warning", "error"]


def gen_log_op(rng, nmodels, stratum_na=False, long=True, numeric=None):
    """numeric: None = any message, False = never a number/boolean-like one, True = only such (finding
    C16/log-message-numeric-coercion needs a log whose messages are ALL of that kind)."""
    msg = hostile(rng, na=stratum_na, long=long)
    while (not stratum_na and is_na_string(msg)) or (numeric is not None and not stratum_na and is_numeric_like(msg) != numeric):
        msg = hostile(rng, long=long)
    return {"op": "log", "sev": rng.choice(SEVERITIES), "msg": msg,
            "model": rng.randrange(nmodels) if rng.random() < 0.3 else None}


def gen_meta(rng):
    return {"tool": rng.choice(["modelsearch", "amd", "x"]), "n": rng.randint(0, 9), "msg": hostile(rng, long=False),
            "nested": {"a": [1, 2.5, None, True], "s": rng.choice(_WORDS)}}


def gen_crash_workload(rng):
    """<= 4 operations (after opening the context) over <= 3 models; model 1 shares model 0's dataset.
    strata: 'A' every model is stored at most once; 'restore' one model is stored a second time under another
    name (same key) - the listed finding C16/pending-marker-blocks-committed-entry needs exactly that."""
    stratum = "restore" if rng.random() < 0.2 else "A"
    nops = rng.choice([2, 2, 3, 3, 4])
    nmodels = 2 if nops == 4 else rng.choice([2, 2, 3])
    datasets = [gen_dataset(rng, wgt=False)]
    if nmodels == 3:
        datasets.append(gen_dataset(rng, wgt=False))
        while dataset_text(datasets[1]) == dataset_text(datasets[0]):
            datasets[1] = gen_dataset(rng, wgt=False)
    names = rng.sample(NAMES_PLAIN, nmodels)
    models = []
    for j in range(nmodels):
        ms = gen_model_spec(rng, 0 if j < 2 else 1, names[j], rng.choice(DESCS))
        if j == 1:
            ms["dscopy"] = rng.random() < 0.5
        r = rng.random()
        if r < 0.55 or j == 0:
            # (results are written after the model file: an entry with results is the one whose partial state differs
            # observably from its complete state, so every workload has at least one)
            ms["results"] = gen_results_spec(rng)
        elif r < 0.75:
            ms["as_entry"] = True
        models.append(ms)
    # two models of one workload must not collide in key: enforce different templates or thetas
    for j in range(1, nmodels):
        while any(models[j]["tmpl"] == models[i]["tmpl"] and models[j]["thetas"] == models[i]["thetas"] for i in range(j)):
            models[j]["thetas"][0]["init"] = round(models[j]["thetas"][0]["init"] + 0.125, 4)
    ops = []
    order = list(range(nmodels))
    if rng.random() < 0.5:
        order[0], order[1] = order[1], order[0]
    rng.shuffle(order) if rng.random() < 0.2 else None
    to_store = list(order)
    used_special = set()
    stored = []
    for i in range(nops):
        r = rng.random()
        if (i == 0 or r < 0.55) and to_store:
            j = to_store.pop(0)
            kind = rng.choices(["store", "store_input", "store_final", "db_store"], [0.6, 0.15, 0.15, 0.1])[0]
            if kind in used_special:
                kind = "store"
            if kind in ("store_input", "store_final"):
                used_special.add(kind)
            ops.append({"op": kind, "m": j})
            stored.append((j, kind))
        elif stratum == "restore" and stored and r < 0.8 and not any(o.get("again") for o in ops):
            j, kind0 = rng.choice(stored)
            kind = rng.choice([k for k in ("store", "store_input", "store_final") if k != kind0 and k not in used_special])
            if kind != "store":
                used_special.add(kind)
            ops.append({"op": kind, "m": j, "again": True})
        elif r < 0.75:
            ops.append(gen_log_op(rng, nmodels, long=rng.random() < 0.3, numeric=False))
        elif r < 0.83 and stored:
            j, kind0 = rng.choice(stored)
            nm = {"store": models[j]["name"], "store_input": "input", "store_final": "final"}.get(kind0)
            if nm is None:
                ops.append({"op": "retrieve_key", "m": j})
            else:
                text = rng.choice(DESCS + ["updated description", "x" * 300])
                ops.append({"op": "annot", "name": nm, "text": text})
        elif r < 0.9 or (ops and ops[-1]["op"] == "meta" and r < 0.95):
            # (a second store_metadata right after the first: the only way a committed metadata.json gets rewritten)
            ops.append({"op": "meta", "meta": gen_meta(rng)})
        elif stored:
            j, kind0 = rng.choice(stored)
            if kind0 == "db_store" or rng.random() < 0.4:
                ops.append({"op": "retrieve_key", "m": j})
            else:
                ops.append({"op": "retrieve", "m": j, "how": kind0})
        else:
            ops.append(gen_log_op(rng, nmodels, long=False, numeric=False))
    if stratum == "restore" and not any(o.get("again") for o in ops):
        stratum = "A"
    return {"kind": "crash", "stratum": stratum, "datasets": datasets, "models": models, "ops": ops}


def finite(x):
    return isinstance(x, (int, float)) and not (isinstance(x, float) and (math.isnan(x) or math.isinf(x)))
