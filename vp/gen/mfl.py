"""Independent reader, expander and generator for the model feature language (MFL).

Nothing in this file imports pharmpy's MFL grammar, interpreter or statement classes for *reading* text.  The
reader is a hand written recursive-descent parser built from the grammar comments in
``pharmpy/tools/mfl/grammar.py`` and ``docs/mfl.rst``; it expands a string to explicit per-category option sets

    S(x)[absorption|elimination|lagtime]            set of mode names
    S(x)[transits]                                  set of (count, 'DEPOT'|'NODEPOT')
    S(x)[peripherals]                               set of (count, 'DRUG'|'MET')
    S(x)[covariate]                                 set of (param, cov, fp, op, optional)
    S(x)[direct|effectcomp|metabolite]              set of mode names
    S(x)[indirect]                                  set of (mode, 'PRODUCTION'|'DEGRADATION')
    S(x)[allometry]                                 set of (covariate, reference)     (0 or 1 element)

A category that the text does not mention is ``None`` ("not given"); documented defaults are applied by
``with_defaults``.  ``observe`` extracts the same structure from a pharmpy ``ModelFeatures`` object by reading
its attributes only (no pharmpy algebra is called).
"""
from __future__ import annotations

import itertools
import random

ABSORPTION = ("FO", "ZO", "SEQ-ZO-FO", "INST")
ELIMINATION = ("FO", "ZO", "MM", "MIX-FO-MM")
LAGTIME = ("ON", "OFF")
DEPOT = ("DEPOT", "NODEPOT")
PERIPH_KIND = ("DRUG", "MET")
PDTYPE = ("LINEAR", "EMAX", "SIGMOID")
PRODUCTION = ("PRODUCTION", "DEGRADATION")
METABOLITE = ("PSC", "BASIC")
FP_ALL = ("LIN", "CAT", "CAT2", "PIECE_LIN", "EXP", "POW", "CUSTOM")
FP_CONTINUOUS = ("LIN", "PIECE_LIN", "EXP", "POW")  # "* for all continuous effects" (grammar.py comment)

PK_CATS = ("absorption", "elimination", "transits", "peripherals", "lagtime")
ALL_CATS = PK_CATS + ("covariate", "direct", "effectcomp", "indirect", "metabolite", "allometry")

# docs/modelsearch.rst "The search space" table
DEFAULTS = {
    "absorption": frozenset({"INST"}),
    "elimination": frozenset({"FO"}),
    "transits": frozenset({(0, "DEPOT")}),
    "peripherals": frozenset({(0, "DRUG")}),
    "lagtime": frozenset({"OFF"}),
}


class MFLSyntaxError(Exception):
    pass


class Wild(tuple):
    """The expansion of a `*`; behaves as the tuple of all options but remembers how it was written."""


# ------------------------------------------------------------------------------------------ reader
class _Reader:
    def __init__(self, text):
        self.s = text
        self.i = 0

    # -- low level
    def ws(self):
        while self.i < len(self.s) and self.s[self.i] == " ":
            self.i += 1

    def peek(self):
        self.ws()
        return self.s[self.i] if self.i < len(self.s) else ""

    def eat(self, ch):
        self.ws()
        if not self.s.startswith(ch, self.i):
            raise MFLSyntaxError(f"expected {ch!r} at {self.i}: {self.s[self.i:self.i + 12]!r}")
        self.i += len(ch)

    def maybe(self, ch):
        self.ws()
        if self.s.startswith(ch, self.i):
            self.i += len(ch)
            return True
        return False

    def word(self, alphabet):
        self.ws()
        j = self.i
        while j < len(self.s) and self.s[j] in alphabet:
            j += 1
        if j == self.i:
            raise MFLSyntaxError(f"expected a word at {self.i}: {self.s[self.i:self.i + 12]!r}")
        w = self.s[self.i:j]
        self.i = j
        return w

    LETTERS = "abcdefghijklmnopqrstuvwxyzABCDEFGHIJKLMNOPQRSTUVWXYZ"
    DIGITS = "0123456789"

    # -- option helpers
    def token(self, allowed):
        """One token out of `allowed` (case-insensitive, '-' and '_' belong to tokens)."""
        w = self.word(self.LETTERS + self.DIGITS + "-_").upper()
        if w not in allowed:
            raise MFLSyntaxError(f"{w!r} is not one of {allowed}")
        return w

    def tokens_or_wildcard(self, allowed, wildcard_value=None, allow_list=True):
        """token | [token, ...] | *   -> tuple of tokens"""
        if self.maybe("*"):
            return Wild(allowed if wildcard_value is None else wildcard_value)
        if allow_list and self.maybe("["):
            out = []
            if self.maybe("]"):
                return ()
            while True:
                out.append(self.token(allowed))
                if self.maybe("]"):
                    break
                self.eat(",")
            return tuple(out)
        return (self.token(allowed),)

    def number(self):
        return int(self.word(self.DIGITS))

    def counts(self):
        """number | a..b | [n, ...]"""
        if self.maybe("["):
            out = []
            if self.maybe("]"):
                return ()
            while True:
                out.append(self.number())
                if self.maybe("]"):
                    break
                self.eat(",")
            return tuple(out)
        a = self.number()
        if self.maybe(".."):
            b = self.number()
            return tuple(range(a, b + 1))  # "endpoints are included"
        return (a,)

    def value(self):
        return self.word(self.LETTERS + self.DIGITS + "-").upper()

    def values(self):
        if self.maybe("["):
            out = []
            if self.maybe("]"):
                return ()
            while True:
                out.append(self.value())
                if self.maybe("]"):
                    break
                self.eat(",")
            return tuple(out)
        return (self.value(),)

    def names_or_ref(self):
        """values | @ref | *  (parameter / covariate position of COVARIATE)"""
        if self.maybe("@"):
            return ("@", self.word(self.LETTERS + "_"))
        if self.maybe("*"):
            return ("*",)
        return ("v", self.values())

    # -- statements
    def statement(self):
        kw = self.word(self.LETTERS).upper()
        if kw == "COVARIATE":
            optional = self.maybe("?")
            self.eat("(")
            p = self.names_or_ref()
            self.eat(",")
            c = self.names_or_ref()
            self.eat(",")
            fp_wild = self.peek() == "*"
            fp = self.tokens_or_wildcard(FP_ALL, FP_CONTINUOUS)
            op = "*"  # add_covariate_effect's default operation
            if self.maybe(","):
                if self.maybe("+"):
                    op = "+"
                else:
                    self.eat("*")
            self.eat(")")
            return ("covariate", p, c, fp, op, optional, fp_wild)
        self.eat("(")
        if kw == "LET":
            name = self.word(self.LETTERS + "_")
            self.eat(",")
            vals = self.values()
            st = ("let", name, vals)
        elif kw == "ABSORPTION":
            st = ("absorption", self.tokens_or_wildcard(ABSORPTION))
        elif kw == "ELIMINATION":
            st = ("elimination", self.tokens_or_wildcard(ELIMINATION))
        elif kw == "LAGTIME":
            st = ("lagtime", self.tokens_or_wildcard(LAGTIME))
        elif kw == "TRANSITS":
            n = self.counts()
            d = ("DEPOT",)  # default: keep the depot (docs/modelsearch.rst default table)
            if self.maybe(","):
                d = self.tokens_or_wildcard(DEPOT)
            st = ("transits", n, d)
        elif kw == "PERIPHERALS":
            n = self.counts()
            k = ("DRUG",)  # "added for the drug compartment (default)"
            if self.maybe(","):
                k = self.tokens_or_wildcard(PERIPH_KIND)
            st = ("peripherals", n, k)
        elif kw == "DIRECTEFFECT":
            st = ("direct", self.tokens_or_wildcard(PDTYPE))
        elif kw == "EFFECTCOMP":
            st = ("effectcomp", self.tokens_or_wildcard(PDTYPE))
        elif kw == "INDIRECTEFFECT":
            m = self.tokens_or_wildcard(PDTYPE)
            self.eat(",")
            p = self.tokens_or_wildcard(PRODUCTION, allow_list=False)
            st = ("indirect", m, p)
        elif kw == "METABOLITE":
            st = ("metabolite", self.tokens_or_wildcard(METABOLITE))
        elif kw == "ALLOMETRY":
            cov = self.word(self.LETTERS + self.DIGITS + "-")
            ref = 70.0
            if self.maybe(","):
                w = self.word(self.DIGITS)
                if self.s.startswith(".", self.i) and not self.s.startswith("..", self.i):
                    self.i += 1
                    w += "." + self.word(self.DIGITS)
                ref = float(w)
            st = ("allometry", cov, ref)
        else:
            raise MFLSyntaxError(f"unknown feature category {kw!r}")
        self.eat(")")
        return st

    def program(self):
        out = [self.statement()]
        while True:
            self.ws()
            if self.i >= len(self.s):
                return out
            if self.s[self.i] in ";\n":
                self.i += 1
            else:
                raise MFLSyntaxError(f"expected a separator at {self.i}: {self.s[self.i:self.i + 12]!r}")
            out.append(self.statement())


def read_statements(text):
    """Text -> list of statement tuples (raises MFLSyntaxError)."""
    return _Reader(text).program()


def new_space():
    return {c: None for c in ALL_CATS}


def expand(text):
    """Text -> (S, info).  S maps category -> frozenset or None (not given).

    info: dict of structural facts used by the check for stratification/guards:
      'refs'        unresolved @references (names) remaining after LET substitution
      'lets'        dict name -> values, 'let_dups' True if a name is defined twice
      'empty'       True if some list / range in the text is empty (docs are silent about those)
      'param_wild'  True if a COVARIATE uses * in parameter/covariate position
      'mandatory_fp_wild' True if a mandatory COVARIATE uses * as effect
      'forced_twice' True if the same (param, cov) is forced by two explicit mandatory statements
    """
    sts = read_statements(text)
    S = new_space()
    info = {"refs": set(), "lets": {}, "let_dups": False, "empty": False, "param_wild": False,
            "mandatory_fp_wild": False, "forced_twice": False, "n_statements": len(sts),
            "wild": set(), "struct": {"peripherals": [], "indirect": [], "transits": []}}
    for st in sts:
        if st[0] == "let":
            if st[1] in info["lets"]:
                info["let_dups"] = True
            info["lets"][st[1]] = st[2]
            if not st[2]:
                info["empty"] = True

    def add(cat, items):
        items = frozenset(items)
        S[cat] = items if S[cat] is None else (S[cat] | items)

    forced = set()
    for st in sts:
        k = st[0]
        if k == "let":
            continue
        if k in ("absorption", "elimination", "lagtime", "direct", "effectcomp", "metabolite"):
            if not st[1]:
                info["empty"] = True
            if isinstance(st[1], Wild):
                info["wild"].add(k)
            add(k, st[1])
        elif k in ("transits", "peripherals", "indirect"):
            if not st[1] or not st[2]:
                info["empty"] = True
            if isinstance(st[2], Wild):
                info["wild"].add({"transits": "depot", "peripherals": "kind", "indirect": "indirect_prod"}[k])
            if isinstance(st[1], Wild):
                info["wild"].add("indirect_modes")
            if k == "indirect":
                info["struct"][k].append(("*" if isinstance(st[1], Wild) else tuple(st[1]),
                                          "*" if isinstance(st[2], Wild) else tuple(st[2])))
            else:
                info["struct"][k].append((frozenset(st[1]), frozenset(st[2])))
            add(k, itertools.product(st[1], st[2]))
        elif k == "allometry":
            S[k] = frozenset({(st[1], st[2])})  # a later ALLOMETRY replaces an earlier one: not generated
        elif k == "covariate":
            _, p, c, fp, op, optional, fp_wild = st

            def resolve(x):
                if x[0] == "v":
                    if not x[1]:
                        info["empty"] = True
                    return x[1]
                if x[0] == "*":
                    info["param_wild"] = True
                    return (("*",),)
                if x[1] in info["lets"]:
                    return info["lets"][x[1]]
                info["refs"].add(x[1])
                return (("@", x[1]),)

            ps, cs = resolve(p), resolve(c)
            if not fp:
                info["empty"] = True
            if fp_wild:
                info["wild"].add("fp")
            if fp_wild and not optional:
                info["mandatory_fp_wild"] = True
            if not optional and p[0] == "v" and c[0] == "v":
                for pc in itertools.product(ps, cs):
                    if pc in forced:
                        info["forced_twice"] = True
                    forced.add(pc)
            add("covariate", itertools.product(ps, cs, fp, (op,), (bool(optional),)))
    return S, info


def has_pk(S):
    return any(S[c] is not None for c in PK_CATS + ("metabolite",))


def with_defaults(S):
    """Apply the documented PK defaults when the description is about a PK model at all."""
    out = dict(S)
    if has_pk(S):
        for c in PK_CATS:
            if out[c] is None:
                out[c] = DEFAULTS[c]
    return out


def n_combinations(S):
    n = 1
    for c in ALL_CATS:
        if S[c]:
            n *= len(S[c]) + 1
    return n - 1


# ------------------------------------------------------------------------------------------ observation
class Malformed(Exception):
    pass


def _names(x, wildcard, what):
    """tuple of Name | Wildcard -> tuple of str (by attribute access only)."""
    if type(x).__name__ == "Wildcard":
        return tuple(wildcard)
    if not isinstance(x, tuple):
        raise Malformed(f"{what}: expected a tuple of names or a wildcard, found {x!r}")
    out = []
    for n in x:
        if type(n).__name__ != "Name":
            raise Malformed(f"{what}: element {n!r} is not a Name")
        out.append(n.name)
    return tuple(out)


def _counts(x, what):
    if not isinstance(x, tuple) or not all(isinstance(n, int) for n in x):
        raise Malformed(f"{what}: counts {x!r}")
    return x


def observe(mf):
    """ModelFeatures -> S by reading attributes (None = category absent)."""
    S = new_space()
    for cat, attr, wild in (("absorption", "absorption", ABSORPTION), ("elimination", "elimination", ELIMINATION),
                            ("lagtime", "lagtime", LAGTIME), ("direct", "direct_effect", PDTYPE),
                            ("effectcomp", "effect_comp", PDTYPE), ("metabolite", "metabolite", METABOLITE)):
        o = getattr(mf, attr)
        if o is not None:
            S[cat] = frozenset(_names(o.modes, wild, cat))
    if mf.transits:
        acc = set()
        for t in mf.transits:
            acc |= set(itertools.product(_counts(t.counts, "transits"), _names(t.depot, DEPOT, "transits")))
        S["transits"] = frozenset(acc)
    if mf.peripherals:
        acc = set()
        for t in mf.peripherals:
            acc |= set(itertools.product(_counts(t.counts, "peripherals"), _names(t.modes, PERIPH_KIND, "peripherals")))
        S["peripherals"] = frozenset(acc)
    if mf.indirect_effect:
        acc = set()
        for t in mf.indirect_effect:
            acc |= set(itertools.product(_names(t.modes, PDTYPE, "indirect"), _names(t.production, PRODUCTION, "indirect")))
        S["indirect"] = frozenset(acc)
    if mf.covariate:
        acc = set()
        for c in mf.covariate:
            def pc(x):
                tn = type(x).__name__
                if tn == "Ref":
                    return (("@", x.name),)
                if tn == "Wildcard":
                    return (("*",),)
                if not isinstance(x, tuple) or not all(isinstance(v, str) for v in x):
                    raise Malformed(f"covariate names {x!r}")
                return x
            fp = c.fp
            if type(fp).__name__ == "Wildcard":
                fp = FP_CONTINUOUS
            if not isinstance(fp, tuple) or not all(isinstance(v, str) for v in fp):
                raise Malformed(f"covariate fp {fp!r}")
            if c.op not in ("*", "+"):
                raise Malformed(f"covariate op {c.op!r}")
            acc |= set(itertools.product(pc(c.parameter), pc(c.covariate), fp, (c.op,), (bool(c.optional.option),)))
        S["covariate"] = frozenset(acc)
    if mf.allometry is not None:
        a = mf.allometry
        S["allometry"] = frozenset({(str(a.covariate), float(a.reference))})
    return S


def same_space(Sa, Sb, cats=ALL_CATS):
    """Equality of expanded spaces where an absent PK category means its documented default and an absent
    non-PK category means the empty set."""
    return not diff_space(Sa, Sb, cats)


def norm(S, cat):
    v = S[cat]
    if v is None:
        return DEFAULTS.get(cat, frozenset()) if cat in DEFAULTS and has_pk(S) else frozenset()
    return v


def diff_space(Sa, Sb, cats=ALL_CATS):
    out = {}
    for c in cats:
        a, b = norm(Sa, c), norm(Sb, c)
        if a != b:
            out[c] = (sorted(map(repr, a)), sorted(map(repr, b)))
    return out


# ------------------------------------------------------------------------------------------ feature keys
def feature_keys(S):
    """The transformation keys pharmpy's feature tables use, per category (dict cat -> set of keys)."""
    K = {}
    simple = {"absorption": "ABSORPTION", "elimination": "ELIMINATION", "lagtime": "LAGTIME", "direct": "DIRECT",
              "effectcomp": "EFFECTCOMP", "metabolite": "METABOLITE"}
    for c, name in simple.items():
        if S[c]:
            K[c] = {(name, m) for m in S[c]}
    if S["transits"]:
        K["transits"] = {("TRANSITS", n, d) for n, d in S["transits"]}
    if S["peripherals"]:
        K["peripherals"] = {("PERIPHERALS", n) if k == "DRUG" else ("PERIPHERALS", n, "METABOLITE")
                            for n, k in S["peripherals"]}
    if S["indirect"]:
        K["indirect"] = {("INDIRECT", m, p) for m, p in S["indirect"]}
    if S["covariate"]:
        ks = set()
        for p, c, fp, op, opt in S["covariate"]:
            ks.add(("COVARIATE", p, c, fp.lower(), op, "ADD"))
            if opt:
                ks.add(("COVARIATE", p, c, fp.lower(), op, "REMOVE"))
        K["covariate"] = ks
    if S["allometry"]:
        K["allometry"] = {("ALLOMETRY", cov, ref) for cov, ref in S["allometry"]}
    return K


def cartesian_combinations(K):
    """All non-empty choices of at most one key per category: set of frozensets of keys."""
    groups = [[None] + sorted(v, key=repr) for v in K.values()]
    out = set()
    for t in itertools.product(*groups):
        s = frozenset(k for k in t if k is not None)
        if s:
            out.add(s)
    return out


# ------------------------------------------------------------------------------------------ stepwise paths
# docs/modelsearch.rst "Feature combination exclusions"
DOC_EXCLUSIONS = (
    (("ABSORPTION", "ZO"), ("TRANSITS",)),
    (("ABSORPTION", "SEQ-ZO-FO"), ("TRANSITS",)),
    (("ABSORPTION", "SEQ-ZO-FO"), ("LAGTIME", "ON")),
    (("ABSORPTION", "INST"), ("LAGTIME", "ON")),
    (("ABSORPTION", "INST"), ("TRANSITS",)),
    (("LAGTIME", "ON"), ("TRANSITS",)),
)


def _excluded(f, g):
    for a, b in DOC_EXCLUSIONS:
        if (f[:len(a)] == a and g[:len(b)] == b) or (g[:len(a)] == a and f[:len(b)] == b):
            return True
    return False


def allowed_next(feats, prev):
    """Features that the documented rules allow as the next step after the *set* of features `prev`.

    Rules (docs/modelsearch.rst): one feature per category on a path; peripheral compartments are added in
    increasing order starting from the smallest count, one count at a time; the listed pairs never occur
    together."""
    out = []
    periph = sorted(f[1] for f in feats if f[0] == "PERIPHERALS")
    prev_p = sorted(f[1] for f in prev if f[0] == "PERIPHERALS")
    for f in feats:
        if f in prev:
            continue
        if f[0] == "PERIPHERALS":
            nxt = periph[len(prev_p)] if len(prev_p) < len(periph) else None
            if prev_p != periph[:len(prev_p)] or f[1] != nxt:
                continue
        elif any(g[0] == f[0] for g in prev):
            continue
        if any(_excluded(f, g) for g in prev):
            continue
        out.append(f)
    return out


def exhaustive_paths(feats):
    """Every path (tuple of features in application order) the documented rules allow."""
    out = []

    def rec(path):
        for f in allowed_next(feats, set(path)):
            p = path + (f,)
            out.append(p)
            rec(p)

    rec(())
    return out


def reduced_nodes(feats):
    """Candidates of the reduced stepwise search: (frozenset of features applied before, new feature).

    After every layer models with the same features are compared and the best is the basis of the next layer:
    one candidate per (reachable feature set, allowed next feature)."""
    layer = {frozenset()}
    out = []
    while layer:
        nxt = set()
        for F in layer:
            for f in allowed_next(feats, F):
                out.append((F, f))
                nxt.add(F | {f})
        layer = nxt
    return out


# ------------------------------------------------------------------------------------------ partitions / subsets
def bell(n):
    row = [1]
    for _ in range(n):
        new = [row[-1]]
        for x in row:
            new.append(new[-1] + x)
        row = new
    return row[0]


def ref_partitions(elems):
    """All set partitions as a set of frozensets of frozensets (restricted growth strings)."""
    elems = list(elems)
    n = len(elems)
    out = set()
    if n == 0:
        return {frozenset()}

    def rec(i, labels, k):
        if i == n:
            blocks = {}
            for e, lab in zip(elems, labels):
                blocks.setdefault(lab, set()).add(e)
            out.add(frozenset(frozenset(b) for b in blocks.values()))
            return
        for lab in range(k + 1):
            rec(i + 1, labels + [lab], max(k, lab + 1))

    rec(0, [], 0)
    return out


def ref_nonempty_subsets(elems):
    elems = list(elems)
    out = set()
    for mask in range(1, 1 << len(elems)):
        out.add(frozenset(e for j, e in enumerate(elems) if mask >> j & 1))
    return out


# ------------------------------------------------------------------------------------------ generator
# Spaces are generated as explicit option sets (S level) and then *rendered* to text in one of the many
# equivalent spellings the grammar allows.  Related pairs are derived at S level.
PARAM_POOL = ("CL", "V", "MAT", "KA", "Q", "VP1", "TVCL", "MDT")
COV_POOL = ("WGT", "AGE", "SEX", "APGR", "CRCL", "HT")
LET_NAMES = ("CONTINUOUS", "CATEGORICAL", "DISTRIBUTION", "MYPARS", "IIV", "my_covs", "Abc")


def _subset(rng, pool, weights=(40, 30, 15, 15)):
    pool = list(pool)
    k = rng.choices(range(1, len(weights) + 1), weights)[0]
    k = min(k, len(pool))
    return frozenset(rng.sample(pool, k))


def _count_set(rng, mx):
    r = rng.random()
    if r < 0.35:
        return frozenset({rng.randint(0, mx)})
    if r < 0.7:
        a = rng.randint(0, mx - 1)
        return frozenset(range(a, rng.randint(a, min(mx, a + 3)) + 1))
    return frozenset(rng.sample(range(0, mx + 1), rng.randint(1, 3)))


def gen_category(rng, cat, o):
    if cat == "absorption":
        return _subset(rng, ABSORPTION)
    if cat == "elimination":
        return _subset(rng, ELIMINATION)
    if cat == "lagtime":
        return _subset(rng, LAGTIME, (60, 40))
    if cat in ("direct", "effectcomp"):
        return _subset(rng, PDTYPE, (45, 30, 25))
    if cat == "metabolite":
        return _subset(rng, METABOLITE, (60, 40))
    if cat == "transits":
        cd = _count_set(rng, o.get("max_count", 5))
        r = rng.random()
        if not o.get("nodepot", True) or r < 0.5:
            return frozenset((n, "DEPOT") for n in cd)
        if r < 0.65:
            return frozenset((n, "NODEPOT") for n in cd)
        if r < 0.85:
            return frozenset((n, d) for n in cd for d in DEPOT)
        cn = _count_set(rng, o.get("max_count", 5))
        return frozenset((n, "DEPOT") for n in cd) | frozenset((n, "NODEPOT") for n in cn)
    if cat == "peripherals":
        cd = _count_set(rng, o.get("max_periph", 4))
        r = rng.random()
        if not o.get("met", True) or r < 0.7:
            return frozenset((n, "DRUG") for n in cd)
        if r < 0.8:
            return frozenset((n, "MET") for n in cd)
        if r < 0.9:
            return frozenset((n, k) for n in cd for k in PERIPH_KIND)
        cm = _count_set(rng, 2)
        return frozenset((n, "DRUG") for n in cd) | frozenset((n, "MET") for n in cm)
    if cat == "indirect":
        m = _subset(rng, PDTYPE, (45, 30, 25))
        r = rng.random()
        if r < 0.4:
            return frozenset((x, "PRODUCTION") for x in m)
        if r < 0.7:
            return frozenset((x, "DEGRADATION") for x in m)
        if r < 0.85:
            return frozenset((x, p) for x in m for p in PRODUCTION)
        m2 = _subset(rng, PDTYPE, (45, 30, 25))
        return frozenset((x, "PRODUCTION") for x in m) | frozenset((x, "DEGRADATION") for x in m2)
    if cat == "allometry":
        return frozenset({(rng.choice(COV_POOL), rng.choice([70.0, 1.0, 12.5, 100.0]))})
    if cat == "covariate":
        out = set()
        forced = {}
        for _ in range(rng.choice([1, 1, 2, 2, 3])):
            ps = _subset(rng, o.get("param_pool", PARAM_POOL), (50, 30, 20))
            cs = _subset(rng, o.get("cov_pool", COV_POOL), (60, 40))
            if o.get("refs") and rng.random() < 0.5:
                ps = frozenset({("@", rng.choice(o["refs"][0]))})
            if o.get("refs") and rng.random() < 0.4:
                cs = frozenset({("@", rng.choice(o["refs"][1]))})
            fps = frozenset(FP_CONTINUOUS) if rng.random() < 0.2 else _subset(rng, FP_ALL, (50, 30, 20))
            op = rng.choice(["*", "*", "+"])
            optional = rng.random() < o.get("p_optional", 0.6)
            if not optional:
                # pharmpy refuses the same (param, cov) forced by two statements: keep one operator per pair
                # and never force a pair twice
                if any((p, c) in forced for p in ps for c in cs) or any(isinstance(x, tuple) for x in ps | cs):
                    optional = True
                else:
                    for p in ps:
                        for c in cs:
                            forced[(p, c)] = op
            out |= set(itertools.product(ps, cs, fps, (op,), (optional,)))
        return frozenset(out)
    raise KeyError(cat)


def gen_space(rng, profile, o=None):
    """profile: 'pk' | 'pd' | 'cov' | 'mix' | 'pkfull' -> S (category -> frozenset | None)."""
    o = o or {}
    S = new_space()
    cats = []
    if profile in ("pk", "mix", "pkfull"):
        k = 5 if profile == "pkfull" else rng.randint(1, 5)
        cats += rng.sample(PK_CATS, k)
        if rng.random() < o.get("p_metabolite", 0.0):
            cats.append("metabolite")
    if profile in ("pd", "mix"):
        cats += rng.sample(("direct", "effectcomp", "indirect"), rng.randint(1, 3))
    if profile in ("cov", "mix"):
        cats.append("covariate")
    if o.get("allometry"):
        cats.append("allometry")
    for c in cats:
        S[c] = gen_category(rng, c, o)
    return S


def universe(cat, o=None):
    o = o or {}
    if cat == "absorption":
        return set(ABSORPTION)
    if cat == "elimination":
        return set(ELIMINATION)
    if cat == "lagtime":
        return set(LAGTIME)
    if cat in ("direct", "effectcomp"):
        return set(PDTYPE)
    if cat == "metabolite":
        return set(METABOLITE)
    if cat == "transits":
        return {(n, d) for n in range(0, o.get("max_count", 5) + 1) for d in (DEPOT if o.get("nodepot", True) else DEPOT[:1])}
    if cat == "peripherals":
        return {(n, k) for n in range(0, o.get("max_periph", 4) + 1) for k in (PERIPH_KIND if o.get("met", True) else PERIPH_KIND[:1])}
    if cat == "indirect":
        return {(m, p) for m in PDTYPE for p in PRODUCTION}
    return set()


def mutate_space(rng, S, relation, o=None):
    """Derive a related space: 'same' | 'subset' | 'superset' | 'perturb'."""
    o = o or {}
    T = dict(S)
    if relation == "same":
        return T
    cats = [c for c in ALL_CATS if S[c] and c != "allometry"]
    rng.shuffle(cats)
    changed = False
    for c in cats[: rng.randint(1, max(1, len(cats)))]:
        cur = set(S[c])
        if relation in ("subset", "perturb") and len(cur) > 1:
            for x in rng.sample(sorted(cur, key=repr), rng.randint(1, len(cur) - 1)):
                cur.discard(x)
                changed = True
        if relation in ("superset", "perturb"):
            if c == "covariate":
                p, cv, fp, op, opt = rng.choice(sorted(cur, key=repr))
                if isinstance(p, str) and isinstance(cv, str):
                    new = (rng.choice(PARAM_POOL), cv, fp, op, True) if rng.random() < 0.5 else (p, cv, rng.choice(FP_ALL), op, True)
                    if new not in cur and (new[:4] + (False,)) not in cur:
                        cur.add(new)
                        changed = True
            else:
                rest = sorted(universe(c, o) - cur, key=repr)
                if rest:
                    for x in rng.sample(rest, rng.randint(1, min(2, len(rest)))):
                        cur.add(x)
                        changed = True
        T[c] = frozenset(cur)
    return T


# -- rendering -------------------------------------------------------------------------------
class Renderer:
    """S -> text.  cfg keys (all default True/random): wildcard, canonical, case, spaces, split, let, ranges."""

    def __init__(self, rng, cfg=None):
        # every category is spelled from its own random stream: changing how one category is written (delta
        # checks) leaves the spelling of all others untouched
        self.base = rng.getrandbits(64)
        self.rng = random.Random(f"{self.base}:init")
        rng = self.rng
        self.cfg = {"wildcard": True, "kind_wildcard": True, "canonical": False, "case": True, "spaces": True, "split": True,
                    "let": True, "ranges": True, "dup": True, "allometry_ref": True}
        if cfg:
            self.cfg.update(cfg)
        self.case_style = rng.choice([0, 0, 1, 2, 3]) if self.cfg["case"] else 0
        self.lets = []
        self.let_used = set()

    def cs(self, w):
        st = self.case_style
        rng = self.rng
        if st == 0:
            return w
        if st == 1:
            return w.lower()
        if st == 2:
            return w.capitalize()
        return "".join(ch.lower() if rng.random() < 0.5 else ch.upper() for ch in w)

    def sp(self):
        if self.cfg["spaces"] and self.rng.random() < 0.12:
            return " " * self.rng.randint(1, 2)
        return ""

    def lst(self, items):
        return "[" + self.sp() + ("," + self.sp()).join(items) + self.sp() + "]"

    def modes(self, M, allowed, wildcard=True, allow_list=True, wild_value=None):
        rng = self.rng
        canonical = self.cfg["canonical"]
        full = set(M) == set(wild_value if wild_value is not None else allowed)
        if full and wildcard and self.cfg["wildcard"] and not canonical and rng.random() < 0.5:
            return "*"
        items = [m for m in allowed if m in M]
        if not canonical:
            rng.shuffle(items)
            if self.cfg["dup"] and allow_list and rng.random() < 0.06:
                items.append(rng.choice(items))
        if len(items) == 1 and (canonical or not allow_list or rng.random() < 0.7):
            return self.cs(items[0])
        assert allow_list, (M, allowed)
        return self.lst([self.cs(x) for x in items])

    def counts(self, C):
        rng = self.rng
        c = sorted(C)
        canonical = self.cfg["canonical"]
        if len(c) == 1 and (canonical or rng.random() < 0.7):
            return str(c[0])
        contiguous = c == list(range(c[0], c[-1] + 1))
        if contiguous and self.cfg["ranges"] and (canonical or rng.random() < 0.6) and len(c) > 1:
            return f"{c[0]}{self.sp()}..{self.sp()}{c[-1]}"
        if not canonical:
            rng.shuffle(c)
            if self.cfg["dup"] and rng.random() < 0.06:
                c.append(rng.choice(c))
        return self.lst([str(x) for x in c])

    def stmt(self, kw, *args, q=""):
        return self.cs(kw) + self.sp() + q + self.sp() + "(" + self.sp() + ("," + self.sp()).join(args) + self.sp() + ")"

    def split_sets(self, M):
        """Cover M by one or two (possibly overlapping) non-empty subsets: redundant descriptions."""
        M = sorted(M, key=repr)
        rng = self.rng
        if self.cfg["canonical"] or not self.cfg["split"] or len(M) < 2 or rng.random() < 0.75:
            return [set(M)]
        k = rng.randint(1, len(M) - 1)
        rng.shuffle(M)
        a, b = set(M[:k]), set(M[k:])
        if rng.random() < 0.4:
            b.add(rng.choice(sorted(a, key=repr)))
        return [a, b]

    def mode_category(self, kw, M, allowed):
        return [self.stmt(kw, self.modes(part, allowed)) for part in self.split_sets(M)]

    def pair_category(self, kw, pairs, seconds, default_second, wild_key):
        """TRANSITS / PERIPHERALS: set of (count, second)."""
        rng = self.rng
        canonical = self.cfg["canonical"]
        by = {s: {n for n, t in pairs if t == s} for s in seconds}
        by = {s: c for s, c in by.items() if c}
        out = []
        keys = [s for s in seconds if s in by]
        if len(keys) == 2 and by[keys[0]] == by[keys[1]] and (canonical or rng.random() < 0.7):
            for part in self.split_sets(by[keys[0]]):
                if self.cfg["wildcard"] and self.cfg.get(wild_key, True) and not canonical and rng.random() < 0.5:
                    sec = "*"
                else:
                    ks = list(keys)
                    if not canonical:
                        rng.shuffle(ks)
                    sec = self.lst([self.cs(k) for k in ks])
                out.append(self.stmt(kw, self.counts(part), sec))
            return out
        for s in keys:
            for part in self.split_sets(by[s]):
                args = [self.counts(part)]
                if s != default_second or (not canonical and rng.random() < 0.4):
                    args.append(self.cs(s) if canonical or rng.random() < 0.8 else self.lst([self.cs(s)]))
                out.append(self.stmt(kw, *args))
        return out

    def indirect(self, pairs):
        rng = self.rng
        canonical = self.cfg["canonical"]
        by = {p: {m for m, q in pairs if q == p} for p in PRODUCTION}
        by = {p: m for p, m in by.items() if m}
        keys = [p for p in PRODUCTION if p in by]
        out = []
        if len(keys) == 2 and by[keys[0]] == by[keys[1]] and self.cfg["wildcard"] and not canonical and rng.random() < 0.6:
            return [self.stmt("INDIRECTEFFECT", self.modes(by[keys[0]], PDTYPE), "*")]
        for p in keys:
            for part in self.split_sets(by[p]):
                out.append(self.stmt("INDIRECTEFFECT", self.modes(part, PDTYPE), self.cs(p)))
        return out

    def names(self, items, pool_kind):
        """List of names (or a reference); may go through a LET definition."""
        rng = self.rng
        items = sorted(items, key=repr)
        if len(items) == 1 and isinstance(items[0], tuple):
            return "@" + items[0][1]
        canonical = self.cfg["canonical"]
        if not canonical:
            rng.shuffle(items)
        if self.cfg["let"] and not canonical and rng.random() < 0.15:
            free = [n for n in LET_NAMES if n not in self.let_used]
            if free:
                name = rng.choice(free)
                self.let_used.add(name)
                self.lets.append(self.stmt("LET", name, self.lst([self.cs(x) for x in items]) if len(items) > 1 or rng.random() < 0.5 else self.cs(items[0])))
                return "@" + name
        if len(items) == 1 and (canonical or rng.random() < 0.7):
            return self.cs(items[0])
        return self.lst([self.cs(x) for x in items])

    def covariates(self, tuples):
        rng = self.rng
        out = []
        groups = {}
        for p, c, fp, op, opt in tuples:
            groups.setdefault((op, opt), {}).setdefault((p, c), set()).add(fp)
        for (op, opt), pcs in sorted(groups.items(), key=repr):
            # rectangles: same fp-set -> by param -> cov-set -> merge params with equal cov-set
            by_fps = {}
            for pc, fps in pcs.items():
                by_fps.setdefault(frozenset(fps), []).append(pc)
            for fps, lst in sorted(by_fps.items(), key=repr):
                by_p = {}
                for p, c in lst:
                    by_p.setdefault(p, set()).add(c)
                by_cs = {}
                for p, cs_ in by_p.items():
                    by_cs.setdefault(frozenset(cs_), set()).add(p)
                for cs_, ps in sorted(by_cs.items(), key=repr):
                    rects = [(ps, cs_, fps)]
                    if opt and not self.cfg["canonical"] and self.cfg["split"] and rng.random() < 0.2 and len(ps) > 1:
                        ps_l = sorted(ps, key=repr)
                        k = rng.randint(1, len(ps_l) - 1)
                        rects = [(set(ps_l[:k]), cs_, fps), (set(ps_l[k:]), cs_, fps)]
                    for ps_, cc, ff in rects:
                        # a reference may only stand alone in its position
                        for pgroup in self._ref_groups(ps_):
                            for cgroup in self._ref_groups(cc):
                                if opt and set(ff) == set(FP_CONTINUOUS) and self.cfg["wildcard"] and not self.cfg["canonical"] and rng.random() < 0.6:
                                    fp_txt = "*"
                                else:
                                    fp_txt = self.modes(ff, FP_ALL, wildcard=False)
                                args = [self.names(pgroup, "p"), self.names(cgroup, "c"), fp_txt]
                                if op == "+" or (not self.cfg["canonical"] and rng.random() < 0.3):
                                    args.append(op)
                                out.append(self.stmt("COVARIATE", *args, q="?" if opt else ""))
        return out

    @staticmethod
    def _ref_groups(items):
        plain = {x for x in items if not isinstance(x, tuple)}
        out = [{x} for x in items if isinstance(x, tuple)]
        if plain:
            out.append(plain)
        return out

    def use(self, cat):
        self.rng = random.Random(f"{self.base}:{cat}")

    def render(self, S, order=None):
        st = []
        for t in S["covariate"] or ():
            for x in t[:2]:
                if isinstance(x, tuple):
                    self.let_used.add(x[1])  # never define a symbol that the text uses as an automatic one
        if S["absorption"]:
            self.use("absorption")
            st.append(self.mode_category("ABSORPTION", S["absorption"], ABSORPTION))
        if S["elimination"]:
            self.use("elimination")
            st.append(self.mode_category("ELIMINATION", S["elimination"], ELIMINATION))
        if S["transits"]:
            self.use("transits")
            st.append(self.pair_category("TRANSITS", S["transits"], DEPOT, "DEPOT", "depot_wildcard"))
        if S["peripherals"]:
            self.use("peripherals")
            st.append(self.pair_category("PERIPHERALS", S["peripherals"], PERIPH_KIND, "DRUG", "kind_wildcard"))
        if S["lagtime"]:
            self.use("lagtime")
            st.append(self.mode_category("LAGTIME", S["lagtime"], LAGTIME))
        if S["covariate"]:
            self.use("covariate")
            st.append(self.covariates(S["covariate"]))
        if S["direct"]:
            self.use("direct")
            st.append(self.mode_category("DIRECTEFFECT", S["direct"], PDTYPE))
        if S["effectcomp"]:
            self.use("effectcomp")
            st.append(self.mode_category("EFFECTCOMP", S["effectcomp"], PDTYPE))
        if S["indirect"]:
            self.use("indirect")
            st.append(self.indirect(S["indirect"]))
        if S["metabolite"]:
            self.use("metabolite")
            st.append(self.mode_category("METABOLITE", S["metabolite"], METABOLITE))
        self.use("layout")
        rng = self.rng
        if S["allometry"]:
            (cov, ref), = S["allometry"]
            args = [cov]  # the covariate name of ALLOMETRY is kept verbatim (no case folding documented)
            if self.cfg["allometry_ref"]:
                args.append(str(int(ref)) if ref == int(ref) and rng.random() < 0.5 else repr(ref))
            st.append([self.stmt("ALLOMETRY", *args)])
        flat = [x for grp in st for x in grp]
        if not self.cfg["canonical"]:
            # statements of one category keep their relative order; categories are interleaved at random
            idx = list(range(len(flat)))
            rng.shuffle(idx)
            pos = sorted(idx)
            flat = [flat[i] for i in idx] if rng.random() < 0.5 else flat
        flat = self.lets + flat
        out = flat[0]
        for s in flat[1:]:
            sep = ";" if self.cfg["canonical"] else rng.choice([";", ";", "\n"])
            out += self.sp() + sep + self.sp() + s
        return out


def render(rng, S, cfg=None):
    return Renderer(rng, cfg).render(S)


def reduced_nodes_merge_only_if_several_groups(feats):
    """Model of the behaviour 'collector nodes are only inserted when a layer has MORE THAN ONE group of
    same-feature models' (used only to attribute a finding, never to judge)."""
    # a frontier node is (frozenset of features upstream incl. itself)
    out = []
    frontier = [frozenset()]  # multiset of upstream-feature sets of the current leaf nodes
    while True:
        groups = {}
        for F in frontier:
            groups.setdefault(F, 0)
            groups[F] += 1
        multi = [F for F, k in groups.items() if k > 1]
        if len(multi) > 1:
            new_frontier = []
            for F, k in groups.items():
                if k > 1 and allowed_next(feats, F):
                    new_frontier.append(F)  # merged into one collector
                else:
                    new_frontier.extend([F] * k)
            frontier = new_frontier
        nxt = []
        progressed = False
        for F in frontier:
            nxts = allowed_next(feats, F)
            if not nxts:
                continue
            for f in nxts:
                out.append((F, f))
                nxt.append(F | {f})
                progressed = True
        if not progressed:
            return out
        # leaves that could not be extended stay leaves but no longer matter for grouping of new layers:
        # pharmpy groups *all* output tasks, including old leaves
        frontier = nxt + [F for F in frontier if not allowed_next(feats, F)]
