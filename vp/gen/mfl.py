"""Independent reader, expander and generator for the model feature language (MFL).

Nothing in this file imports pharmpy's MFL grammar, interpreter or statement classes for *reading* text.  The
reader is a hand written recursive-descent parser built from the grammar comments in
``pharmpy/tools/mfl/grammar.py`` and ``docs/mfl.rst``; it expands a string to explicit per-category option sets

    S(x)[absorption|elimination|lagtime]            set of mode names
    S(x)[transits]                                  set of (count, 'DEPOT'|'NODEPOT')
    S(x)[peripherals]                               set of (count, 'DRUG'|'MET')
    S(x)[covariate]                                 set of (param, cov, fp, op, optional)
    S(x)[direct|effectcomp|metabolite]              set of mode names
    S(x)[indirect]                                  set of (mode, 'PRODUCTION'|'DEGRADATION')
    S(x)[allometry]                                 set of (covariate, reference)     (0 or 1 element)

A category that the text does not mention is ``None`` ("not given"); documented defaults are applied by
``with_defaults``.  ``observe`` extracts the same structure from a pharmpy ``ModelFeatures`` object by reading
its attributes only (no pharmpy algebra is called).
"""
from __future__ import annotations

import itertools

ABSORPTION = ("FO", "ZO", "SEQ-ZO-FO", "INST")
ELIMINATION = ("FO", "ZO", "MM", "MIX-FO-MM")
LAGTIME = ("ON", "OFF")
DEPOT = ("DEPOT", "NODEPOT")
PERIPH_KIND = ("DRUG", "MET")
PDTYPE = ("LINEAR", "EMAX", "SIGMOID")
PRODUCTION = ("PRODUCTION", "DEGRADATION")
METABOLITE = ("PSC", "BASIC")
FP_ALL = ("LIN", "CAT", "CAT2", "PIECE_LIN", "EXP", "POW", "CUSTOM")
FP_CONTINUOUS = ("LIN", "PIECE_LIN", "EXP", "POW")  # "* for all continuous effects" (grammar.py comment)

PK_CATS = ("absorption", "elimination", "transits", "peripherals", "lagtime")
ALL_CATS = PK_CATS + ("covariate", "direct", "effectcomp", "indirect", "metabolite", "allometry")

# docs/modelsearch.rst "The search space" table
DEFAULTS = {
    "absorption": frozenset({"INST"}),
    "elimination": frozenset({"FO"}),
    "transits": frozenset({(0, "DEPOT")}),
    "peripherals": frozenset({(0, "DRUG")}),
    "lagtime": frozenset({"OFF"}),
}


class MFLSyntaxError(Exception):
    pass


# ------------------------------------------------------------------------------------------ reader
class _Reader:
    def __init__(self, text):
        self.s = text
        self.i = 0

    # -- low level
    def ws(self):
        while self.i < len(self.s) and self.s[self.i] == " ":
            self.i += 1

    def peek(self):
        self.ws()
        return self.s[self.i] if self.i < len(self.s) else ""

    def eat(self, ch):
        self.ws()
        if not self.s.startswith(ch, self.i):
            raise MFLSyntaxError(f"expected {ch!r} at {self.i}: {self.s[self.i:self.i + 12]!r}")
        self.i += len(ch)

    def maybe(self, ch):
        self.ws()
        if self.s.startswith(ch, self.i):
            self.i += len(ch)
            return True
        return False

    def word(self, alphabet):
        self.ws()
        j = self.i
        while j < len(self.s) and self.s[j] in alphabet:
            j += 1
        if j == self.i:
            raise MFLSyntaxError(f"expected a word at {self.i}: {self.s[self.i:self.i + 12]!r}")
        w = self.s[self.i:j]
        self.i = j
        return w

    LETTERS = "abcdefghijklmnopqrstuvwxyzABCDEFGHIJKLMNOPQRSTUVWXYZ"
    DIGITS = "0123456789"

    # -- option helpers
    def token(self, allowed):
        """One token out of `allowed` (case-insensitive, '-' and '_' belong to tokens)."""
        w = self.word(self.LETTERS + self.DIGITS + "-_").upper()
        if w not in allowed:
            raise MFLSyntaxError(f"{w!r} is not one of {allowed}")
        return w

    def tokens_or_wildcard(self, allowed, wildcard_value=None, allow_list=True):
        """token | [token, ...] | *   -> tuple of tokens"""
        if self.maybe("*"):
            return tuple(allowed if wildcard_value is None else wildcard_value)
        if allow_list and self.maybe("["):
            out = []
            if self.maybe("]"):
                return ()
            while True:
                out.append(self.token(allowed))
                if self.maybe("]"):
                    break
                self.eat(",")
            return tuple(out)
        return (self.token(allowed),)

    def number(self):
        return int(self.word(self.DIGITS))

    def counts(self):
        """number | a..b | [n, ...]"""
        if self.maybe("["):
            out = []
            if self.maybe("]"):
                return ()
            while True:
                out.append(self.number())
                if self.maybe("]"):
                    break
                self.eat(",")
            return tuple(out)
        a = self.number()
        if self.maybe(".."):
            b = self.number()
            return tuple(range(a, b + 1))  # "endpoints are included"
        return (a,)

    def value(self):
        return self.word(self.LETTERS + self.DIGITS + "-").upper()

    def values(self):
        if self.maybe("["):
            out = []
            if self.maybe("]"):
                return ()
            while True:
                out.append(self.value())
                if self.maybe("]"):
                    break
                self.eat(",")
            return tuple(out)
        return (self.value(),)

    def names_or_ref(self):
        """values | @ref | *  (parameter / covariate position of COVARIATE)"""
        if self.maybe("@"):
            return ("@", self.word(self.LETTERS + "_"))
        if self.maybe("*"):
            return ("*",)
        return ("v", self.values())

    # -- statements
    def statement(self):
        kw = self.word(self.LETTERS).upper()
        if kw == "COVARIATE":
            optional = self.maybe("?")
            self.eat("(")
            p = self.names_or_ref()
            self.eat(",")
            c = self.names_or_ref()
            self.eat(",")
            fp_wild = self.peek() == "*"
            fp = self.tokens_or_wildcard(FP_ALL, FP_CONTINUOUS)
            op = "*"  # add_covariate_effect's default operation
            if self.maybe(","):
                if self.maybe("+"):
                    op = "+"
                else:
                    self.eat("*")
            self.eat(")")
            return ("covariate", p, c, fp, op, optional, fp_wild)
        self.eat("(")
        if kw == "LET":
            name = self.word(self.LETTERS + "_")
            self.eat(",")
            vals = self.values()
            st = ("let", name, vals)
        elif kw == "ABSORPTION":
            st = ("absorption", self.tokens_or_wildcard(ABSORPTION))
        elif kw == "ELIMINATION":
            st = ("elimination", self.tokens_or_wildcard(ELIMINATION))
        elif kw == "LAGTIME":
            st = ("lagtime", self.tokens_or_wildcard(LAGTIME))
        elif kw == "TRANSITS":
            n = self.counts()
            d = ("DEPOT",)  # default: keep the depot (docs/modelsearch.rst default table)
            if self.maybe(","):
                d = self.tokens_or_wildcard(DEPOT)
            st = ("transits", n, d)
        elif kw == "PERIPHERALS":
            n = self.counts()
            k = ("DRUG",)  # "added for the drug compartment (default)"
            if self.maybe(","):
                k = self.tokens_or_wildcard(PERIPH_KIND)
            st = ("peripherals", n, k)
        elif kw == "DIRECTEFFECT":
            st = ("direct", self.tokens_or_wildcard(PDTYPE))
        elif kw == "EFFECTCOMP":
            st = ("effectcomp", self.tokens_or_wildcard(PDTYPE))
        elif kw == "INDIRECTEFFECT":
            m = self.tokens_or_wildcard(PDTYPE)
            self.eat(",")
            p = self.tokens_or_wildcard(PRODUCTION, allow_list=False)
            st = ("indirect", m, p)
        elif kw == "METABOLITE":
            st = ("metabolite", self.tokens_or_wildcard(METABOLITE))
        elif kw == "ALLOMETRY":
            cov = self.word(self.LETTERS + self.DIGITS + "-")
            ref = 70.0
            if self.maybe(","):
                w = self.word(self.DIGITS)
                if self.s.startswith(".", self.i) and not self.s.startswith("..", self.i):
                    self.i += 1
                    w += "." + self.word(self.DIGITS)
                ref = float(w)
            st = ("allometry", cov, ref)
        else:
            raise MFLSyntaxError(f"unknown feature category {kw!r}")
        self.eat(")")
        return st

    def program(self):
        out = [self.statement()]
        while True:
            self.ws()
            if self.i >= len(self.s):
                return out
            if self.s[self.i] in ";\n":
                self.i += 1
            else:
                raise MFLSyntaxError(f"expected a separator at {self.i}: {self.s[self.i:self.i + 12]!r}")
            out.append(self.statement())


def read_statements(text):
    """Text -> list of statement tuples (raises MFLSyntaxError)."""
    return _Reader(text).program()


def new_space():
    return {c: None for c in ALL_CATS}


def expand(text):
    """Text -> (S, info).  S maps category -> frozenset or None (not given).

    info: dict of structural facts used by the check for stratification/guards:
      'refs'        unresolved @references (names) remaining after LET substitution
      'lets'        dict name -> values, 'let_dups' True if a name is defined twice
      'empty'       True if some list / range in the text is empty (docs are silent about those)
      'param_wild'  True if a COVARIATE uses * in parameter/covariate position
      'mandatory_fp_wild' True if a mandatory COVARIATE uses * as effect
      'forced_twice' True if the same (param, cov) is forced by two explicit mandatory statements
    """
    sts = read_statements(text)
    S = new_space()
    info = {"refs": set(), "lets": {}, "let_dups": False, "empty": False, "param_wild": False,
            "mandatory_fp_wild": False, "forced_twice": False, "n_statements": len(sts)}
    for st in sts:
        if st[0] == "let":
            if st[1] in info["lets"]:
                info["let_dups"] = True
            info["lets"][st[1]] = st[2]
            if not st[2]:
                info["empty"] = True

    def add(cat, items):
        items = frozenset(items)
        S[cat] = items if S[cat] is None else (S[cat] | items)

    forced = set()
    for st in sts:
        k = st[0]
        if k == "let":
            continue
        if k in ("absorption", "elimination", "lagtime", "direct", "effectcomp", "metabolite"):
            if not st[1]:
                info["empty"] = True
            add(k, st[1])
        elif k in ("transits", "peripherals", "indirect"):
            if not st[1] or not st[2]:
                info["empty"] = True
            add(k, itertools.product(st[1], st[2]))
        elif k == "allometry":
            S[k] = frozenset({(st[1], st[2])})  # a later ALLOMETRY replaces an earlier one: not generated
        elif k == "covariate":
            _, p, c, fp, op, optional, fp_wild = st

            def resolve(x):
                if x[0] == "v":
                    if not x[1]:
                        info["empty"] = True
                    return x[1]
                if x[0] == "*":
                    info["param_wild"] = True
                    return (("*",),)
                if x[1] in info["lets"]:
                    return info["lets"][x[1]]
                info["refs"].add(x[1])
                return (("@", x[1]),)

            ps, cs = resolve(p), resolve(c)
            if not fp:
                info["empty"] = True
            if fp_wild and not optional:
                info["mandatory_fp_wild"] = True
            if not optional and p[0] == "v" and c[0] == "v":
                for pc in itertools.product(ps, cs):
                    if pc in forced:
                        info["forced_twice"] = True
                    forced.add(pc)
            add("covariate", itertools.product(ps, cs, fp, (op,), (bool(optional),)))
    return S, info


def has_pk(S):
    return any(S[c] is not None for c in PK_CATS + ("metabolite",))


def with_defaults(S):
    """Apply the documented PK defaults when the description is about a PK model at all."""
    out = dict(S)
    if has_pk(S):
        for c in PK_CATS:
            if out[c] is None:
                out[c] = DEFAULTS[c]
    return out


def n_combinations(S):
    n = 1
    for c in ALL_CATS:
        if S[c]:
            n *= len(S[c]) + 1
    return n - 1


# ------------------------------------------------------------------------------------------ observation
class Malformed(Exception):
    pass


def _names(x, wildcard, what):
    """tuple of Name | Wildcard -> tuple of str (by attribute access only)."""
    if type(x).__name__ == "Wildcard":
        return tuple(wildcard)
    if not isinstance(x, tuple):
        raise Malformed(f"{what}: expected a tuple of names or a wildcard, found {x!r}")
    out = []
    for n in x:
        if type(n).__name__ != "Name":
            raise Malformed(f"{what}: element {n!r} is not a Name")
        out.append(n.name)
    return tuple(out)


def _counts(x, what):
    if not isinstance(x, tuple) or not all(isinstance(n, int) for n in x):
        raise Malformed(f"{what}: counts {x!r}")
    return x


def observe(mf):
    """ModelFeatures -> S by reading attributes (None = category absent)."""
    S = new_space()
    for cat, attr, wild in (("absorption", "absorption", ABSORPTION), ("elimination", "elimination", ELIMINATION),
                            ("lagtime", "lagtime", LAGTIME), ("direct", "direct_effect", PDTYPE),
                            ("effectcomp", "effect_comp", PDTYPE), ("metabolite", "metabolite", METABOLITE)):
        o = getattr(mf, attr)
        if o is not None:
            S[cat] = frozenset(_names(o.modes, wild, cat))
    if mf.transits:
        acc = set()
        for t in mf.transits:
            acc |= set(itertools.product(_counts(t.counts, "transits"), _names(t.depot, DEPOT, "transits")))
        S["transits"] = frozenset(acc)
    if mf.peripherals:
        acc = set()
        for t in mf.peripherals:
            acc |= set(itertools.product(_counts(t.counts, "peripherals"), _names(t.modes, PERIPH_KIND, "peripherals")))
        S["peripherals"] = frozenset(acc)
    if mf.indirect_effect:
        acc = set()
        for t in mf.indirect_effect:
            acc |= set(itertools.product(_names(t.modes, PDTYPE, "indirect"), _names(t.production, PRODUCTION, "indirect")))
        S["indirect"] = frozenset(acc)
    if mf.covariate:
        acc = set()
        for c in mf.covariate:
            def pc(x):
                tn = type(x).__name__
                if tn == "Ref":
                    return (("@", x.name),)
                if tn == "Wildcard":
                    return (("*",),)
                if not isinstance(x, tuple) or not all(isinstance(v, str) for v in x):
                    raise Malformed(f"covariate names {x!r}")
                return x
            fp = c.fp
            if type(fp).__name__ == "Wildcard":
                fp = FP_CONTINUOUS
            if not isinstance(fp, tuple) or not all(isinstance(v, str) for v in fp):
                raise Malformed(f"covariate fp {fp!r}")
            if c.op not in ("*", "+"):
                raise Malformed(f"covariate op {c.op!r}")
            acc |= set(itertools.product(pc(c.parameter), pc(c.covariate), fp, (c.op,), (bool(c.optional.option),)))
        S["covariate"] = frozenset(acc)
    if mf.allometry is not None:
        a = mf.allometry
        S["allometry"] = frozenset({(str(a.covariate), float(a.reference))})
    return S


def same_space(Sa, Sb, cats=ALL_CATS):
    """Equality of expanded spaces where an absent PK category means its documented default and an absent
    non-PK category means the empty set."""
    return not diff_space(Sa, Sb, cats)


def norm(S, cat):
    v = S[cat]
    if v is None:
        return DEFAULTS.get(cat, frozenset()) if cat in DEFAULTS and has_pk(S) else frozenset()
    return v


def diff_space(Sa, Sb, cats=ALL_CATS):
    out = {}
    for c in cats:
        a, b = norm(Sa, c), norm(Sb, c)
        if a != b:
            out[c] = (sorted(map(repr, a)), sorted(map(repr, b)))
    return out


# ------------------------------------------------------------------------------------------ feature keys
def feature_keys(S):
    """The transformation keys pharmpy's feature tables use, per category (dict cat -> set of keys)."""
    K = {}
    simple = {"absorption": "ABSORPTION", "elimination": "ELIMINATION", "lagtime": "LAGTIME", "direct": "DIRECT",
              "effectcomp": "EFFECTCOMP", "metabolite": "METABOLITE"}
    for c, name in simple.items():
        if S[c]:
            K[c] = {(name, m) for m in S[c]}
    if S["transits"]:
        K["transits"] = {("TRANSITS", n, d) for n, d in S["transits"]}
    if S["peripherals"]:
        K["peripherals"] = {("PERIPHERALS", n) if k == "DRUG" else ("PERIPHERALS", n, "METABOLITE")
                            for n, k in S["peripherals"]}
    if S["indirect"]:
        K["indirect"] = {("INDIRECT", m, p) for m, p in S["indirect"]}
    if S["covariate"]:
        ks = set()
        for p, c, fp, op, opt in S["covariate"]:
            ks.add(("COVARIATE", p, c, fp.lower(), op, "ADD"))
            if opt:
                ks.add(("COVARIATE", p, c, fp.lower(), op, "REMOVE"))
        K["covariate"] = ks
    if S["allometry"]:
        K["allometry"] = {("ALLOMETRY", cov, ref) for cov, ref in S["allometry"]}
    return K


def cartesian_combinations(K):
    """All non-empty choices of at most one key per category: set of frozensets of keys."""
    groups = [[None] + sorted(v, key=repr) for v in K.values()]
    out = set()
    for t in itertools.product(*groups):
        s = frozenset(k for k in t if k is not None)
        if s:
            out.add(s)
    return out


# ------------------------------------------------------------------------------------------ stepwise paths
# docs/modelsearch.rst "Feature combination exclusions"
DOC_EXCLUSIONS = (
    (("ABSORPTION", "ZO"), ("TRANSITS",)),
    (("ABSORPTION", "SEQ-ZO-FO"), ("TRANSITS",)),
    (("ABSORPTION", "SEQ-ZO-FO"), ("LAGTIME", "ON")),
    (("ABSORPTION", "INST"), ("LAGTIME", "ON")),
    (("ABSORPTION", "INST"), ("TRANSITS",)),
    (("LAGTIME", "ON"), ("TRANSITS",)),
)


def _excluded(f, g):
    for a, b in DOC_EXCLUSIONS:
        if (f[:len(a)] == a and g[:len(b)] == b) or (g[:len(a)] == a and f[:len(b)] == b):
            return True
    return False


def allowed_next(feats, prev):
    """Features that the documented rules allow as the next step after the *set* of features `prev`.

    Rules (docs/modelsearch.rst): one feature per category on a path; peripheral compartments are added in
    increasing order starting from the smallest count, one count at a time; the listed pairs never occur
    together."""
    out = []
    periph = sorted(f[1] for f in feats if f[0] == "PERIPHERALS")
    prev_p = sorted(f[1] for f in prev if f[0] == "PERIPHERALS")
    for f in feats:
        if f in prev:
            continue
        if f[0] == "PERIPHERALS":
            nxt = periph[len(prev_p)] if len(prev_p) < len(periph) else None
            if prev_p != periph[:len(prev_p)] or f[1] != nxt:
                continue
        elif any(g[0] == f[0] for g in prev):
            continue
        if any(_excluded(f, g) for g in prev):
            continue
        out.append(f)
    return out


def exhaustive_paths(feats):
    """Every path (tuple of features in application order) the documented rules allow."""
    out = []

    def rec(path):
        for f in allowed_next(feats, set(path)):
            p = path + (f,)
            out.append(p)
            rec(p)

    rec(())
    return out


def reduced_nodes(feats):
    """Candidates of the reduced stepwise search: (frozenset of features applied before, new feature).

    After every layer models with the same features are compared and the best is the basis of the next layer:
    one candidate per (reachable feature set, allowed next feature)."""
    layer = {frozenset()}
    out = []
    while layer:
        nxt = set()
        for F in layer:
            for f in allowed_next(feats, F):
                out.append((F, f))
                nxt.add(F | {f})
        layer = nxt
    return out


# ------------------------------------------------------------------------------------------ partitions / subsets
def bell(n):
    row = [1]
    for _ in range(n):
        new = [row[-1]]
        for x in row:
            new.append(new[-1] + x)
        row = new
    return row[0]


def ref_partitions(elems):
    """All set partitions as a set of frozensets of frozensets (restricted growth strings)."""
    elems = list(elems)
    n = len(elems)
    out = set()
    if n == 0:
        return {frozenset()}

    def rec(i, labels, k):
        if i == n:
            blocks = {}
            for e, lab in zip(elems, labels):
                blocks.setdefault(lab, set()).add(e)
            out.add(frozenset(frozenset(b) for b in blocks.values()))
            return
        for lab in range(k + 1):
            rec(i + 1, labels + [lab], max(k, lab + 1))

    rec(0, [], 0)
    return out


def ref_nonempty_subsets(elems):
    elems = list(elems)
    out = set()
    for mask in range(1, 1 << len(elems)):
        out.add(frozenset(e for j, e in enumerate(elems) if mask >> j & 1))
    return out


# ------------------------------------------------------------------------------------------ generator
PARAM_POOL = ("CL", "V", "MAT", "KA", "Q", "VP1", "TVCL", "MDT")
COV_POOL = ("WGT", "AGE", "SEX", "APGR", "CRCL", "HT")
LET_NAMES = ("CONTINUOUS", "CATEGORICAL", "DISTRIBUTION", "MYPARS", "IIV", "my_covs", "Abc")


def _case(rng, w, style):
    if style == 0:
        return w
    if style == 1:
        return w.lower()
    if style == 2:
        return w.capitalize()
    return "".join(ch.lower() if rng.random() < 0.5 else ch.upper() for ch in w)


class Gen:
    """Grammar driven generator.  `cfg` switches constructs on/off (stratification); `tags` records which
    constructs the produced text contains."""

    def __init__(self, rng, cfg=None):
        self.rng = rng
        self.cfg = {"wildcard": True, "lists": True, "ranges": True, "case": True, "spaces": True,
                    "dup_in_list": True, "max_count": 4}
        if cfg:
            self.cfg.update(cfg)
        self.tags = set()
        self.case_style = rng.choice([0, 0, 1, 2, 3]) if self.cfg["case"] else 0

    def cs(self, w):
        st = self.case_style
        if st == 3:
            st = self.rng.choice([0, 1, 2, 3])
        out = _case(self.rng, w, st)
        if out != w:
            self.tags.add("case")
        return out

    def sp(self):
        if self.cfg["spaces"] and self.rng.random() < 0.15:
            self.tags.add("spaces")
            return " " * self.rng.randint(1, 2)
        return ""

    def modes(self, allowed, allow_wild=True, allow_list=True, kmax=None):
        rng = self.rng
        r = rng.random()
        if allow_wild and self.cfg["wildcard"] and r < 0.15:
            self.tags.add("wildcard")
            return "*"
        if allow_list and self.cfg["lists"] and r < 0.6:
            k = rng.randint(1, min(len(allowed), kmax or len(allowed)))
            items = rng.sample(list(allowed), k)
            if self.cfg["dup_in_list"] and rng.random() < 0.08:
                items.append(rng.choice(items))
                self.tags.add("dup_in_list")
            self.tags.add("list")
            return "[" + self.sp() + ("," + self.sp()).join(self.cs(x) for x in items) + self.sp() + "]"
        return self.cs(rng.choice(list(allowed)))

    def counts(self):
        rng = self.rng
        mx = self.cfg["max_count"]
        r = rng.random()
        if self.cfg["ranges"] and r < 0.3:
            a = rng.randint(0, mx - 1)
            b = rng.randint(a, mx)
            self.tags.add("range")
            return f"{a}{self.sp()}..{self.sp()}{b}"
        if self.cfg["lists"] and r < 0.6:
            k = rng.randint(1, 3)
            items = rng.sample(range(0, mx + 1), k)
            if self.cfg["dup_in_list"] and rng.random() < 0.08:
                items.append(rng.choice(items))
                self.tags.add("dup_in_list")
            self.tags.add("list")
            return "[" + ("," + self.sp()).join(str(x) for x in items) + "]"
        return str(rng.randint(0, mx))

    def stmt(self, kw, *args):
        return self.cs(kw) + self.sp() + "(" + self.sp() + ("," + self.sp()).join(args) + self.sp() + ")"

    def names(self, pool, kmax=3):
        rng = self.rng
        if self.cfg["lists"] and rng.random() < 0.5:
            k = rng.randint(1, kmax)
            items = rng.sample(list(pool), k)
            return "[" + ("," + self.sp()).join(self.cs(x) for x in items) + "]"
        return self.cs(rng.choice(list(pool)))

    # one statement per call ------------------------------------------------------------------
    def absorption(self, allowed=ABSORPTION):
        return self.stmt("ABSORPTION", self.modes(allowed))

    def elimination(self):
        return self.stmt("ELIMINATION", self.modes(ELIMINATION))

    def lagtime(self):
        return self.stmt("LAGTIME", self.modes(LAGTIME))

    def transits(self, depot=True):
        args = [self.counts()]
        if depot and self.rng.random() < 0.6:
            d = self.modes(DEPOT)
            args.append(d)
            if "NODEPOT" in d.upper() or d == "*":
                self.tags.add("nodepot")
        return self.stmt("TRANSITS", *args)

    def peripherals(self, kind=True):
        args = [self.counts()]
        if kind and self.rng.random() < 0.4:
            d = self.modes(PERIPH_KIND)
            args.append(d)
            if "MET" in d.upper() or d == "*":
                self.tags.add("met")
        return self.stmt("PERIPHERALS", *args)

    def direct(self):
        return self.stmt("DIRECTEFFECT", self.modes(PDTYPE))

    def effectcomp(self):
        return self.stmt("EFFECTCOMP", self.modes(PDTYPE))

    def indirect(self):
        return self.stmt("INDIRECTEFFECT", self.modes(PDTYPE), self.modes(PRODUCTION, allow_list=False))

    def metabolite(self):
        return self.stmt("METABOLITE", self.modes(METABOLITE))

    def allometry(self, with_ref=True):
        args = [self.cs(self.rng.choice(COV_POOL))]
        if with_ref:
            args.append(self.rng.choice(["70", "70.0", "1", "12.5", "100"]))
        return self.stmt("ALLOMETRY", *args)

    def covariate(self, optional=None, params=None, covs=None, op=None):
        rng = self.rng
        if optional is None:
            optional = rng.random() < 0.6
        p = params if params is not None else self.names(PARAM_POOL)
        c = covs if covs is not None else self.names(COV_POOL, 2)
        r = rng.random()
        if optional and self.cfg["wildcard"] and r < 0.25:
            fp = "*"
            self.tags.add("wildcard")
        else:
            fp = self.modes(FP_ALL, allow_wild=False, kmax=3)
        args = [p, c, fp]
        if op is None:
            op = rng.choice([None, None, "*", "+"])
        if op:
            args.append(op)
        kw = self.cs("COVARIATE") + self.sp() + ("?" if optional else "")
        return kw + self.sp() + "(" + self.sp() + ("," + self.sp()).join(args) + self.sp() + ")"

    def let(self, name, pool):
        return self.stmt("LET", name, self.names(pool))

    def join(self, stmts):
        out = stmts[0]
        for s in stmts[1:]:
            sep = self.rng.choice([";", ";", "\n"])
            if sep == "\n":
                self.tags.add("newline")
            out += self.sp() + sep + self.sp() + s
        return out
