"""Reference WRITER for NONMEM output (C20).

Generates a synthetic NONMEM run: a control stream plus the output files NONMEM would leave next to it
(.ext, .phi, .cov/.cor/.coi, $TABLE files, .lst), rendered in the fixed-width layouts described in
/repo/docs/NONMEM.rst and observable in /repo/tests/testdata/nonmem/pheno_real.* :

  ext/phi/cov : header  ' ' + names left-justified in 13 characters (last one unpadded)
                integers '%13d', reals '%13.5E' (1X,ES12.5), OBJ: 3 blanks, sign slot, 17 significant digits
  $TABLE      : 'TABLE NO.  n', header ' ' + names left-justified in 12 characters, reals '%12.4E'
  parameter order in ext/cov: THETA, SIGMA, OMEGA, all lower-triangle elements present,
  FIX / unused elements: value constant, SE 1.00000E+10, flag 1 in row -1000000006, zero rows/cols in cov/cor/coi

Nothing in here imports pharmpy.  The *truth* returned with every file is float(token) of every number that was
actually printed, so comparisons are to printed precision by construction.
"""
from __future__ import annotations

import math

import numpy as np

FINAL, SE, EIGEN, CONDNUM, SDCORR, SE_SDCORR, FIXED, TERMSTAT, GRAD = (
    -1000000000, -1000000001, -1000000002, -1000000003, -1000000004, -1000000005, -1000000006,
    -1000000007, -1000000008)

CLASSICAL = [
    ("METHOD=0", "First Order", "MINIMUM VALUE OF OBJECTIVE FUNCTION"),
    ("METHOD=1", "First Order Conditional Estimation", "MINIMUM VALUE OF OBJECTIVE FUNCTION"),
    ("METHOD=1 INTER", "First Order Conditional Estimation with Interaction", "MINIMUM VALUE OF OBJECTIVE FUNCTION"),
    ("METHOD=1 LAPLACE", "Laplacian Conditional Estimation", "MINIMUM VALUE OF OBJECTIVE FUNCTION"),
    ("METHOD=1 LAPLACE INTER", "Laplacian Conditional Estimation with Interaction",
     "MINIMUM VALUE OF OBJECTIVE FUNCTION"),
]
EM = [
    ("METHOD=IMP INTER NITER=20", "Importance Sampling", "FINAL VALUE OF OBJECTIVE FUNCTION"),
    ("METHOD=ITS INTER NITER=20", "Iterative Two Stage", "FINAL VALUE OF OBJECTIVE FUNCTION"),
    ("METHOD=IMPMAP INTER NITER=20", "Importance Sampling assisted by MAP Estimation",
     "FINAL VALUE OF OBJECTIVE FUNCTION"),
]


# ------------------------------------------------------------------------------------------------ tokens
def etok(x, width=13, prec=5):
    """Fortran 1X,ES(width-1).prec as Python prints it; returns (text, value read back)."""
    s = "%*.*E" % (width, prec, x)
    if len(s) != width or s[0] != " ":
        raise ValueError(f"field overflow for {x!r}: {s!r}")  # generator must not produce touching fields
    return s, float(s)


def itok(i, width=13):
    s = "%*d" % (width, i)
    assert len(s) == width and s[0] == " "
    return s, int(s)


def objtok(x):
    """OBJ column: 3 blanks, sign slot, 17 significant digits (decimal notation for 0.1<=|x|<1e16)."""
    if x == 0:
        body = "0.0000000000000000"
    else:
        a = abs(x)
        if 0.1 <= a < 1e16:
            if a < 1:
                body = "%.17f" % a
            else:
                k = int(math.floor(math.log10(a))) + 1
                body = "%.*f" % (max(17 - k, 0), a)
                if len(body.split(".")[0]) != k:  # rounding carried into a new digit
                    body = "%.*f" % (max(17 - len(body.split(".")[0]), 0), a)
                if "." not in body:
                    body += "."
        else:
            m, e = ("%.16E" % a).split("E")
            body = "%sE%s%03d" % (m, e[0], int(e[1:]))
    s = "   " + ("-" if x < 0 else " ") + body
    return s, float(s)


def header(names, w=13):
    return " " + "".join(n.ljust(w) for n in names[:-1]) + names[-1] + "\n"


def title(no, method, goal=None, problem=1, subproblem=0):
    s = f"TABLE NO. {no:5d}: {method}: "
    if goal is not None:
        s += f"Goal Function={goal}: "
    s += f"Problem={problem} Subproblem={subproblem} Superproblem1=0 Iteration1=0 Superproblem2=0 Iteration2=0\n"
    return s


# ------------------------------------------------------------------------------------------------ numbers
def draw(rng, profile, sign="any", lo=-3, hi=3):
    """A number with 6 significant digits.  profile: plain | wide (2-digit exponents, both signs) |
    exp3 (additionally positive numbers with exponents down to E-300: a negative one would touch its neighbour)."""
    mant = rng.randint(100000, 999999) / 100000.0
    r = rng.random()
    if profile == "wide" and r < 0.35:
        e = rng.choice([rng.randint(-99, -10), rng.randint(10, 99), rng.randint(-20, 20)])
    elif profile == "exp3" and r < 0.2:
        return mant * 10.0 ** rng.randint(-300, -100)
    elif profile == "exp3" and r < 0.35:
        e = rng.randint(-99, -10)
    else:
        e = rng.randint(lo, hi)
    v = float("%.5E" % (mant * 10.0 ** e))
    if sign == "any" and rng.random() < 0.45:
        v = -v
    return v


def random_pd(rng, n, logcond):
    """Random correlation-like SPD matrix with 2-norm condition number about 10**logcond."""
    g = np.array([[rng.gauss(0, 1) for _ in range(n)] for _ in range(n)])
    q, _ = np.linalg.qr(g)
    if n == 1:
        ev = np.array([1.0])
    else:
        ev = np.array([10.0 ** (-logcond * i / (n - 1)) for i in range(n)])
    a = (q * ev) @ q.T
    a = (a + a.T) / 2
    d = np.sqrt(np.diag(a))
    return a / np.outer(d, d)


# ------------------------------------------------------------------------------------------------ spec
NAMES_T = ["TVCL", "TVV", "POP_KA", "TVQ", "THETA_X", "WT_EFF", "TVMAT", "CLPOP"]
NAMES_O = ["IIV_CL", "IVV", "IIV_KA", "OM_Q", "IIV_X"]
NAMES_S = ["RUV_PROP", "RUV_ADD", "SIGMA_X"]


def _lt_labels(prefix, n):
    return [f"{prefix}({i},{j})" for i in range(1, n + 1) for j in range(1, i + 1)]


def gen_spec(rng, profile, force=None):
    """Parameter configuration.  Every initial estimate is a distinct decimal so that a model parameter can be
    identified by its init without trusting pharmpy's name map."""
    force = force or {}
    pool = rng.sample(range(1, 1000), 60)
    used_names = set()

    def pick_name(cands, p=0.45):
        if rng.random() < p:
            c = [x for x in cands if x not in used_names]
            if c:
                n = rng.choice(c)
                used_names.add(n)
                return n
        return None

    nth = rng.randint(1, 6)
    thetas = []
    for i in range(nth):
        val = (2000 + pool.pop()) / 1000.0
        if rng.random() < 0.4:
            val = -val
        txt = repr(val)
        fix = rng.random() < 0.2
        form = rng.choice(["plain", "bounds", "lower", "inf"])
        if fix:
            rec = rng.choice([f"{txt} FIX", f"({txt} FIXED)", f"({txt}) FIX"])
        elif form == "plain":
            rec = txt
        elif form == "bounds":
            rec = f"({val - 10:.4f},{txt},{val + 10:.4f})"
        elif form == "lower":
            rec = f"({val - 10:.4f}, {txt})"
        else:
            rec = f"(-INF,{txt},INF)"
        thetas.append({"label": f"THETA({i + 1})", "init": float(txt), "fix": fix, "rec": rec,
                       "name": pick_name(NAMES_T)})
    if all(t["fix"] for t in thetas) or force.get("no_fix"):
        for t in thetas:
            if t["fix"]:
                t["fix"] = False
                t["rec"] = repr(t["init"])

    def gen_matrix(kind, nmax, names):
        """Returns (records text lines, elements dict label->{init, fix, name, structural})."""
        prefix = "OMEGA" if kind == "OMEGA" else "SIGMA"
        n = rng.randint(1, nmax)
        elems = {lab: {"label": lab, "init": 0.0, "fix": True, "structural": True, "name": None}
                 for lab in _lt_labels(prefix, n)}
        lines = []
        i = 1
        while i <= n:
            size = 1
            if n - i + 1 >= 2 and rng.random() < 0.45:
                size = rng.randint(2, min(3, n - i + 1))
            fix = rng.random() < 0.15 and not force.get("no_fix")
            if size == 1:
                val = (1000 + pool.pop()) / 1000.0
                txt = repr(val)
                zero_fix = kind == "OMEGA" and rng.random() < 0.04 and not force.get("no_fix") and "zf" not in used_names
                if zero_fix:
                    used_names.add("zf")
                    txt, val, fix = "0", 0.0, True
                name = pick_name(names)
                rec = f"${prefix} " + (f"{txt} FIX" if fix else txt)
                if name:
                    rec += f" ; {name}"
                lines.append(rec)
                elems[f"{prefix}({i},{i})"].update(init=val, fix=fix, structural=False, name=name)
            else:
                lines.append(f"${prefix} BLOCK({size})" + (" FIX" if fix else ""))
                one_per_line = rng.random() < 0.5
                for r in range(size):
                    row = []
                    for cidx in range(r + 1):
                        if cidx == r:
                            val = (1000 + pool.pop()) / 1000.0
                        else:
                            val = pool.pop() / 10000.0 * rng.choice([1, -1])
                        lab = f"{prefix}({i + r},{i + cidx})"
                        name = pick_name(names) if one_per_line else None
                        elems[lab].update(init=float(repr(val)), fix=fix, structural=False, name=name)
                        row.append((repr(val), name))
                    if one_per_line:
                        for t, nm in row:
                            lines.append(" " + t + (f" ; {nm}" if nm else ""))
                    else:
                        lines.append(" " + " ".join(t for t, _ in row))
            i += size
        return n, lines, elems

    neta, omega_lines, omegas = gen_matrix("OMEGA", 4, NAMES_O)
    neps, sigma_lines, sigmas = gen_matrix("SIGMA", 2, NAMES_S)

    # estimation steps
    nsteps = rng.choice([1, 1, 1, 2, 2, 3])
    steps = []
    for k in range(nsteps):
        if rng.random() < 0.7:
            opt, meth, goal = rng.choice(CLASSICAL)
            fam = "classical"
        else:
            opt, meth, goal = rng.choice(EM)
            fam = "em"
        ev = False
        if nsteps > 1 and rng.random() < 0.12 and fam == "classical":
            ev = True
        steps.append({"opt": opt + (" MAXEVALS=0" if ev else " MAXEVALS=9999" if fam == "classical" else ""),
                      "method": meth + (" (Evaluation)" if ev else ""), "goal": goal, "family": fam, "eval": ev})
    covstep = rng.random() < 0.75
    if force.get("cov"):
        covstep = True
    mu = {}
    if steps[-1]["family"] == "em" and rng.random() < 0.6:
        # MU referencing for a prefix of the etas: MU_i = THETA(k)
        for i in range(1, neta + 1):
            if rng.random() < 0.7:
                mu[i] = rng.randint(1, nth)
    return {"thetas": thetas, "neta": neta, "neps": neps, "omegas": omegas, "sigmas": sigmas,
            "omega_lines": omega_lines, "sigma_lines": sigma_lines, "steps": steps, "cov": covstep, "mu": mu,
            "profile": profile}


def ext_labels(spec):
    """File order: THETA, SIGMA, OMEGA; thetas labelled THETAn."""
    return ([f"THETA{i + 1}" for i in range(len(spec["thetas"]))] + list(spec["sigmas"]) + list(spec["omegas"]))


def _is_diag(label):
    if label.startswith("THETA"):
        return False
    i, j = label[6:-1].split(",")
    return i == j


def canon(label):
    """THETA3 -> THETA(3)"""
    if label.startswith("THETA") and "(" not in label:
        return f"THETA({label[5:]})"
    return label


def elements(spec):
    """canonical label -> element dict, in file order"""
    d = {}
    for t in spec["thetas"]:
        d[t["label"]] = dict(t, structural=False)
    d.update(spec["sigmas"])
    d.update(spec["omegas"])
    return {canon(k): d[canon(k)] for k in ext_labels(spec)}


# ------------------------------------------------------------------------------------------------ control stream
def render_model(spec, tables, nrec_ids, data_name="data.csv"):
    nth = len(spec["thetas"])
    lines = ["$PROBLEM synthetic run for C20", f"$DATA {data_name} IGNORE=@", "$INPUT ID TIME DV", "$PRED"]
    for i, k in sorted(spec["mu"].items()):
        lines.append(f"MU_{i} = THETA({k})")
    terms = []
    for i in range(1, spec["neta"] + 1):
        if i in spec["mu"]:
            lines.append(f"P{i} = MU_{i} + ETA({i})")
        else:
            lines.append(f"P{i} = THETA({min(i, nth)})*EXP(ETA({i}))")
        terms.append(f"P{i}")
    for k in range(1, nth + 1):
        terms.append(f"THETA({k})")
    lines.append("IPRED = " + " + ".join(terms))
    lines.append("W = 1")
    lines.append("Y = IPRED + " + " + ".join(f"W*EPS({j})" for j in range(1, spec["neps"] + 1)))
    for t in spec["thetas"]:
        lines.append("$THETA " + t["rec"] + (f" ; {t['name']}" if t["name"] else ""))
    lines += spec["omega_lines"] + spec["sigma_lines"]
    for st in spec["steps"]:
        lines.append("$ESTIMATION " + st["opt"])
    if spec["cov"]:
        lines.append("$COVARIANCE")
    for tb in tables:
        lines.append("$TABLE " + " ".join(tb["items"]) + " " + " ".join(tb["options"]) + f" FILE={tb['file']}")
    return "\n".join(lines) + "\n"


def render_dataset(rng, ids, nobs):
    rows = ["ID,TIME,DV"]
    for i in ids:
        for k in range(nobs):
            rows.append(f"{i},{k},{rng.randint(1, 99) / 10}")
    return "\n".join(rows) + "\n"


# ------------------------------------------------------------------------------------------------ ext
def gen_ext(rng, spec, layout):
    """Returns text, truth.  truth = list of tables {number, method, goal, labels, rows:[(iter, {label: v}, obj)]}
    layout: {'se_all_steps': bool, 'fixed_row': bool, 'eigen': bool}"""
    prof = spec["profile"]
    labels = ext_labels(spec)
    elems = elements(spec)
    text = []
    truth = []
    nsteps = len(spec["steps"])
    prev_final = None
    for k, st in enumerate(spec["steps"], start=1):
        last = k == nsteps
        tab = {"number": k, "method": st["method"], "goal": st["goal"], "labels": labels, "rows": [], "special": {}}
        text.append(title(k, st["method"], st["goal"]))
        text.append(header(["ITERATION"] + labels + ["OBJ"]))

        def row(it, vals, obj):
            s, itv = itok(it)
            rec = {}
            for lab, v in zip(labels, vals):
                t, fv = etok(v)
                s += t
                rec[lab] = fv
            t, ov = objtok(obj)
            s += t
            text.append(s + "\n")
            return itv, rec, ov

        def est_values(it0):
            vals = []
            for lab in labels:
                e = elems[canon(lab)]
                if e["structural"]:
                    vals.append(0.0)
                elif e["fix"]:
                    vals.append(e["init"])
                elif it0 and prev_final is None:
                    vals.append(e["init"])
                elif it0:
                    vals.append(prev_final[lab])
                elif _is_diag(lab):
                    vals.append(draw(rng, prof, sign="pos"))
                else:
                    vals.append(draw(rng, prof))
            return vals

        # iterations
        if st["eval"]:
            its = []  # MAXEVAL=0: only the special rows (tests/testdata/.../maxeval0.ext)
        else:
            n_it = rng.randint(1, 5)
            step = rng.choice([1, 1, 2, 5, 10, 250, 5000])
            its = sorted(set([0] + [step * i for i in range(1, n_it)] + [step * (n_it - 1) + rng.randint(0, step)]))
        lastvals, lastobj = est_values(True), _draw_obj(rng, prof)
        for it in its:
            vals = est_values(it == 0)
            obj = _draw_obj(rng, prof)
            r = row(it, vals, obj)
            tab["rows"].append(r)
            lastvals, lastobj = vals, obj
        # final row duplicates the last iteration (as NONMEM does)
        tab["special"][FINAL] = row(FINAL, lastvals, lastobj)
        prev_final = tab["special"][FINAL][1]
        has_se = spec["cov"] and (last or layout["se_all_steps"]) and not st["eval"]
        nonfixed = [lab for lab in labels if not elems[canon(lab)]["fix"]]
        tab["nonfixed"] = nonfixed
        if has_se:
            if last:
                ses = [spec["_se"].get(lab, 1e10) for lab in labels]
            else:
                ses = [1e10 if elems[canon(lab)]["fix"] else draw(rng, prof, sign="pos") for lab in labels]
            tab["special"][SE] = row(SE, ses, 0.0)
            if layout["eigen"]:
                ev = sorted(draw(rng, "plain", sign="pos") for _ in nonfixed)
                tab["special"][EIGEN] = row(EIGEN, ev + [0.0] * (len(labels) - len(ev)), 0.0)
            cn = [draw(rng, "plain", sign="pos", lo=0, hi=6), draw(rng, "plain", sign="pos"), draw(rng, "plain", sign="pos")]
            cn = cn[:len(labels)]
            tab["special"][CONDNUM] = row(CONDNUM, cn + [0.0] * (len(labels) - len(cn)), 0.0)
        # sd/corr form
        sd = []
        fin = tab["special"][FINAL][1]
        for lab in labels:
            if lab.startswith("THETA"):
                sd.append(0.0)
                continue
            pre = lab[:5]
            i, j = lab[6:-1].split(",")
            v = fin[lab]
            if i == j:
                sd.append(math.sqrt(v) if v >= 0 else 0.0)
            else:
                vi, vj = fin[f"{pre}({i},{i})"], fin[f"{pre}({j},{j})"]
                cr = 0.0
                if vi > 0 and vj > 0 and math.sqrt(vi) * math.sqrt(vj) > 0:
                    cr = v / (math.sqrt(vi) * math.sqrt(vj))
                    if not math.isfinite(cr) or abs(cr) >= 1e90 or abs(cr) < 1e-90:
                        cr = 0.0  # keeps every field within the 2-digit exponent layout
                sd.append(cr)
        tab["special"][SDCORR] = row(SDCORR, sd, 0.0)
        if has_se:
            sesd = [0.0 if lab.startswith("THETA") else (1e10 if elems[canon(lab)]["fix"] else draw(rng, prof, sign="pos"))
                    for lab in labels]
            tab["special"][SE_SDCORR] = row(SE_SDCORR, sesd, 0.0)
        if layout["fixed_row"]:
            tab["special"][FIXED] = row(FIXED, [1.0 if elems[canon(lab)]["fix"] else 0.0 for lab in labels], 0.0)
            ts = [float(rng.choice([0, 0, 1, 134])), float(rng.randint(1, 500))]
            ts = (ts + [0.0] * len(labels))[:len(labels)]
            tab["special"][TERMSTAT] = row(TERMSTAT, ts, 0.0)
            if st["family"] == "classical" and not st["eval"]:
                g = [0.0 if elems[canon(lab)]["fix"] else -abs(draw(rng, prof, sign="pos")) for lab in labels]
                if prof == "exp3":
                    g = [0.0 if elems[canon(lab)]["fix"] else -abs(draw(rng, "wide", sign="pos")) for lab in labels]
                tab["special"][GRAD] = row(GRAD, g, 0.0)
        truth.append(tab)
    return "".join(text), truth


def _draw_obj(rng, prof):
    r = rng.random()
    if r < 0.7:
        v = rng.uniform(-3000, 3000)
    elif r < 0.8:
        v = rng.uniform(-1, 1)
    elif r < 0.9:
        v = rng.uniform(-1, 1) * 10.0 ** rng.randint(3, 9)
    else:
        v = rng.uniform(-1, 1) * 10.0 ** rng.randint(-8, -1)
    if prof == "plain" and abs(v) < 1e-3:
        v = rng.uniform(1, 3000)
    return v


# ------------------------------------------------------------------------------------------------ phi
def gen_phi(rng, spec, ids, allzero):
    prof = spec["profile"]
    neta = spec["neta"]
    text, truth = [], []
    zero_var = [spec["omegas"][f"OMEGA({i},{i})"]["init"] == 0.0 and spec["omegas"][f"OMEGA({i},{i})"]["fix"]
                for i in range(1, neta + 1)]
    for k, st in enumerate(spec["steps"], start=1):
        pfx, cfx = ("PHI", "PHC") if st["family"] == "em" else ("ETA", "ETC")
        names = (["SUBJECT_NO", "ID"] + [f"{pfx}({i})" for i in range(1, neta + 1)]
                 + [f"{cfx}({i},{j})" for i in range(1, neta + 1) for j in range(1, i + 1)] + ["OBJ"])
        text.append(title(k, st["method"]))
        text.append(header(names))
        tab = {"number": k, "prefix": pfx, "names": names, "rows": []}
        for sno, i in enumerate(ids, start=1):
            s1, a = itok(sno)
            s2, b = itok(i)
            s = s1 + s2
            etas, etcs = [], []
            for e in range(neta):
                v = 0.0 if (i in allzero or zero_var[e]) else draw(rng, prof)
                t, fv = etok(v)
                s += t
                etas.append(fv)
            for r in range(neta):
                for cidx in range(r + 1):
                    if i in allzero or zero_var[r] or zero_var[cidx]:
                        v = 0.0
                    elif r == cidx:
                        v = draw(rng, prof, sign="pos")
                    else:
                        v = draw(rng, prof)
                    t, fv = etok(v)
                    s += t
                    etcs.append(fv)
            obj = 0.0 if i in allzero else _draw_obj(rng, prof)
            if obj == 0.0 and i not in allzero:
                obj = 1.5
            t, ov = objtok(obj)
            text.append(s + t + "\n")
            tab["rows"].append({"subject_no": a, "id": b, "etas": etas, "etcs": etcs, "obj": ov})
        truth.append(tab)
    return "".join(text), truth


# ------------------------------------------------------------------------------------------------ cov / cor / coi
def gen_uncertainty(rng, spec):
    """Draws the 'true' covariance matrix of the non-fixed parameters (file order) and stores the SEs."""
    labels = ext_labels(spec)
    elems = elements(spec)
    nonfixed = [lab for lab in labels if not elems[canon(lab)]["fix"]]
    n = len(nonfixed)
    prof = spec["profile"]
    r = rng.random()
    logcond_c = rng.uniform(0, 2) if r < 0.5 else rng.uniform(2, 4) if r < 0.85 else rng.uniform(4, 8)
    c = random_pd(rng, n, logcond_c if n > 1 else 0)
    if prof == "plain":
        spread = rng.uniform(0, 2)
        centre = rng.uniform(-1.5, 0.5)
    elif prof == "wide":
        spread = rng.uniform(0, 4)
        centre = rng.uniform(-20, 20)
    else:
        spread = rng.uniform(0, 3)
        centre = rng.uniform(-40, 0)
    sd = np.array([10.0 ** (centre + rng.uniform(-spread / 2, spread / 2)) for _ in range(n)])
    cov = c * np.outer(sd, sd)
    cov = (cov + cov.T) / 2
    spec["_nonfixed"] = nonfixed
    spec["_cov"] = cov
    spec["_se"] = {lab: float(math.sqrt(cov[i, i])) for i, lab in enumerate(nonfixed)}
    return cov


def gen_matrix_file(spec, kind, numbers_methods):
    """kind: cov | cor | coi.  numbers_methods: list of (table number, method, true cov matrix)"""
    labels = ext_labels(spec)
    nonfixed = spec["_nonfixed"]
    idx = {lab: i for i, lab in enumerate(nonfixed)}
    text, truth = [], []
    for number, method, cov in numbers_methods:
        sd = np.sqrt(np.diag(cov))
        if kind == "cov":
            m = cov
        elif kind == "cor":
            m = cov / np.outer(sd, sd)
            m = m.copy()
            m[np.diag_indices_from(m)] = sd  # NONMEM prints the standard errors on the diagonal
        else:
            cinv = np.linalg.inv(cov / np.outer(sd, sd))
            m = cinv / np.outer(sd, sd)
            m = (m + m.T) / 2
        text.append(title(number, method))
        text.append(header(["NAME"] + labels))
        mat = {}
        for a in labels:
            s = " " + a.ljust(12)
            for b in labels:
                v = float(m[idx[a], idx[b]]) if a in idx and b in idx else 0.0
                if a in idx and b in idx and idx[a] > idx[b]:
                    v = float(m[idx[b], idx[a]])  # print exactly symmetric numbers
                t, fv = etok(v)
                s += t
                mat[(a, b)] = fv
            text.append(s + "\n")
        truth.append({"number": number, "labels": labels, "nonfixed": nonfixed, "m": mat})
    return "".join(text), truth


# ------------------------------------------------------------------------------------------------ $TABLE files
def ttok(x):
    s = "%12.4E" % x
    if len(s) != 12 or s[0] != " ":
        raise ValueError(f"table field overflow {x!r}")
    return s, float(s)


def theader(names):
    return "".join(" " + n.ljust(11) for n in names[:-1]) + " " + names[-1] + "\n"


def draw4(rng, profile, sign="any"):
    v = draw(rng, profile, sign=sign)
    return float("%.4E" % v)


def gen_table_file(rng, profile, columns, nrows, number=1, with_title=True, with_labels=True, seg=None,
                   repeat_title=False, fixed_cols=None, zero_rows=()):
    """One $TABLE output 'table' as NONMEM prints it.  seg: label line (and title line when repeat_title) is
    repeated before every seg-th record (NONMEM: 900).  Returns text, rows (list of list of floats)."""
    out = []
    rows = []
    for r in range(nrows):
        if r == 0 or (seg and r % seg == 0):
            if with_title and (r == 0 or repeat_title):
                out.append(f"TABLE NO. {number:2d}\n")
            if with_labels:
                out.append(theader(columns))
        s = ""
        vals = []
        for cidx, cname in enumerate(columns):
            if fixed_cols and cname in fixed_cols:
                v = fixed_cols[cname][r]
            elif r in zero_rows and cname in ("RES", "WRES", "CWRES"):
                v = 0.0
            else:
                v = draw4(rng, profile)
            t, fv = ttok(v)
            s += t
            vals.append(fv)
        out.append(s + "\n")
        rows.append(vals)
    return "".join(out), rows


# ------------------------------------------------------------------------------------------------ lst
def gen_lst(rng, spec, model_text, ext_truth, layout):
    """A minimal results file with the tags pharmpy relies on (structure of tests/testdata/nonmem/pheno_real.lst)."""
    h, m, s = rng.randint(0, 22), rng.randint(0, 59), rng.randint(0, 59)
    dur = rng.randint(0, 3000)
    day = rng.randint(1, 27)
    tot = h * 3600 + m * 60 + s + dur
    dd, rem = divmod(tot, 86400)
    hh, mm, ss = rem // 3600, rem % 3600 // 60, rem % 60
    if rng.random() < 0.5:
        start = f"Sat Sep {day:2d} {h:02d}:{m:02d}:{s:02d} CEST 2018"
        stop = f"Sat Sep {day + dd:2d} {hh:02d}:{mm:02d}:{ss:02d} CEST 2018"
    else:  # the locale of tests/testdata/nonmem/pheno_real.lst
        start = f"l\u00f6r {day:2d} sep 2018 {h:02d}:{m:02d}:{s:02d} CEST"
        stop = f"l\u00f6r {day + dd:2d} sep 2018 {hh:02d}:{mm:02d}:{ss:02d} CEST"
    L = [start, model_text.rstrip("\n"), "", "NM-TRAN MESSAGES", "  ",
         " WARNINGS AND ERRORS (IF ANY) FOR PROBLEM    1", "             ",
         " (WARNING  2) NM-TRAN INFERS THAT THE DATA ARE POPULATION.", "",
         "1NONLINEAR MIXED EFFECTS MODEL PROGRAM (NONMEM) VERSION 7.4.2",
         " ORIGINALLY DEVELOPED BY STUART BEAL, LEWIS SHEINER, AND ALISON BOECKMANN", "",
         " PROBLEM NO.:         1", " synthetic run for C20", "0DATA CHECKOUT RUN:              NO",
         f"0LENGTH OF THETA:   {len(spec['thetas'])}", "1", "", ""]
    truth = {"runtime_total": float(dur), "steps": []}
    nsteps = len(spec["steps"])
    for k, st in enumerate(spec["steps"], start=1):
        last = k == nsteps
        L += [f" #TBLN:      {k}", f" #METH: {st['method']}", "", " ESTIMATION STEP OMITTED:                 " +
              ("YES" if st["eval"] else "NO"), " ANALYSIS TYPE:                           POPULATION", "",
              " MONITORING OF SEARCH:", "", ""]
        stt = {"number": k}
        if st["eval"]:
            L += [" #TERM:"]
            stt.update(success=None, fevals=None, sigdigs=None, cause=None)
        elif st["family"] == "classical":
            L += ["0ITERATION NO.:    0    OBJECTIVE VALUE:   587.366441346616        NO. OF FUNC. EVALS.:   6",
                  " CUMULATIVE NO. OF FUNC. EVALS.:        6",
                  " NPARAMETR:  4.6931E-03  1.0092E+00", " PARAMETER:  1.0000E-01  1.0000E-01",
                  " GRADIENT:   6.5761E+00  4.6216E+01", ""]
            L += [" #TERM:"]
            outcome = rng.choice(["ok", "ok", "ok", "however", "rounding", "rounding_unrep", "maxevals"])
            fe = rng.randint(1, 9999)
            sdg = rng.randint(10, 99) / 10
            if outcome == "ok":
                L += ["0MINIMIZATION SUCCESSFUL"]
                stt.update(success=True, cause=None)
            elif outcome == "however":
                L += ["0MINIMIZATION SUCCESSFUL", " HOWEVER, PROBLEMS OCCURRED WITH THE MINIMIZATION.",
                      " REGARD THE RESULTS OF THE ESTIMATION STEP CAREFULLY, AND ACCEPT THEM ONLY",
                      " AFTER CHECKING THAT THE COVARIANCE STEP PRODUCES REASONABLE OUTPUT."]
                stt.update(success=True, cause=None)
            elif outcome.startswith("rounding"):
                L += ["0MINIMIZATION TERMINATED", " DUE TO ROUNDING ERRORS (ERROR=134)"]
                stt.update(success=False, cause="rounding_errors")
            else:
                L += ["0MINIMIZATION TERMINATED", " DUE TO MAX. NO. OF FUNCTION EVALUATIONS EXCEEDED"]
                stt.update(success=False, cause="maxevals_exceeded")
            L += [f" NO. OF FUNCTION EVALUATIONS USED:{fe:9d}"]
            if outcome == "rounding_unrep":
                L += [" NO. OF SIG. DIGITS UNREPORTABLE"]
                sdg = float("nan")
            else:
                L += [f" NO. OF SIG. DIGITS IN FINAL EST.:{sdg:5.1f}"]
            stt.update(fevals=fe, sigdigs=sdg)
        else:
            L += [" iteration            0  OBJ=   729.67415857921799 eff.=     305. Smpl.=     300. Fit.= 0.96318", ""]
            L += [" #TERM:"]
            ok = rng.random() < 0.75
            L += [" OPTIMIZATION WAS COMPLETED" if ok else " OPTIMIZATION WAS NOT COMPLETED"]
            stt.update(success=ok, cause=None, fevals=None, sigdigs=None)
        final_obj = ext_truth[k - 1]["special"][FINAL][2]
        const = rng.randint(1, 99999) / 100.0
        _, with_const = objtok(final_obj + const)
        L += ["", " ETABAR IS THE ARITHMETIC MEAN OF THE ETA-ESTIMATES,",
              " AND THE P-VALUE IS GIVEN FOR THE NULL HYPOTHESIS THAT THE TRUE MEAN IS 0.", "",
              " ETABAR:         1.6884E-03 -1.1976E-03", " SE:             1.1692E-02  1.8795E-02", "",
              "  ", " TOTAL DATA POINTS NORMALLY DISTRIBUTED (N):          155",
              f" N*LOG(2PI) CONSTANT TO OBJECTIVE FUNCTION:{objtok(const)[0]}     ",
              f" OBJECTIVE FUNCTION VALUE WITHOUT CONSTANT:{objtok(final_obj)[0]}     ",
              f" OBJECTIVE FUNCTION VALUE WITH CONSTANT:   {objtok(final_obj + const)[0]}     ",
              " REPORTED OBJECTIVE FUNCTION DOES NOT CONTAIN CONSTANT", "  ", " #TERE:"]
        stt["ofv_with_constant"] = with_const
        et = rng.randint(0, 99999) / 100.0
        L += [f" Elapsed estimation  time in seconds: {et:8.2f}"]
        stt["runtime"] = float("%.2f" % et)
        has_cov = spec["cov"] and (last or layout["se_all_steps"]) and not st["eval"]
        if has_cov:
            L += [f" Elapsed covariance  time in seconds: {rng.randint(0, 9999) / 100.0:8.2f}"]
        stt["cov_ok"] = has_cov
        if last:
            L += [" Elapsed postprocess time in seconds:     0.09"]
        L += ["1", " ", " ",
              " ************************************************************************************************************************",
              " ********************                                                                                ********************",
              f" ********************{st['method'].upper().center(80)}********************",
              f" #OBJT:**************{st['goal'].center(80)}********************",
              " ********************                                                                                ********************",
              " ************************************************************************************************************************",
              " ", "", "", "",
              f" #OBJV:********************************************{('%.3f' % final_obj).center(22)}**************************************************",
              "1", " THETA - VECTOR OF FIXED EFFECTS PARAMETERS   *********", "", "         TH 1", " ",
              "         4.70E-03", " ", "1", "", ""]
        truth["steps"].append(stt)
    L += [" Elapsed finaloutput time in seconds:     0.02", " #CPUT: Total CPU Time in Seconds,        0.720",
          "Stop Time:", stop]
    return "\n".join(L) + "\n", truth
