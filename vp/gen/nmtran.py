"""Grammar-based generator of NM-TRAN control streams (+ a matching event dataset) for C01/C03/C04.

Everything is emitted as text; the meaning of the text is given by vp.nmtran_ref, not by this generator.
Strata (DESIGN.md C01): the `strata` argument is a set of construct names the program may contain beyond the
plain stratum A; each program records which ones it actually contains in `Gen.used`.
"""
from __future__ import annotations

import math

COVS = ["WGT", "AGE"]

ADVANS = {
    "ADVAN1": {"TRANS1": ["K"], "TRANS2": ["CL", "V"]},
    "ADVAN2": {"TRANS1": ["K", "KA"], "TRANS2": ["CL", "V", "KA"]},
    "ADVAN3": {"TRANS1": ["K", "K12", "K21"], "TRANS3": ["CL", "V", "Q", "VSS"], "TRANS4": ["CL", "V1", "Q", "V2"],
               "TRANS5": ["AOB", "ALPHA", "BETA"], "TRANS6": ["ALPHA", "BETA", "K21"]},
    "ADVAN4": {"TRANS1": ["K", "K23", "K32", "KA"], "TRANS3": ["CL", "V", "Q", "VSS", "KA"],
               "TRANS4": ["CL", "V2", "Q", "V3", "KA"], "TRANS5": ["AOB", "ALPHA", "BETA", "KA"],
               "TRANS6": ["ALPHA", "BETA", "K32", "KA"]},
    "ADVAN10": {"TRANS1": ["VM", "KM"]},
    "ADVAN11": {"TRANS1": ["K", "K12", "K21", "K13", "K31"], "TRANS4": ["CL", "V1", "Q2", "V2", "Q3", "V3"],
                "TRANS6": ["ALPHA", "BETA", "GAMMA", "K21", "K31"]},
    "ADVAN12": {"TRANS1": ["K", "K23", "K32", "K24", "K42", "KA"],
                "TRANS4": ["CL", "V2", "Q3", "V3", "Q4", "V4", "KA"],
                "TRANS6": ["ALPHA", "BETA", "GAMMA", "K32", "K42", "KA"]},
}
NCOMP = {"ADVAN1": 1, "ADVAN2": 2, "ADVAN3": 2, "ADVAN4": 3, "ADVAN10": 1, "ADVAN11": 3, "ADVAN12": 4}
CENTRAL = {"ADVAN1": 1, "ADVAN2": 2, "ADVAN3": 1, "ADVAN4": 2, "ADVAN10": 1, "ADVAN11": 1, "ADVAN12": 2}
FUNCS1 = ["EXP", "LOG", "SQRT", "ABS", "SIN", "COS", "ATAN", "LOG10", "PEXP", "PLOG", "PSQRT", "TAN", "ASIN", "ACOS",
          "INT", "GAMLN", "DEXP", "DLOG", "DSQRT", "PLOG10"]


class Gen:
    def __init__(self, rng, strata=(), simple=False):
        self.simple = simple  # plain parameter-record layouts (one value per $THETA, no xn/SD/CORR/CHOLESKY/SAME)
        self.rng = rng
        self.strata = set(strata)
        self.used = set()
        self.n_theta = 0
        self.n_eta = 0
        self.n_eps = 0

    # ------------------------------------------------------------------ literals / expressions
    def lit(self, positive=True):
        r = self.rng
        v = r.choice([0.5, 1.5, 2, 3, 0.25, 1.25, 4, 10, 0.1])
        form = r.randrange(6)
        if form == 0 and v == int(v):
            return str(int(v))
        if form == 1 and v == int(v):
            return f"{int(v)}."
        if form == 2:
            return f"{v:.3f}".rstrip("0") if v != int(v) else f"{v:.1f}"
        if form == 3:
            m, e = f"{v:E}".split("E")
            return f"{m.rstrip('0').rstrip('.')}E{int(e)}" if r.random() < 0.5 else f"{m.rstrip('0').rstrip('.')}D{int(e)}"
        if form == 4 and 0 < v < 1:
            return f"{v}".lstrip("0")
        return repr(float(v)) if v != int(v) else str(int(v))

    def atom(self, avail):
        r = self.rng
        x = r.random()
        if x < 0.55 and avail:
            return r.choice(avail)
        if x < 0.7 and self.n_theta:
            return f"THETA({r.randint(1, self.n_theta)})"
        return self.lit()

    def expr(self, avail, depth=0, positive=False):
        """Random expression text.  positive=True restricts to forms that stay positive for positive atoms."""
        r = self.rng
        if depth >= 3 or r.random() < 0.25:
            return self.atom(avail)
        k = r.random()
        a = self.expr(avail, depth + 1, positive)
        b = self.expr(avail, depth + 1, positive)
        if k < 0.22:
            b = f"({b})" if b.startswith("-") else b
            return f"{a} + {b}" if r.random() < 0.7 else f"({a} + {b})"
        if k < 0.40:
            return f"{self._mulop(a)}*{self._mulop(b)}"
        if k < 0.52:
            return f"{self._mulop(a)}/{self._atomic(b)}"
        if k < 0.62 and not positive:
            return f"{a} - {self._mulop(b)}"
        if k < 0.70:
            ex = r.choice(["2", "0.5", "(-1)", "2.0", "3", "1.5"])
            return f"{self._atomic(a)}**{ex}"
        if k < 0.74 and not positive:
            if "neg_literal_pow" in self.strata and r.random() < 0.6:
                self.used.add("neg_literal_pow")
                return f"(-{self.lit()}**2)"
            v = r.choice(avail) if avail else "WGT"
            return f"(-{v}**2)"  # -(v**2)
        if k < 0.78:
            return f"{self._atomic(self.lit())}**{self._atomic(self.lit())}**{r.choice(['2', '0.5'])}"  # right assoc
        if k < 0.82:
            return f"{self._mulop(a)}/{self._atomic(b)}/{self._atomic(self.atom(avail))}"  # left assoc
        if k < 0.86 and not positive:
            return f"{a} - {self._mulop(b)} - {self._mulop(self.atom(avail))}"
        if k < 0.97:
            f = r.choice(FUNCS1 if "all_funcs" in self.strata or True else FUNCS1[:6])
            if f in ("LOG", "SQRT", "LOG10", "DLOG", "DSQRT", "PLOG", "PSQRT", "PLOG10", "GAMLN"):
                inner = f"1 + ({a})**2" if not positive else a
                return f"{f}({inner})"
            if f in ("ASIN", "ACOS"):
                return f"{f}(SIN({a}))" if f == "ASIN" else f"{f}(COS({a}))"
            if f in ("EXP", "PEXP", "DEXP"):
                return f"{f}(({a})/10)"
            if f == "TAN":
                return f"TAN(({a})/(1 + ABS({a})))"
            return f"{f}({a})"
        if "mod_negative" in self.strata:
            self.used.add("mod_negative")
            return f"MOD(-ABS(7.3*({a})/(1 + ABS({a}))) - 0.3, {r.choice(['2', '2.5', '3.', '4', '1.5', '1D1'])})"
        # divisors exactly representable in binary: MOD is discontinuous, a decimal divisor such as 0.1 makes
        # the result depend on the last bit of the dividend
        # bounded dividend: MOD of a huge float is pure rounding noise
        return f"MOD(7.3*ABS({a})/(1 + ABS({a})), {r.choice(['2', '2.5', '3.', '4', '1.5', '0.5', '.25', '1D1'])})"

    @staticmethod
    def _atomic(s):
        s = s.strip()
        if all(ch.isalnum() or ch in "._" for ch in s):
            return s
        if s.endswith(")") and (s.split("(")[0].isalnum()) and s.count("(") == s.count(")") and _balanced_prefix(s):
            return s
        return f"({s})"

    @staticmethod
    def _mulop(s):
        # operand of * or /: needs parentheses if it contains a top-level + or - (or leading sign)
        depth = 0
        for i, ch in enumerate(s):
            if ch == "(":
                depth += 1
            elif ch == ")":
                depth -= 1
            elif ch in "+-" and depth == 0 and i > 0 and s[i - 1] not in "EeDd*(":
                return f"({s})"
        if s.startswith("-") or s.startswith("+"):
            return f"({s})"
        return s

    def cond(self, avail):
        r = self.rng
        v = r.choice(avail) if avail else "WGT"
        ops = [".GT.", ".LT.", ".GE.", ".LE.", ".EQ.", ".NE.", ">", "<", ">=", "<=", "==", "/="]
        base = f"{v}{r.choice(ops)}{self.lit()}"
        x = r.random()
        if x < 0.2:
            v2 = r.choice(avail)
            return f"{base}.AND.{v2}{r.choice(ops)}{self.lit()}"
        if x < 0.35:
            v2 = r.choice(avail)
            return f"{base} .OR. {v2}{r.choice(ops)}{self.lit()}"
        if x < 0.42:
            return f".NOT.{base}"
        if x < 0.56:
            # three or four relational atoms joined by .AND. / .OR. in any mixture WITHOUT parentheses (precedence:
            # .NOT. binds tighter than .AND., .AND. tighter than .OR.), an atom now and then negated
            parts = [base]
            for _ in range(r.randint(2, 3)):
                v2 = r.choice(avail) if avail else "WGT"
                atom = f"{v2}{r.choice(ops)}{self.lit()}"
                if r.random() < 0.15:
                    atom = f".NOT.{atom}"
                op = r.choice([".AND.", ".OR.", " .AND. ", " .OR. "])
                parts.append(op + atom)
            return "".join(parts)
        return base

    # ------------------------------------------------------------------ statements
    def statements(self, avail, n, prefix="V", cond_vars=None, targets=None):
        """n straight-line / IF statements.  Returns (lines, assigned names in order)."""
        r = self.rng
        lines = []
        assigned = []
        cond_vars = list(cond_vars or COVS)
        for _ in range(n):
            pool = avail + assigned
            k = r.random()
            if targets:
                name = r.choice(targets)
            elif assigned and r.random() < 0.2:
                name = r.choice(assigned)  # reassignment
            else:
                name = f"{prefix}{len(assigned) + 1}"
            if k < 0.5:
                e = self.expr(pool)
                if name in assigned and r.random() < 0.4:
                    e = f"{name} + {e}" if r.random() < 0.5 else f"{name}*({e})"
                lines.append(f"{name} = {e}")
                if name not in assigned:
                    assigned.append(name)
            elif k < 0.7:
                # logical IF on an already assigned variable (keeps previous value otherwise)
                if not assigned:
                    lines.append(f"{name} = {self.expr(pool)}")
                    assigned.append(name)
                    continue
                tgt = r.choice(assigned)
                e = self.expr(pool)
                if r.random() < 0.4:
                    e = f"{tgt}*({e})"
                lines.append(f"IF ({self.cond(cond_vars + assigned)}) {tgt} = {e}")
            else:
                lines += self.block_if(pool, assigned, cond_vars, name)
        return lines, assigned

    def block_if(self, pool, assigned, cond_vars, newname):
        """Stratum A block IF: no nesting; every branch assigns the same symbols exactly once (plus, sometimes, one
        symbol with a previous value that only the IF branch re-assigns); an ELSE is present unless every assigned
        symbol already has a value; conditions never read a symbol the block assigns."""
        r = self.rng
        strata = self.strata
        nbr = r.randint(1, 3)
        has_else = r.random() < 0.7
        # targets
        targets = []
        if assigned and r.random() < 0.6:
            targets.append(r.choice(assigned))
        if not targets or r.random() < 0.5:
            targets.append(newname)
        targets = list(dict.fromkeys(targets))
        new_targets = [t for t in targets if t not in assigned]
        if new_targets and not has_else:
            has_else = True  # a new symbol must be defined on every path
        cvars = [v for v in cond_vars + assigned if v not in targets] or list(COVS)
        lines = []
        special = None
        cand = [s for s in ("nested_if", "double_assign", "cond_var_modified", "else_only", "elseif_only") if s in strata]
        if cand and r.random() < 0.8:
            special = r.choice(cand)
        if special == "cond_var_modified" and not [t for t in targets if t in assigned]:
            special = None
        if_only = None
        if special is None and r.random() < 0.35:
            cand_io = [t for t in assigned if t not in targets]
            if cand_io:
                if_only = r.choice(cand_io)
                cvars = [v for v in cvars if v != if_only] or list(COVS)
        for b in range(nbr):
            kw = "IF" if b == 0 else "ELSE IF"
            cond_tag = False
            if special == "cond_var_modified" and b == 0:
                t0 = [t for t in targets if t in assigned][0]
                c = f"{t0}.GT.{self.lit()}"
                cond_tag = True
                self.used.add("cond_var_modified")
                # make sure t0 is assigned first in the branch, then another symbol
                order = [t0] + [t for t in targets if t != t0]
                if len(order) == 1:
                    order.append(newname if newname != t0 else newname + "B")
                    targets = order
                    if not has_else:
                        has_else = True
            else:
                c = self.cond(cvars)
                order = targets
            lines.append(f"{kw} ({c}) THEN" + (" ;#C" if cond_tag else ""))
            for t in order:
                lines.append(f"  {t} = {self.expr([p for p in pool if p not in new_targets])}")
            if b == 0 and if_only is not None:
                # a symbol that already has a value is re-assigned in the IF branch only (the other branches, also an
                # ELSE, leave it alone): on those paths it keeps its previous value
                lines.append(f"  {if_only} = {self.expr([p for p in pool if p not in new_targets])}")
            if special == "double_assign" and b == 0:
                t = order[0]
                lines.append(f"  {t} = {t}*{self.lit()} ;#S")
                self.used.add("double_assign")
            if special == "nested_if" and b == 0:
                t = order[0]
                lines.append(f"  IF ({self.cond(cvars)}) {t} = {self.expr(pool)} ;#S")
                self.used.add("nested_if")
        if has_else:
            lines.append("ELSE")
            for t in targets:
                if r.random() < 0.25:
                    lines.append(f"  {t} = {r.choice(['0', '0.0', '0', '1'])}")  # a constant fallback branch
                else:
                    lines.append(f"  {t} = {self.expr([p for p in pool if p not in new_targets])}")
        if special == "else_only" and assigned:
            # a symbol with a previous value assigned only in the ELSE branch
            t = r.choice(assigned)
            if t not in targets:
                if not has_else:
                    lines.append("ELSE")
                    has_else = True
                lines.append(f"  {t} = {self.expr(pool)} ;#S")
                self.used.add("else_only")
        if special == "elseif_only" and assigned and nbr >= 2:
            t = r.choice(assigned)
            if t not in targets:
                # insert into the first ELSE IF branch
                for i, l in enumerate(lines):
                    if l.startswith("ELSE IF"):
                        lines.insert(i + 1, f"  {t} = {self.expr(pool)} ;#S")
                        self.used.add("elseif_only")
                        break
        lines.append(r.choice(["ENDIF", "END IF"]))
        for t in targets:
            if t not in assigned:
                assigned.append(t)
        return lines

    # ------------------------------------------------------------------ parameter records
    def theta_records(self, n, positive=None):
        """-> (record text, list of (init, lower, upper, fix)).  positive[i]: theta must be > 0."""
        r = self.rng
        self.n_theta = n
        items = []
        vals = []
        i = 0
        while i < n:
            pos = positive[i] if positive else False
            init = round(r.uniform(0.2, 3.0), r.choice([1, 2, 3]))
            form = r.randrange(8)
            lo_s = r.choice(["0", "0.0", "0.01", "1E-3"]) if pos or r.random() < 0.5 else r.choice(["-5", "-INF", "-1000000"])
            up_s = r.choice(["10", "100.0", "1000000", "50", "20"]) if r.random() < 0.93 else "INF"
            lo = -math.inf if lo_s in ("-INF", "-1000000") else float(lo_s)
            up = math.inf if up_s in ("INF", "1000000") else float(up_s)
            fix = r.random() < 0.15
            if pos and form in (0, 3):
                form = 1
            if self.simple:
                form = r.choice([1, 2]) if pos else r.choice([0, 1, 2])
            if form == 0:
                txt = f"{init}" + (" FIX" if fix else "")
                v = (init, -math.inf, math.inf, fix)
            elif form == 1:
                txt = f"({lo_s},{init})" + (" FIX" if fix else "")
                v = (init, lo, math.inf, fix)
            elif form == 2:
                txt = f"({lo_s}, {init}, {up_s})" + (" FIX" if fix else "")
                v = (init, lo, up, fix)
            elif form == 3:
                txt = f"({init})" + (" FIX" if fix else "")
                v = (init, -math.inf, math.inf, fix)
            elif form == 4:
                if fix and not pos:
                    txt = f"({init} FIX)"
                    v = (init, -math.inf, math.inf, True)
                else:
                    txt = f"({lo_s},{init},{up_s})"
                    v = (init, lo, up, False)
            elif form == 5:
                txt = f"({lo_s} {init} {up_s})" + (" FIXED" if fix else "")
                v = (init, lo, up, fix)
            elif form == 6 and i + 1 < n and (not positive or (positive[i + 1] == pos)):
                k = min(n - i, r.randint(2, 3))
                if positive and any(positive[i + j] != pos for j in range(k)):
                    k = 1
                if k > 1:
                    sp = "" if r.random() < 0.15 else " "
                    txt = f"({lo_s},{init}){sp}x{k}" if pos else f"({init})x{k}"
                    v = (init, lo if pos else -math.inf, math.inf, False)
                    items.append((txt, k))
                    vals += [v] * k
                    i += k
                    continue
                txt = f"({lo_s},{init})"
                v = (init, lo, math.inf, False)
            else:
                txt = f"({lo_s},{init},{up_s})"
                v = (init, lo, up, False)
            items.append((txt, 1))
            vals.append(v)
            i += 1
        # layout: group items into records
        recs = []
        j = 0
        while j < len(items):
            k = 1 if self.simple else r.choice([1, 1, 2, 3])
            grp = items[j:j + k]
            j += k
            if self.simple or r.random() < 0.5:
                recs.append("$THETA " + " ".join(t for t, _ in grp))
            else:
                recs.append("$THETA\n" + "\n".join(f" {t} ; TH{j}_{q}" for q, (t, _) in enumerate(grp)))
        return "\n".join(recs), vals

    def omega_records(self, n, rec="$OMEGA", allow_same=True):
        """-> text.  n random effects in random block layout with positive definite blocks."""
        r = self.rng
        out = []
        left = n
        prev_block = None
        while left > 0:
            k = r.random()
            if k < 0.45 or left == 1:
                m = 1 if self.simple else r.randint(1, min(left, 3))
                form = 0 if self.simple else r.randrange(5)
                vals = [round(r.uniform(0.02, 0.5), 3) for _ in range(m)]
                if form == 0:
                    out.append(f"{rec} " + " ".join(str(v) for v in vals))
                elif form == 1:
                    out.append(f"{rec} DIAGONAL({m}) " + " ".join(str(v) for v in vals))
                elif form == 2:
                    out.append(f"{rec}\n" + "\n".join(f" {v} {'FIX' if r.random() < 0.2 else ''} ; IIV{q}" for q, v in enumerate(vals)))
                elif form == 3:
                    out.append(f"{rec} ({vals[0]})x{m}" if m > 1 else f"{rec} ({vals[0]} FIX)")
                else:
                    out.append(f"{rec} " + " ".join(f"({v} SD)" if r.random() < 0.5 else f"{v}" for v in vals))
                left -= m
                prev_block = None
            elif k < 0.85 or not allow_same or prev_block is None or self.simple:
                m = r.randint(2, min(left, 3)) if left >= 2 else 1
                if m == 1:
                    continue
                M = self._pd(m)
                scale = "" if self.simple else r.choice(["", "", "SD", "CORR", "SD CORR", "CHOLESKY", "VAR COV"])
                tri = self._encode(M, m, scale)
                fix = " FIX" if r.random() < 0.2 else ""
                lay = r.random()
                if lay < 0.5:
                    out.append(f"{rec} BLOCK({m}){fix} {scale}\n" + "\n".join(" " + " ".join(f"{x:.6g}" for x in row) for row in tri))
                else:
                    flat = [f"{x:.6g}" for row in tri for x in row]
                    out.append(f"{rec} BLOCK({m}) {scale} " + " ".join(flat) + fix)
                left -= m
                prev_block = m
            else:
                if left >= prev_block:
                    out.append(f"{rec} BLOCK({prev_block}) SAME" if r.random() < 0.7 else f"{rec} BLOCK SAME")
                    left -= prev_block
                    self.used.add("same")
                else:
                    prev_block = None
        return "\n".join(out)

    def _pd(self, m):
        r = self.rng
        L = [[0.0] * m for _ in range(m)]
        for i in range(m):
            for j in range(i + 1):
                L[i][j] = round(r.uniform(0.15, 0.6), 2) if i == j else round(r.uniform(-0.2, 0.2), 2)
        return [[sum(L[i][k] * L[j][k] for k in range(m)) for j in range(m)] for i in range(m)], L

    def _encode(self, ML, m, scale):
        M, L = ML
        tri = []
        for i in range(m):
            row = []
            for j in range(i + 1):
                if "CHOLESKY" in scale:
                    row.append(L[i][j])
                elif i == j:
                    row.append(math.sqrt(M[i][i]) if "SD" in scale else M[i][i])
                else:
                    row.append(M[i][j] / math.sqrt(M[i][i] * M[j][j]) if "CORR" in scale else M[i][j])
            tri.append(row)
        return tri


def _balanced_prefix(s):
    """True if the first '(' of s closes at the very end (a single call/paren group)."""
    depth = 0
    start = s.index("(")
    for i in range(start, len(s)):
        if s[i] == "(":
            depth += 1
        elif s[i] == ")":
            depth -= 1
            if depth == 0:
                return i == len(s) - 1
    return False


# ====================================================================================== whole models
def gen_dataset(rng, advan, extra_cols, dose_kinds, obs_cmts=()):
    """Event dataset rows (list of dict) for the model.  dose_kinds: {comp: kind} with kind in
    bolus / data_rate / Rn / Dn.  Returns (columns, rows)."""
    cols = ["ID", "TIME", "AMT", "DV"] + COVS + list(extra_cols)
    rows = []
    nid = rng.randint(2, 4)
    for i in range(1, nid + 1):
        wgt = round(rng.uniform(40, 100), 1)
        age = float(rng.randint(18, 80))
        t = 0.0
        comps = sorted(dose_kinds) if dose_kinds else [None]
        for comp in comps:
            kind = dose_kinds.get(comp, "bolus") if dose_kinds else "bolus"
            row = {"ID": float(i), "TIME": t, "AMT": float(rng.choice([10, 50, 100])), "DV": 0.0, "WGT": wgt, "AGE": age}
            if "CMT" in extra_cols:
                row["CMT"] = float(comp)
            if "RATE" in extra_cols:
                row["RATE"] = {"bolus": 0.0, "data_rate": float(rng.choice([5, 10])), "Rn": -1.0, "Dn": -2.0}[kind]
            if "EVID" in extra_cols:
                row["EVID"] = 1.0
            if "MDV" in extra_cols:
                row["MDV"] = 1.0
            rows.append(row)
        for _ in range(rng.randint(2, 4)):
            t += round(rng.uniform(0.5, 6), 1)
            row = {"ID": float(i), "TIME": t, "AMT": 0.0, "DV": round(rng.uniform(0.5, 30), 2), "WGT": wgt, "AGE": age}
            if "CMT" in extra_cols:
                # an observation record with CMT = n observes compartment n (scaled by its own Sn), CMT = 0 the default
                row["CMT"] = float(rng.choice([0] + list(obs_cmts))) if obs_cmts else 0.0
            if "RATE" in extra_cols:
                row["RATE"] = 0.0
            if "EVID" in extra_cols:
                row["EVID"] = 0.0
            if "MDV" in extra_cols:
                row["MDV"] = 0.0
            rows.append(row)
    return cols, rows


def dataset_text(cols, rows):
    lines = [",".join(cols)]
    for r in rows:
        lines.append(",".join(_fmt(r[c]) for c in cols))
    return "\n".join(lines) + "\n"


def _fmt(v):
    return str(int(v)) if v == int(v) else repr(v)


def gen_model(rng, strata=(), simple=False):
    """-> dict(text=..., data=..., cols, rows, meta) ; `text` references the data file as DATAFILE."""
    g = Gen(rng, strata, simple)
    r = rng
    kind = r.choices(["pred", "lib", "gen_lin", "des"], [0.25, 0.5, 0.1, 0.15])[0]
    meta = {"kind": kind}
    n_eta = r.randint(1, 4)
    n_eps = r.randint(1, 2)
    g.n_eta, g.n_eps = n_eta, n_eps
    extra_cols = []
    dose_kinds = {}
    lines_pk = []
    lines_err = []
    recs_mid = []
    if kind == "pred":
        n_theta = r.randint(2, 6)
        g.n_theta = n_theta
        avail = COVS + ["TIME"]
        body = []
        for j in range(1, n_eta + 1):
            body.append(f"P{j} = THETA({r.randint(1, n_theta)})*EXP(ETA({j}))")
        st, assigned = g.statements(avail + [f"P{j}" for j in range(1, n_eta + 1)], r.randint(2, 10), cond_vars=COVS + ["TIME"])
        body += st
        pool = assigned + [f"P{j}" for j in range(1, n_eta + 1)]
        body.append(f"IPRED = {g.expr(pool)}")
        body.append(_error_line(r, "IPRED", n_eps))
        body += _after_y(r, g, ["IPRED"] + assigned)
        theta_txt, _ = g.theta_records(n_theta)
        code = "$PRED\n" + "\n".join(body)
        sub = ""
    else:
        if kind == "lib":
            advan = r.choice(list(ADVANS))
            trans_choices = [t for t in ADVANS[advan] if t not in ("TRANS5", "TRANS6") or "trans56" in g.strata]
            trans = r.choice(trans_choices)
            if trans in ("TRANS5", "TRANS6"):
                g.used.add("trans56")
            pkparams = ADVANS[advan][trans]
            ncomp = NCOMP[advan]
            central = CENTRAL[advan]
            sub = f"$SUBROUTINES {advan} {trans}" if trans != "TRANS1" or r.random() < 0.5 else f"$SUBROUTINE {advan}"
            meta.update(advan=advan, trans=trans)
            default_dose = 1
            default_obs = central
            dosable = [1] if advan in ("ADVAN1", "ADVAN3", "ADVAN10", "ADVAN11") else [1, 2]
        elif kind == "gen_lin":
            advan = r.choice(["ADVAN5", "ADVAN7"])
            ncomp = r.randint(1, 4)
            names = _comp_names(r, ncomp)
            defdose = r.randint(1, ncomp)
            defobs = r.randint(1, ncomp)
            sub = f"$SUBROUTINES {advan}"
            recs_mid.append(_model_record(r, names, defdose, defobs))
            edges = _random_edges(r, ncomp)
            pkparams = []
            for (i, j) in edges:
                jj = j if j != 0 else r.choice([0, ncomp + 1])
                nm = f"K{i}{jj}" if r.random() < 0.6 and ncomp + 1 < 10 else f"K{i}T{jj}"
                pkparams.append(nm)
            trans = "TRANS1"
            meta.update(advan=advan, ncomp=ncomp, edges=edges)
            default_dose, default_obs = defdose, defobs
            dosable = list(range(1, ncomp + 1))
            central = default_obs
        else:
            advan = r.choice(["ADVAN6", "ADVAN13", "ADVAN8", "ADVAN9"])
            ncomp = r.randint(1, 4)
            names = _comp_names(r, ncomp)
            defdose = r.randint(1, ncomp)
            defobs = r.randint(1, ncomp)
            sub = f"$SUBROUTINES {advan} TOL={r.choice([5, 6, 9])}"
            recs_mid.append(_model_record(r, names, defdose, defobs))
            edges = _random_edges(r, ncomp)
            pkparams = [f"R{i}{j}" for (i, j) in edges]
            # two additive first-order terms between the same ordered pair of compartments (R12 and R12B)
            par_edges = [(i, j) for (i, j) in edges if j != 0 and r.random() < 0.25]
            par_form = {e: r.choice(["separate", "factored"]) for e in par_edges}
            pkparams += [f"R{i}{j}B" for (i, j) in par_edges]
            mm = r.random() < 0.3
            if mm:
                pkparams += ["VMX", "KMX"]
            trans = None
            meta.update(advan=advan, ncomp=ncomp, edges=edges, mm=mm)
            default_dose, default_obs = defdose, defobs
            dosable = list(range(1, ncomp + 1))
            central = default_obs
        # ---- dosing layout
        use_cmt = r.random() < 0.35
        use_rate = r.random() < 0.4
        if use_cmt:
            extra_cols.append("CMT")
            targets = r.sample(dosable, r.randint(1, min(2, len(dosable))))
        else:
            targets = [default_dose]
        for comp in targets:
            dose_kinds[comp] = r.choice(["bolus", "data_rate", "Rn", "Dn"]) if use_rate else "bolus"
        if use_rate:
            extra_cols.append("RATE")
        if r.random() < 0.3:
            extra_cols.append(r.choice(["EVID", "MDV"]))
        obs_cmts = []
        if use_cmt and ncomp >= 2 and r.random() < 0.5:
            obs_cmts = r.sample(range(1, ncomp + 1), r.randint(1, min(2, ncomp)))
        meta["obs_cmts"] = obs_cmts
        # ---- $PK
        n_theta_pk = len(pkparams)
        extras = []
        scale_comp = default_obs
        if r.random() < 0.6:
            extras.append(f"S{scale_comp}" if (r.random() < 0.7 or kind != "lib") else "SC")
        for comp in obs_cmts:
            if r.random() < 0.6:
                extras.append(f"S{comp}")
        for comp in targets:
            if r.random() < 0.3:
                extras.append(f"ALAG{comp}")
            if r.random() < 0.3:
                extras.append(f"F{comp}")
            if dose_kinds[comp] == "Rn":
                extras.append(f"R{comp}")
            if dose_kinds[comp] == "Dn":
                extras.append(f"D{comp}")
        extras = list(dict.fromkeys(extras))
        n_theta = n_theta_pk + len(extras) + r.randint(0, 2)
        g.n_theta = n_theta
        th = 0
        eta_i = 0
        pre, pre_assigned = g.statements(COVS, r.randint(0, 4), prefix="TV", cond_vars=COVS)
        lines_pk += pre
        for p in pkparams + extras:
            th += 1
            e = f"THETA({th})"
            if pre_assigned and r.random() < 0.3:
                e = f"{e}*(1 + ABS({r.choice(pre_assigned)})/100)"
            elif r.random() < 0.3:
                e = f"{e}*(WGT/70)**{g.lit()}"
            if eta_i < n_eta and r.random() < 0.6:
                eta_i += 1
                e = f"{e}*EXP(ETA({eta_i}))"
            lines_pk.append(f"{p} = {e}")
        while eta_i < n_eta:
            eta_i += 1
            lines_pk.append(f"DUM{eta_i} = ETA({eta_i})")
        if kind == "des":
            des = []
            for i in range(1, ncomp + 1):
                terms = []
                for (a, b) in edges:
                    if a == i:
                        if mm and b == 0:
                            terms.append(f"- VMX*A({i})/(KMX + A({i}))")
                        elif (a, b) in par_form:
                            terms.append(f"- R{a}{b}*A({a}) - R{a}{b}B*A({a})" if par_form[(a, b)] == "separate"
                                         else f"- (R{a}{b} + R{a}{b}B)*A({a})")
                        else:
                            terms.append(f"- R{a}{b}*A({a})")
                    if b == i:
                        if (a, b) in par_form:
                            terms.append(f"+ R{a}{b}*A({a}) + R{a}{b}B*A({a})" if par_form[(a, b)] == "separate"
                                         else f"+ (R{a}{b} + R{a}{b}B)*A({a})")
                        else:
                            terms.append(f"+ R{a}{b}*A({a})")
                if not terms:
                    terms = ["0"]
                txt = " ".join(terms)
                if txt.startswith("+ "):
                    txt = txt[2:]
                des.append(f"DADT({i}) = {txt}")
            recs_mid.append("$DES\n" + "\n".join(des))
        # ---- $ERROR
        err_pre, err_assigned = g.statements(["F"] + COVS, r.randint(0, 3), prefix="E", cond_vars=COVS + ["TIME"])
        lines_err += ["IPRED = F"] + err_pre
        lines_err.append(_error_line(r, "IPRED", n_eps))
        lines_err += _after_y(r, g, ["IPRED"] + err_assigned)
        theta_txt, _ = g.theta_records(n_theta, positive=[True] * n_theta)
        code = "$PK\n" + "\n".join(lines_pk) + "\n" + "\n".join(x for x in recs_mid if x.startswith("$DES")) + \
               ("\n" if any(x.startswith("$DES") for x in recs_mid) else "") + "$ERROR\n" + "\n".join(lines_err)
        recs_mid = [x for x in recs_mid if not x.startswith("$DES")]
        meta.update(dose_kinds=dose_kinds, default_obs=default_obs)
    cols, rows = gen_dataset(r, meta.get("advan"), extra_cols, dose_kinds if kind != "pred" else {},
                             meta.get("obs_cmts", ()) if kind != "pred" else ())
    omega = g.omega_records(n_eta, "$OMEGA")
    sigma = g.omega_records(n_eps, "$SIGMA", allow_same=False)
    text = "\n".join(
        [f"$PROBLEM generated {kind}", "$INPUT " + " ".join(cols), "$DATA DATAFILE IGNORE=@"]
        + ([sub] if sub else []) + recs_mid + [code, theta_txt, omega, sigma,
                                              "$ESTIMATION METHOD=1 INTERACTION MAXEVALS=9999"]) + "\n"
    meta["used"] = sorted(g.used)
    return {"text": text, "data": dataset_text(cols, rows), "cols": cols, "rows": rows, "meta": meta}


def _after_y(r, g, names):
    """Statements after the Y statement that re-assign symbols Y was computed from (e.g. a log-scale copy for a table):
    legitimate NM-TRAN; Y keeps the value it got when its statement was executed."""
    if r.random() >= 0.25:
        return []
    out = []
    for _ in range(r.randint(1, 2)):
        n = r.choice(names)
        form = r.randrange(3)
        if form == 0:
            out.append(f"{n} = LOG(1 + ({n})**2)")
        elif form == 1:
            out.append(f"{n} = {n}*{g.lit()} + {g.lit()}")
        else:
            out.append(f"{n} = {g.expr(names)}")
    return out


def _error_line(r, ipred, n_eps):
    if n_eps == 1:
        return r.choice([f"Y = {ipred} + EPS(1)", f"Y = {ipred}*(1 + EPS(1))", f"Y = {ipred} + {ipred}*EPS(1)",
                         f"Y = {ipred} + ERR(1)", f"Y = {ipred}*EXP(EPS(1))"])
    return r.choice([f"Y = {ipred} + {ipred}*EPS(1) + EPS(2)", f"Y = {ipred}*(1 + EPS(1)) + EPS(2)",
                     f"Y = {ipred} + EPS(1)*{ipred} + ERR(2)"])


def _comp_names(r, n):
    pool = ["CENTRAL", "GUT", "PERI", "EFFECT", "C5", "TRANS1X"]
    names = r.sample(pool, n)
    return names


def _model_record(r, names, defdose, defobs):
    parts = []
    for i, n in enumerate(names, 1):
        opts = []
        if i == defdose:
            opts.append("DEFDOSE")
        if i == defobs:
            opts.append(r.choice(["DEFOBS", "DEFOBSERVATION"]))
        if opts or r.random() < 0.5:
            parts.append(f"COMP=({n}{' ' if opts else ''}{' '.join(opts)})")
        else:
            parts.append(f"COMPARTMENT=({n})")
    return "$MODEL " + " ".join(parts)


def _random_edges(r, n):
    edges = []
    for i in range(1, n + 1):
        for j in range(1, n + 1):
            if i != j and r.random() < 0.45:
                edges.append((i, j))
    outs = r.sample(range(1, n + 1), r.randint(1, min(2, n)))
    for i in outs:
        edges.append((i, 0))
    return edges


def _rewrite_inline(line):
    import re

    # (-LIT**2) -> (0 - LIT**2)
    line = re.sub(r"\(-((?:\d+\.?\d*|\.\d+)(?:[EeDd][+-]?\d+)?)\*\*2\)", r"(0 - \1**2)", line)
    # MOD(-ABS(x) - 0.3, LIT) -> (0 - MOD(ABS(x) + 0.3, LIT))   [Fortran MOD takes the sign of the dividend]
    while "MOD(-ABS(" in line:
        i = line.index("MOD(-ABS(")
        j = i + len("MOD(-ABS(") - 1
        depth = 0
        for k in range(j, len(line)):
            if line[k] == "(":
                depth += 1
            elif line[k] == ")":
                depth -= 1
                if depth == 0:
                    break
        x = line[j + 1:k]
        rest = line[k + 1:]
        m = re.match(r" - 0\.3, ([^)]*)\)", rest)
        if not m:
            break
        line = line[:i] + f"(0 - MOD(ABS({x}) + 0.3, {m.group(1)}))" + rest[m.end():]
    return line


def delta_text(text):
    """The stratum-A variant of a stratum-B program: tagged special lines removed, tagged conditions replaced."""
    out = []
    for line in text.splitlines():
        line = _rewrite_inline(line)
        if line.rstrip().endswith(";#S"):
            continue
        if line.rstrip().endswith(";#C"):
            kw = "ELSE IF" if line.lstrip().upper().startswith("ELSE") else "IF"
            line = f"{kw} (WGT.GT.70) THEN"
        out.append(line)
    return "\n".join(out) + "\n"
