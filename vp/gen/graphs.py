"""Generator of compartmental-system builder histories and the SHADOW reference model (property C05).

Nothing in this module imports pharmpy.  A history is a list of JSON-able op dicts; the shadow is a plain
dict-of-edges plus per-compartment attributes that is updated by `Shadow.apply(op)` with the documented meaning
of the corresponding `CompartmentalSystemBuilder` method.  Expressions are small JSON-able *specs* that are turned
into sympy trees (for numeric evaluation with vp.ir_eval.ev) or into text.

spec forms
    ["num", 3]                       integer
    ["sym", "K1"]                    positive symbol
    ["quot", "CL", "V1"]             CL/V1
    ["scaled", 2, "K1"]              2*K1
    ["sum", "K1", "K2"]              K1 + K2
    ["mm", "VM1", "KM1", "B10"]      VM1/(KM1 + A_B10(t))     (nonlinear in the amount of compartment B10)
    ["sq", "K1", "B10"]              K1*A_B10(t)
    ["mix", "CL1", "V1", "VM1", "KM1", "B10"]   CL1/V1 + VM1/(KM1 + A_B10(t))
    ["so", "KON1", "VC1", "A"]       KON1*A_A(t)/VC1          (second order: depends on ANOTHER compartment's amount)
dose forms
    ["bolus", amount_symbol, admid]
    ["inf_rate", amount_symbol, admid, rate_symbol]
    ["inf_dur", amount_symbol, admid, duration_symbol]
"""
from __future__ import annotations

import copy

OUT = "@OUT"

# names chosen to stress name-sorted tie breaks (string order: 'A' < 'B' < 'B10' < 'B9' < 'CENTRAL' ... < 'a')
NAMES = ["A", "B", "B10", "B9", "CENTRAL", "DEPOT", "PERIPHERAL1", "PERIPHERAL2", "PERIPHERAL10",
         "TRANSIT1", "Z", "a"]
# deliberately not generated: METABOLITE, EFFECT, COMPLEX, RESPONSE (central_compartment special-cases them by name)

# main: no construct with a listed finding; the other three contain exactly one such construct
STRATA = [("main", 0.76), ("nodose", 0.09), ("nooutput", 0.08), ("second_order", 0.07)]


# ------------------------------------------------------------------ specs
def spec_sym(spec):
    import sympy

    k = spec[0]
    if k == "num":
        return sympy.Integer(spec[1])
    if k == "sym":
        return sympy.Symbol(spec[1])
    if k == "quot":
        return sympy.Symbol(spec[1]) / sympy.Symbol(spec[2])
    if k == "scaled":
        return sympy.Integer(spec[1]) * sympy.Symbol(spec[2])
    if k == "sum":
        return sympy.Symbol(spec[1]) + sympy.Symbol(spec[2])
    if k == "mm":
        return sympy.Symbol(spec[1]) / (sympy.Symbol(spec[2]) + sympy.Function("A_" + spec[3])(sympy.Symbol("t")))
    A = lambda nm: sympy.Function("A_" + nm)(sympy.Symbol("t"))  # noqa: E731
    if k == "sq":
        return sympy.Symbol(spec[1]) * A(spec[2])
    if k == "mix":
        return sympy.Symbol(spec[1]) / sympy.Symbol(spec[2]) + sympy.Symbol(spec[3]) / (sympy.Symbol(spec[4]) + A(spec[5]))
    if k == "so":
        return sympy.Symbol(spec[1]) * A(spec[3]) / sympy.Symbol(spec[2])
    raise ValueError(spec)


def has_amount(spec):
    return spec[0] in ("mm", "sq", "mix", "so")


def spec_text(spec):
    k = spec[0]
    if k == "num":
        return str(spec[1])
    if k == "sym":
        return spec[1]
    if k == "quot":
        return f"{spec[1]}/{spec[2]}"
    if k == "scaled":
        return f"{spec[1]}*{spec[2]}"
    if k == "sum":
        return f"{spec[1]} + {spec[2]}"
    if k == "mm":
        return f"{spec[1]}/({spec[2]} + A_{spec[3]}(t))"
    if k == "sq":
        return f"{spec[1]}*A_{spec[2]}(t)"
    if k == "mix":
        return f"{spec[1]}/{spec[2]} + {spec[3]}/({spec[4]} + A_{spec[5]}(t))"
    if k == "so":
        return f"{spec[1]}*A_{spec[3]}(t)/{spec[2]}"
    raise ValueError(spec)


def spec_symbols(spec):
    k = spec[0]
    if k == "num":
        return set()
    if k == "sym":
        return {spec[1]}
    if k in ("quot", "sum"):
        return {spec[1], spec[2]}
    if k == "scaled":
        return {spec[2]}
    if k == "mm":
        return {spec[1], spec[2]}
    if k == "sq":
        return {spec[1]}
    if k == "mix":
        return set(spec[1:5])
    if k == "so":
        return {spec[1], spec[2]}
    raise ValueError(spec)


def dose_symbols(d):
    return set(d[1:2]) | set(d[3:4])


def dose_text(d):
    if d[0] == "bolus":
        return f"Bolus({d[1]},admid={d[2]})"
    if d[0] == "inf_rate":
        return f"Infusion({d[1]},admid={d[2]},rate={d[3]})"
    return f"Infusion({d[1]},admid={d[2]},duration={d[3]})"


# ------------------------------------------------------------------ shadow
class Shadow:
    """comps: name -> {'doses': [dose...], 'input': spec, 'lag': spec, 'F': spec};  edges: (src, dst) -> spec."""

    def __init__(self):
        self.comps = {}
        self.edges = {}

    def copy(self):
        s = Shadow()
        s.comps = copy.deepcopy(self.comps)
        s.edges = dict(self.edges)
        return s

    # documented meaning of each builder method -------------------------------------------------
    def apply(self, op):
        k = op["op"]
        if k == "add_compartment":
            self.comps[op["name"]] = {"doses": list(op["doses"]), "input": op["input"], "lag": op["lag"],
                                      "F": op["F"]}
        elif k == "remove_compartment":
            del self.comps[op["name"]]
            self.edges = {e: r for e, r in self.edges.items() if op["name"] not in e}
        elif k == "add_flow":
            self.edges[(op["src"], op["dst"])] = op["rate"]  # an existing flow is replaced (see ASSUMPTIONS)
        elif k == "remove_flow":
            del self.edges[(op["src"], op["dst"])]
        elif k == "move_dose":
            src, dst = self.comps[op["src"]], self.comps[op["dst"]]
            if not src["doses"]:
                return "refused"
            moved = [d for d in src["doses"] if op["admid"] is None or d[2] == op["admid"]]
            src["doses"] = [d for d in src["doses"] if not (op["admid"] is None or d[2] == op["admid"])]
            dst["doses"] = dst["doses"] + moved
        elif k == "set_dose":
            self.comps[op["name"]]["doses"] = list(op["doses"] or [])
        elif k == "add_dose":
            self.comps[op["name"]]["doses"] = self.comps[op["name"]]["doses"] + list(op["doses"])
        elif k == "remove_dose":
            c = self.comps[op["name"]]
            c["doses"] = [d for d in c["doses"] if op["admid"] is not None and d[2] != op["admid"]]
        elif k == "set_lag_time":
            self.comps[op["name"]]["lag"] = op["value"]
        elif k == "set_bioavailability":
            self.comps[op["name"]]["F"] = op["value"]
        elif k == "set_input":
            self.comps[op["name"]]["input"] = op["value"]
        elif k in ("snapshot", "rebuild"):
            pass
        else:
            raise ValueError(k)
        return None

    # derived facts --------------------------------------------------------------------------------
    def symbols(self):
        s = set()
        for r in self.edges.values():
            s |= spec_symbols(r)
        for c in self.comps.values():
            s |= spec_symbols(c["input"]) | spec_symbols(c["lag"]) | spec_symbols(c["F"])
            for d in c["doses"]:
                s |= dose_symbols(d)
        return s

    def has_dose(self):
        return any(c["doses"] for c in self.comps.values())

    def outputs(self):
        return [s for (s, d) in self.edges if d == OUT]

    def reachable_from(self, root):
        seen = {root}
        todo = [root]
        while todo:
            x = todo.pop()
            for (s, d) in self.edges:
                if s == x and d != OUT and d not in seen:
                    seen.add(d)
                    todo.append(d)
        return seen

    def describe(self):
        return {
            "compartments": {n: {"doses": [dose_text(d) for d in c["doses"]], "input": spec_text(c["input"]),
                                 "lag": spec_text(c["lag"]), "F": spec_text(c["F"])} for n, c in self.comps.items()},
            "flows": [f"{s}->{d}: {spec_text(r)}" for (s, d), r in self.edges.items()],
        }


# ------------------------------------------------------------------ rendering
def render_op(op):
    k = op["op"]
    if k == "add_compartment":
        extra = []
        if op["doses"]:
            extra.append("doses=[" + ", ".join(dose_text(d) for d in op["doses"]) + "]")
        if op["input"] != ["num", 0]:
            extra.append("input=" + spec_text(op["input"]))
        if op["lag"] != ["num", 0]:
            extra.append("lag_time=" + spec_text(op["lag"]))
        if op["F"] != ["num", 1]:
            extra.append("bioavailability=" + spec_text(op["F"]))
        return f"add_compartment {op['name']} " + " ".join(extra)
    if k == "remove_compartment":
        return f"remove_compartment {op['name']}"
    if k == "add_flow":
        return f"add_flow {op['src']} -> {op['dst']} rate={spec_text(op['rate'])} [{op['as']}]"
    if k == "remove_flow":
        return f"remove_flow {op['src']} -> {op['dst']}"
    if k == "move_dose":
        return f"move_dose {op['src']} -> {op['dst']} admid={op['admid']}"
    if k in ("set_dose", "add_dose"):
        ds = "None" if op["doses"] is None else "[" + ", ".join(dose_text(d) for d in op["doses"]) + "]"
        return f"{k} {op['name']} {ds}{' (single Dose object)' if op.get('single') else ''}"
    if k == "remove_dose":
        return f"remove_dose {op['name']} admid={op['admid']}"
    if k in ("set_lag_time", "set_bioavailability", "set_input"):
        return f"{k} {op['name']} {spec_text(op['value'])} [{op['as']}]"
    return k


# ------------------------------------------------------------------ generator
class Gen:
    """Generates one history op by op from the shadow state and rng only."""

    def __init__(self, rng, stratum):
        self.rng = rng
        self.stratum = stratum
        self.sh = Shadow()
        self.ops = []
        self.ctr = 0
        self.tags = set()

    def fresh(self, prefix):
        self.ctr += 1
        return f"{prefix}{self.ctr}"

    def emit(self, op):
        self.ops.append(op)
        r = self.sh.apply(op)
        if r == "refused":
            op["expect_refusal"] = True
        return op

    # ---- pieces
    def form(self, spec):
        f = self.rng.choice(["str", "sympy", "expr"])
        if has_amount(spec) and f == "str":
            f = "sympy"
        return f

    def rate(self, src):
        rng = self.rng
        r = rng.random()
        existing = [s for s in self.sh.edges.values() if not has_amount(s)]
        if existing and r < 0.12:
            self.tags.add("shared_rate")
            return list(rng.choice(existing))
        if r < 0.55:
            return ["sym", self.fresh("K")]
        if r < 0.72:
            return ["quot", self.fresh("CL"), rng.choice(["V1", "V2", self.fresh("V")])]
        if r < 0.82:
            self.tags.add("nonlinear_rate")
            return ["mm", self.fresh("VM"), self.fresh("KM"), src]
        if r < 0.86:
            self.tags.add("nonlinear_rate")
            return ["sq", self.fresh("K"), src]
        if r < 0.90:
            self.tags.add("nonlinear_rate")
            return ["mix", self.fresh("CL"), rng.choice(["V1", "V2"]), self.fresh("VM"), self.fresh("KM"), src]
        if r < 0.94:
            return ["scaled", rng.choice([2, 3]), self.fresh("K")]
        if r < 0.97:
            return ["num", rng.choice([1, 2, 3])]
        return ["sum", self.fresh("K"), self.fresh("K")]

    def dose(self):
        rng = self.rng
        amt = rng.choice(["AMT", "AMT", "AMT2", "DOSE"])
        admid = rng.choice([1, 1, 2, 3])
        r = rng.random()
        if r < 0.5:
            return ["bolus", amt, admid]
        if r < 0.75:
            return ["inf_rate", amt, admid, rng.choice(["RATE", "R1"])]
        return ["inf_dur", amt, admid, rng.choice(["DUR", "D1"])]

    def lag(self):
        r = self.rng.random()
        if r < 0.15:
            return ["num", 0]
        if r < 0.8:
            return ["sym", self.fresh("ALAG")]
        return ["quot", "MTT", self.fresh("NN")]

    def bio(self):
        r = self.rng.random()
        if r < 0.15:
            return ["num", 1]
        if r < 0.8:
            return ["sym", self.fresh("F")]
        return ["scaled", 2, self.fresh("F")]

    def inp(self):
        r = self.rng.random()
        if r < 0.15:
            return ["num", 0]
        if r < 0.7:
            return ["sym", self.fresh("R0_")]
        return ["quot", self.fresh("KIN"), "V1"]

    # ---- construction
    def construct(self):
        rng = self.rng
        n = rng.choices([1, 2, 3, 4, 5, 6], weights=[4, 18, 26, 26, 16, 10])[0]
        if self.stratum == "second_order":
            n = max(n, 2)
        names = rng.sample(NAMES, n)
        ndoses = 0 if self.stratum == "nodose" else rng.choices([0, 1, 2, 3], weights=[1, 5, 3, 2])[0]
        dose_at = [rng.choice(names) for _ in range(ndoses)]
        for nm in names:
            doses = [self.dose() for x in dose_at if x == nm]
            self.emit({"op": "add_compartment", "name": nm, "doses": doses,
                       "input": self.inp() if rng.random() < 0.15 else ["num", 0],
                       "lag": self.lag() if rng.random() < 0.2 else ["num", 0],
                       "F": self.bio() if rng.random() < 0.2 else ["num", 1]})
        p = rng.choice([0.15, 0.3, 0.5, 0.8])
        flows = [(s, d) for s in names for d in names if s != d and rng.random() < p]
        if self.stratum != "nooutput":
            k = rng.choices([0, 1, 2], weights=[1, 6, 3])[0]
            flows += [(s, OUT) for s in rng.sample(names, min(k, n))]
        rng.shuffle(flows)
        for s, d in flows:
            r = self.rate(s)
            self.emit({"op": "add_flow", "src": s, "dst": d, "rate": r, "as": self.form(r)})

    # ---- one random edit
    def edit(self):
        rng = self.rng
        sh = self.sh
        names = sorted(sh.comps)
        n = len(names)
        nodose = self.stratum == "nodose"
        kinds = {"add_flow": 3, "set_lag_time": 1.5, "set_bioavailability": 1.5, "set_input": 1.5,
                 "remove_dose": 1.2, "set_dose": 1.5, "snapshot": 0.6, "rebuild": 0.6}
        if n < 6:
            kinds["add_compartment"] = 1
        if n > 1:
            kinds["remove_compartment"] = 0.8
            kinds["move_dose"] = 2.5
        if sh.edges:
            kinds["remove_flow"] = 2
        if not nodose:
            kinds["add_dose"] = 1.5
        k = rng.choices(list(kinds), weights=list(kinds.values()))[0]
        if k == "add_compartment":
            nm = rng.choice([x for x in NAMES if x not in sh.comps])
            doses = [self.dose()] if (not nodose and rng.random() < 0.3) else []
            return self.emit({"op": k, "name": nm, "doses": doses,
                              "input": self.inp() if rng.random() < 0.2 else ["num", 0],
                              "lag": self.lag() if rng.random() < 0.2 else ["num", 0],
                              "F": self.bio() if rng.random() < 0.2 else ["num", 1]})
        if k == "remove_compartment":
            return self.emit({"op": k, "name": rng.choice(names)})
        if k == "add_flow":
            dsts = names + ([] if self.stratum == "nooutput" else [OUT])
            pairs = [(s, d) for s in names for d in dsts if s != d]
            free = [p for p in pairs if p not in sh.edges]
            if not pairs:
                return self.edit_attr("set_lag_time")
            if free and not (sh.edges and rng.random() < 0.15):
                s, d = rng.choice(free)
            else:
                s, d = rng.choice([p for p in pairs if p in sh.edges] or pairs)
                self.tags.add("flow_overwritten")
            r = self.rate(s)
            return self.emit({"op": k, "src": s, "dst": d, "rate": r, "as": self.form(r)})
        if k == "remove_flow":
            s, d = rng.choice(sorted(sh.edges))
            return self.emit({"op": k, "src": s, "dst": d})
        if k == "move_dose":
            dosed = [x for x in names if sh.comps[x]["doses"]]
            if dosed and rng.random() < 0.92:
                s = rng.choice(dosed)
            else:
                s = rng.choice(names)  # possibly a compartment without doses: documented ValueError
            d = rng.choice([x for x in names if x != s])
            admids = sorted({x[2] for x in sh.comps[s]["doses"]})
            admid = None if (not admids or rng.random() < 0.5) else rng.choice(admids + [3])
            self.tags.add("move_dose")
            return self.emit({"op": k, "src": s, "dst": d, "admid": admid})
        if k == "set_dose":
            nm = rng.choice(names)
            if nodose or rng.random() < 0.2:
                return self.emit({"op": k, "name": nm, "doses": None, "single": False})
            ds = [self.dose() for _ in range(rng.choice([1, 1, 2]))]
            return self.emit({"op": k, "name": nm, "doses": ds, "single": len(ds) == 1 and rng.random() < 0.6})
        if k == "add_dose":
            nm = rng.choice(names)
            ds = [self.dose() for _ in range(rng.choice([1, 1, 1, 2]))]
            return self.emit({"op": k, "name": nm, "doses": ds, "single": len(ds) == 1 and rng.random() < 0.6})
        if k == "remove_dose":
            dosed = [x for x in names if sh.comps[x]["doses"]]
            nm = rng.choice(dosed) if dosed and rng.random() < 0.8 else rng.choice(names)
            admids = sorted({x[2] for x in sh.comps[nm]["doses"]})
            admid = None if (not admids or rng.random() < 0.4) else rng.choice(admids + [2])
            return self.emit({"op": k, "name": nm, "admid": admid})
        if k in ("set_lag_time", "set_bioavailability", "set_input"):
            return self.edit_attr(k)
        return self.emit({"op": k})

    def edit_attr(self, k):
        nm = self.rng.choice(sorted(self.sh.comps))
        v = {"set_lag_time": self.lag, "set_bioavailability": self.bio, "set_input": self.inp}[k]()
        return self.emit({"op": k, "name": nm, "value": v, "as": self.form(v)})

    # ---- the whole history
    def history(self):
        rng = self.rng
        self.construct()
        n_construct = len(self.ops)
        for _ in range(rng.randint(0, 10)):
            self.edit()
        # stratum fix-up: the final system of stratum 'main' has a dose and an output flow
        names = sorted(self.sh.comps)
        if self.stratum in ("main", "nooutput", "second_order") and not self.sh.has_dose():
            self.emit({"op": "add_dose", "name": rng.choice(names), "doses": [self.dose()], "single": True})
        if self.stratum in ("main", "nodose", "second_order") and not self.sh.outputs():
            s = rng.choice(names)
            r = self.rate(s)
            self.emit({"op": "add_flow", "src": s, "dst": OUT, "rate": r, "as": self.form(r)})
        if self.stratum == "second_order":
            # exactly one flow whose rate depends on the amount of a compartment other than its source
            if len(names) < 2:
                nm = rng.choice([x for x in NAMES if x not in self.sh.comps])
                self.emit({"op": "add_compartment", "name": nm, "doses": [], "input": ["num", 0], "lag": ["num", 0],
                           "F": ["num", 1]})
                names = sorted(self.sh.comps)
            s = rng.choice(names)
            other = rng.choice([x for x in names if x != s])
            d = rng.choice([x for x in names + [OUT] if x != s])
            r = ["so", self.fresh("KON"), self.fresh("VC"), other]
            self.emit({"op": "add_flow", "src": s, "dst": d, "rate": r, "as": self.form(r)})
        return n_construct


def pick_stratum(rng):
    r = rng.random()
    acc = 0.0
    for name, w in STRATA:
        acc += w
        if r < acc:
            return name
    return STRATA[0][0]
