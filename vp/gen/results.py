"""Generators and reference models for C19 (ranking, selection criteria, result statistics).

Everything here is written from the documentation (docstrings of pharmpy.modeling.calculate_aic / calculate_bic,
pharmpy.tools.run.rank_models, docs/strictness.rst, docs/modelsearch.rst "rank_type", docs/bootstrap.rst,
docs/cdd.rst, docs/simeval.rst) with numpy / scipy only.  Pharmpy objects are only *read* (parameters,
random variables, statements, dataset); none of the functions anchored by C19 is called from this module.
"""
from __future__ import annotations

import math

import numpy as np

# --------------------------------------------------------------------------------------------------------------
# model pool
# --------------------------------------------------------------------------------------------------------------
POOL = []  # list of (key, model)
POOL_ERRORS = []


def build_pool(scratch):
    """Deterministic pool of structurally different models (parent process, before fork)."""
    import pharmpy.modeling as pm

    global POOL
    if POOL:
        return POOL
    pheno = pm.load_example_model("pheno")
    csv = str(scratch) + "/c19_pheno.csv"
    pheno.dataset[["ID", "TIME", "AMT", "WGT", "APGR", "DV"]].to_csv(csv, index=False)
    pool = {}

    def add(key, f):
        try:
            pool[key] = f()
        except Exception as e:  # a transformation that does not work here is simply not part of the pool
            POOL_ERRORS.append(f"{key}:{type(e).__name__}")

    add("P0", lambda: pheno)
    add("P1", lambda: pm.add_peripheral_compartment(pool["P0"]))
    add("P2", lambda: pm.add_peripheral_compartment(pool["P1"]))
    add("P3", lambda: pm.add_iiv(pool["P1"], ["QP1"], "exp"))
    add("P4", lambda: pm.add_iiv(pool["P1"], ["QP1", "VP1"], "exp"))
    add("P5", lambda: pm.set_additive_error_model(pool["P0"]))
    add("P6", lambda: pm.set_combined_error_model(pool["P0"]))
    add("P7", lambda: pm.set_power_on_ruv(pool["P0"]))
    add("P8", lambda: pm.set_iiv_on_ruv(pool["P0"]))
    add("P9", lambda: pm.create_joint_distribution(pool["P0"], ["ETA_CL", "ETA_VC"]))
    add("P10", lambda: pm.remove_iiv(pool["P0"], "CL"))
    add("P11", lambda: pm.remove_iiv(pool["P0"]))
    add("P12", lambda: pm.add_covariate_effect(pool["P0"], "CL", "APGR", "exp"))
    add("P13", lambda: pm.add_peripheral_compartment(pool["P12"]))
    add("P14", lambda: pm.add_iov(pool["P0"], "FA1", ["CL"]))
    add("P15", lambda: pm.set_michaelis_menten_elimination(pool["P0"]))
    add("P16", lambda: pm.set_mixed_mm_fo_elimination(pool["P0"]))
    add("P17", lambda: pm.set_zero_order_elimination(pool["P0"]))
    add("P18", lambda: pm.set_combined_error_model(pool["P1"]))
    add("P19", lambda: pm.create_joint_distribution(pool["P3"]))
    add("P20", lambda: pm.add_iov(pool["P1"], "FA1", ["CL", "VC"]))
    add("P21", lambda: pm.set_combined_error_model(pool["P10"]))
    add("B0", lambda: pm.create_basic_pk_model("oral", dataset_path=csv))
    add("B1", lambda: pm.add_lag_time(pool["B0"]))
    add("B2", lambda: pm.set_transit_compartments(pool["B0"], 2))
    add("B3", lambda: pm.add_peripheral_compartment(pool["B0"]))
    add("B4", lambda: pm.set_zero_order_absorption(pool["B0"]))
    add("B5", lambda: pm.split_joint_distribution(pool["B0"]))
    add("B6", lambda: pm.set_combined_error_model(pool["B0"]))
    add("B7", lambda: pm.remove_iiv(pool["B0"], "MAT"))
    add("B8", lambda: pm.add_peripheral_compartment(pool["B3"]))
    add("B9", lambda: pm.add_iiv(pool["B3"], ["QP1"], "exp"))
    add("I0", lambda: pm.create_basic_pk_model("iv", dataset_path=csv))
    add("I1", lambda: pm.add_peripheral_compartment(pool["I0"]))
    add("I2", lambda: pm.set_additive_error_model(pool["I0"]))
    # one population parameter shared by an individual parameter with eta and one without (either order)
    def share(model, target, expr, drop):
        from pharmpy.model import Parameters

        st = model.statements.reassign(Expr.symbol(target), expr)
        pars = Parameters(tuple(p for p in model.parameters if p.name != drop))
        return model.replace(statements=st, parameters=pars).update_source()

    from pharmpy.basic import Expr

    add("X1", lambda: share(pool["P1"], "VP1", Expr.symbol("POP_VC") * Expr.integer(2), "POP_VP1"))
    add("X3", lambda: share(pool["P1"], "QP1", Expr.symbol("POP_VC") * Expr.integer(3), "POP_QP1"))
    add("X2", lambda: share(pm.remove_iiv(pool["P3"], "CL"), "QP1",
                            Expr.symbol("POP_CL") * Expr.symbol("ETA_QP1").exp(), "POP_QP1"))
    POOL = sorted(pool.items())
    return POOL


# --------------------------------------------------------------------------------------------------------------
# independent reading of a model
# --------------------------------------------------------------------------------------------------------------
class ModelInfo:
    """Counts that the information criteria are defined on, computed by plain walks."""

    def __init__(self, model):
        params = list(model.parameters)
        self.names = [p.name for p in params]
        self.fix = {p.name: bool(p.fix) for p in params}
        self.init = {p.name: float(p.init) for p in params}
        self.lower = {p.name: float(p.lower) for p in params}
        self.upper = {p.name: float(p.upper) for p in params}
        self.nonfixed = [n for n in self.names if not self.fix[n]]
        self.k = len(self.nonfixed)
        self.k_all = len(self.names)
        self.n_fixed = self.k_all - self.k
        # kinds
        self.kind = {n: "theta" for n in self.names}
        self.iiv_params = []
        eta_dists, eps_dists = [], []
        for d in model.random_variables:
            lvl = str(d.level).upper()
            pn = list(d.parameter_names)
            if lvl == "RUV":
                eps_dists.append(d)
                for n in pn:
                    self.kind[n] = "sigma"
            else:
                eta_dists.append(d)
                for n in pn:
                    self.kind[n] = "omega"
                if lvl == "IIV":
                    self.iiv_params.extend(pn)
        self.thetas = [n for n in self.names if self.kind[n] == "theta"]
        self.omegas = [n for n in self.names if self.kind[n] == "omega"]
        self.sigmas = [n for n in self.names if self.kind[n] == "sigma"]
        self.k_iiv = len([n for n in dict.fromkeys(self.iiv_params) if not self.fix.get(n, True)])
        # eta variance parameters (diagonal), in the model's eta order
        self.eta_names, self.eta_var = [], {}
        for d in eta_dists:
            names = list(d.names)
            var = d.variance
            if len(names) == 1:
                self.eta_names.append(names[0])
                self.eta_var[names[0]] = str(var)
            else:
                for i, n in enumerate(names):
                    self.eta_names.append(n)
                    self.eta_var[n] = str(var[i, i])
        # dataset walk
        self.n_ids, self.n_obs = dataset_counts(model)
        # mixed categorisation
        self.mixed = classify_mixed(model, self, eta_dists, eps_dists)


def dataset_counts(model):
    """(number of individuals, number of observation records).  An observation record is a record with
    MDV == 0; without an MDV column EVID == 0; without both AMT == 0; otherwise every record."""
    df = model.dataset
    di = model.datainfo
    types = {c.name: c.type for c in di}
    idcol = next(n for n, t in types.items() if t == "id")
    label = None
    for wanted in ("mdv", "event", "dose"):
        cols = [n for n, t in types.items() if t == wanted]
        if cols:
            label = cols[0]
            break
    ids = set()
    nobs = 0
    idv = df[idcol].to_numpy()
    lab = df[label].to_numpy() if label is not None else None
    for i in range(len(idv)):
        ids.add(idv[i])
        if lab is None or float(lab[i]) == 0.0:
            nobs += 1
    return len(ids), nobs


def _names(expr):
    return {str(s) for s in expr.free_symbols}


def classify_mixed(model, info, eta_dists, eps_dists):
    """Returns dict(nr=, nf=, ambiguous=reason or None).

    Reading of 'n_random_parameters' / 'n_fixed_parameters' (Delattre et al. 2014, the reference of the mixed
    BIC): estimated variance components of (non-degenerate) etas and estimated population parameters of
    individual parameters that carry an eta count with log(n_individuals); estimated population parameters of
    individual parameters without eta and residual-error parameters count with log(n_observations).
    Computed at two granularities (symbols handed to the ODE system / the error model, and every single
    assignment); if they differ, or an eta enters the error model directly, the case is ambiguous."""
    est = set(info.nonfixed)

    def degenerate(d):
        return all(info.fix[p] and info.init[p] == 0.0 for p in d.parameter_names)

    etas, eps_sigma = set(), {}
    random = set()
    dead = set()
    for d in eta_dists:
        if degenerate(d):
            dead |= set(d.names)
            continue
        etas |= set(d.names)
        random |= set(d.parameter_names) & est
    dead_eps = set()
    for d in eps_dists:
        if degenerate(d):
            dead_eps |= set(d.names)
            continue
        for n in d.names:
            eps_sigma[n] = set(d.parameter_names) & est
    stmts = model.statements
    ode = stmts.ode_system
    pre = list(stmts.before_odes) if ode is not None else []
    post = list(stmts.after_odes) if ode is not None else list(stmts)
    popnames = set(info.names)

    # ---- before the ODE system
    deps = {}
    per_stmt = []
    for s in pre:
        d = set()
        for f in _names(s.expression):
            d |= deps.get(f, {f})
        d -= dead
        deps[str(s.symbol)] = d
        per_stmt.append(d)
    consumed = set()
    if ode is not None:
        consumed |= _names(ode)
    for s in post:
        consumed |= _names(s.expression)
    consumed = {c for c in consumed if c in deps}

    def split(groups):
        rnd, fx = set(), set()
        for g in groups:
            th = g & est & popnames
            if g & etas:
                rnd |= th
            else:
                fx |= th
        return rnd, fx - rnd

    r_coarse, f_coarse = split([deps[c] for c in consumed])
    r_fine, f_fine = split(per_stmt)
    ambiguous = None
    if (r_coarse, f_coarse) != (r_fine, f_fine):
        ambiguous = "granularity"
    rnd = random | r_coarse
    fx = f_coarse - rnd

    # ---- error model
    ydeps = {}
    for s in post:
        d = set()
        for f in _names(s.expression):
            d |= ydeps.get(f, {f})
        d -= dead
        d -= dead_eps
        ydeps[str(s.symbol)] = d
    for y in model.dependent_variables.keys():
        d = ydeps.get(str(y), set())
        cur = d & est & popnames
        for e in d & set(eps_sigma):
            cur |= eps_sigma[e]
        if d & etas:
            ambiguous = ambiguous or "eta-in-error-model"
            rnd |= cur
            fx -= cur
        else:
            fx |= cur - rnd
    return {"nr": len(rnd), "nf": len(fx), "random": sorted(rnd), "fixed": sorted(fx), "ambiguous": ambiguous}


def ref_aic(info, ofv):
    return ofv + 2 * info.k


def ref_bic(info, ofv, bic_type):
    """Returns value or None when the docs do not decide."""
    if bic_type == "fixed":
        return ofv + info.k * math.log(info.n_obs)
    if bic_type == "random":
        return ofv + info.k * math.log(info.n_ids)
    if bic_type == "iiv":
        return ofv + info.k_iiv * math.log(info.n_ids)
    if bic_type == "mixed":
        return ofv + info.mixed["nr"] * math.log(info.n_ids) + info.mixed["nf"] * math.log(info.n_obs)
    raise ValueError(bic_type)


# --------------------------------------------------------------------------------------------------------------
# LRT
# --------------------------------------------------------------------------------------------------------------
def ref_lrt_cutoff(df, alpha):
    from scipy.stats import chi2

    if df == 0:
        return 0.0
    if df > 0:
        return float(chi2.isf(alpha, df))
    return -float(chi2.isf(alpha, -df))


def ref_lrt_test(df, parent_ofv, child_ofv, alpha):
    d = parent_ofv - child_ofv
    if d != d:
        return False
    return d >= ref_lrt_cutoff(df, alpha)


def ref_p_value(df, reduced_ofv, extended_ofv):
    from scipy.stats import chi2

    return float(chi2.sf(reduced_ofv - extended_ofv, df))


# --------------------------------------------------------------------------------------------------------------
# strictness grammar (docs/strictness.rst)
# --------------------------------------------------------------------------------------------------------------
BOOL_CRIT = [
    "minimization_successful", "rounding_errors", "maxevals_exceeded",
    "final_zero_gradient", "final_zero_gradient_theta", "final_zero_gradient_omega", "final_zero_gradient_sigma",
    "estimate_near_boundary", "estimate_near_boundary_theta", "estimate_near_boundary_omega",
    "estimate_near_boundary_sigma",
]
NUM_CRIT = ["sigdigs", "rse", "rse_theta", "rse_omega", "rse_sigma", "condition_number"]
OPS = ["<", "<=", "==", ">", ">=", "!="]
NUM_GRID = {
    "sigdigs": ["0.1", "2", "3", "3.5", "4", "10"],
    "rse": ["0.1", "0.25", "0.4", "0.5", "1", "2"],
    "rse_theta": ["0.1", "0.25", "0.4", "0.5", "1"],
    "rse_omega": ["0.1", "0.25", "0.4", "0.5", "1"],
    "rse_sigma": ["0.1", "0.25", "0.4", "0.5", "1"],
    "condition_number": ["10", "100", "1000", "100000"],
}


def gen_strictness(rng, depth=0, allow=None):
    """Random expression AST.  allow: criteria names that may be used."""
    bools = [b for b in BOOL_CRIT if allow is None or b in allow]
    nums = [n for n in NUM_CRIT if allow is None or n in allow]
    r = rng.random()
    if depth >= 3 or r < 0.38:
        if nums and rng.random() < 0.45:
            name = rng.choice(nums)
            op = rng.choice(["<", "<=", ">", ">=", "<", "<=", "==", "!="])
            return ("cmp", name, op, rng.choice(NUM_GRID[name]), rng.random() < 0.15)
        w = [6, 3, 2, 2, 1, 1, 1, 2, 1, 1, 1]
        cands = [(b, w[BOOL_CRIT.index(b)]) for b in bools]
        tot = sum(x[1] for x in cands)
        t = rng.random() * tot
        for b, wt in cands:
            t -= wt
            if t <= 0:
                return ("name", b)
        return ("name", cands[-1][0])
    if r < 0.5:
        return ("not", gen_strictness(rng, depth + 1, allow))
    op = "and" if rng.random() < 0.5 else "or"
    return (op, gen_strictness(rng, depth + 1, allow), gen_strictness(rng, depth + 1, allow))


_FLIP = {"<": ">", "<=": ">=", ">": "<", ">=": "<=", "==": "==", "!=": "!="}
_PREC = {"or": 1, "and": 2, "not": 3, "cmp": 4, "name": 5}


def render_strictness(ast, rng=None, parent_prec=0, full_parens=False):
    k = ast[0]
    if k == "name":
        return ast[1]
    if k == "cmp":
        _, name, op, num, rev = ast
        sp = " " if rng is None or rng.random() < 0.8 else ""
        s = f"{num}{sp}{_FLIP[op]}{sp}{name}" if rev else f"{name}{sp}{op}{sp}{num}"
        if full_parens and rng is not None and rng.random() < 0.3:
            return "(" + s + ")"
        return s
    if k == "not":
        inner = render_strictness(ast[1], rng, _PREC["not"], full_parens)
        s = "not " + inner
    else:
        a = render_strictness(ast[1], rng, _PREC[k], full_parens)
        b = render_strictness(ast[2], rng, _PREC[k] + 0.5, full_parens)  # right operand of same op gets parens
        s = f"{a} {k} {b}"
    if full_parens or _PREC[k] < parent_prec:
        return "(" + s + ")"
    return s


def names_in(ast):
    k = ast[0]
    if k == "name":
        return {ast[1]}
    if k == "cmp":
        return {ast[1]}
    if k == "not":
        return names_in(ast[1])
    return names_in(ast[1]) | names_in(ast[2])


class Unjudged(Exception):
    pass


class Refusal(Exception):
    pass


def _round_sig(x, n):
    if x == 0:
        return 0.0
    return round(x, -int(math.floor(math.log10(abs(x)))) + (n - 1))


def near_bound(info, name, value):
    """docs: maximum distance to 0 = 0.001, maximum distance to a non-zero bound = 2 significant digits."""
    for b in (info.lower[name], info.upper[name]):
        if math.isinf(b):
            continue
        if b == 0:
            if abs(value) < 0.001:
                return True
        else:
            if _round_sig(value, 2) == _round_sig(b, 2):
                return True
    return False


class ResultView:
    """Plain-python view of a synthetic result (the generator's own record, not read back from pharmpy)."""

    def __init__(self, d):
        self.__dict__.update(d)


def eval_strictness(ast, info, rv):
    """Reference evaluator.  rv: ResultView.  Raises Unjudged / Refusal."""
    if rv.ofv != rv.ofv:
        return False
    return bool(_ev(ast, info, rv))


def _series_for(name, info, rv):
    if name == "sigdigs":
        return [rv.significant_digits]
    if name == "condition_number":
        if rv.cov is None:
            raise Refusal("condition_number")
        s = np.linalg.svd(np.asarray(rv.cov, dtype=float), compute_uv=False)
        if s.min() == 0:
            return [float("inf")]
        return [float(s.max() / s.min())]
    if rv.rse is None:
        if name == "rse":
            raise Refusal("rse")
        raise Unjudged("rse-missing")
    if name == "rse":
        return [v for _, v in rv.rse]
    kind = name.split("_")[1]
    return [v for n, v in rv.rse if info.kind.get(n) == kind]


def _cmp(a, op, b):
    if op == "<":
        return a < b
    if op == "<=":
        return a <= b
    if op == ">":
        return a > b
    if op == ">=":
        return a >= b
    if op == "==":
        return a == b
    return a != b


def _ev(ast, info, rv):
    k = ast[0]
    if k == "not":
        return not _ev(ast[1], info, rv)
    if k == "and":
        # python semantics: the right operand is only evaluated when needed (matters for refusals only)
        return _ev(ast[1], info, rv) and _ev(ast[2], info, rv)
    if k == "or":
        return _ev(ast[1], info, rv) or _ev(ast[2], info, rv)
    if k == "cmp":
        _, name, op, num, _rev = ast
        vals = _series_for(name, info, rv)
        n = float(num)
        if len(vals) == 0:
            raise Unjudged("empty-array-criterion")
        if op == "!=" and len(vals) > 1:
            a = all(_cmp(v, op, n) for v in vals)
            b = any(_cmp(v, op, n) for v in vals)
            if a != b:
                raise Unjudged("array-not-equal-quantifier")
            return a
        # "all parameters must have an RSE smaller than 0.4"
        return all(_cmp(v, op, n) for v in vals)
    name = ast[1]
    if name == "minimization_successful":
        return bool(rv.minimization_successful)
    if name == "rounding_errors":
        return rv.termination_cause == "rounding_errors"
    if name == "maxevals_exceeded":
        return rv.termination_cause == "maxevals_exceeded"
    if name.startswith("final_zero_gradient"):
        if rv.gradients is None:
            raise Unjudged("gradients-missing")
        if name == "final_zero_gradient":
            sel = rv.gradients
            return any(v == 0 or v != v for _, v in sel)
        kind = name.rsplit("_", 1)[1]
        own = [v for n, v in rv.gradients if info.kind.get(n) == kind]
        other = [v for n, v in rv.gradients if info.kind.get(n) != kind]
        if getattr(rv, "grad_variant", False):
            # attribution variant (listed finding): the NaN test reads the theta gradients for every kind
            return any(v == 0 for v in own) or any(v != v for n, v in rv.gradients if info.kind.get(n) == "theta")
        if any(v == 0 or v != v for v in own):
            return True
        if any(v != v for v in other):
            # "... or if final gradient is nan": the docs do not say whose gradient
            raise Unjudged("nan-gradient-of-other-kind")
        return False
    if name.startswith("estimate_near_boundary"):
        if rv.estimates is None:
            raise Unjudged("estimates-missing")
        if name == "estimate_near_boundary":
            sel = rv.estimates
        else:
            kind = name.rsplit("_", 1)[1]
            sel = [(n, v) for n, v in rv.estimates if info.kind.get(n) == kind]
        return any(near_bound(info, n, v) for n, v in sel)
    raise ValueError(name)


# --------------------------------------------------------------------------------------------------------------
# synthetic modelfit results
# --------------------------------------------------------------------------------------------------------------
def gen_cov(rng, k, cond_target):
    """Symmetric positive definite k x k matrix with (2-norm) condition number close to cond_target."""
    rs = np.random.RandomState(rng.randrange(2**31))
    q, _ = np.linalg.qr(rs.normal(size=(k, k)))
    if k == 1:
        ev = np.array([1e-3])
    else:
        ev = np.exp(np.linspace(0, math.log(cond_target), k)) * 1e-4
    m = (q * ev) @ q.T
    return (m + m.T) / 2


def gen_result_record(rng, info, ofv, profile):
    """A plain record; profile: dict of switches (with_rse, with_cov, with_grad, with_est, odd)."""
    names = info.nonfixed
    d = {"ofv": ofv}
    r = rng.random()
    d["minimization_successful"] = True if r < 0.62 else (False if r < 0.97 or not profile.get("odd") else None)
    if d["minimization_successful"]:
        d["termination_cause"] = None
    else:
        d["termination_cause"] = rng.choice([None, "rounding_errors", "rounding_errors", "maxevals_exceeded"])
    d["significant_digits"] = rng.choice([0.1, 2.0, 2.9, 3.0, 3.0, 3.5, 3.6, 4.0, 10.0, float("nan")])
    # relative standard errors
    if profile.get("with_rse", True):
        lvl = rng.choice([0.05, 0.2, 0.3, 0.45, 0.8])
        rse = []
        for n in names:
            v = round(rng.uniform(0.3, 1.7) * lvl, 4)
            if rng.random() < 0.08:
                v = rng.choice([0.4, 0.25, 0.5, 0.1, 1.0])  # exactly on a grid threshold
            if rng.random() < 0.03:
                v = float("nan")
            rse.append((n, v))
        d["rse"] = rse
    else:
        d["rse"] = None
    # estimates: mostly away from bounds
    est = []
    near = rng.random() < 0.25
    near_name = rng.choice(names) if names and near else None
    for n in names:
        lo, up = info.lower[n], info.upper[n]
        init = info.init[n]
        v = init * rng.choice([0.5, 0.8, 1.0, 1.3, 2.0]) if init != 0 else 0.37
        if n == near_name:
            b = lo if not math.isinf(lo) else (up if not math.isinf(up) else None)
            if b is not None:
                v = (0.0002 if rng.random() < 0.7 else 0.0) if b == 0 else b * (1 + 1e-5)
        else:
            # keep clearly away from every finite bound
            for b in (lo, up):
                if not math.isinf(b):
                    if b == 0 and abs(v) < 0.01:
                        v = 0.05
                    elif b != 0 and abs(v - b) < 0.2 * abs(b):
                        v = b + (0.5 * abs(b) if b == lo else -0.5 * abs(b))
        est.append((n, float(v)))
    d["estimates"] = est if profile.get("with_est", True) else None
    # gradients
    if profile.get("with_grad", True):
        g = []
        mode = rng.random()
        for n in names:
            v = round(rng.choice([-1, 1]) * rng.uniform(0.01, 50), 5)
            g.append([n, v])
        if mode < 0.15 and g:
            g[rng.randrange(len(g))][1] = 0.0
        elif mode < 0.25:
            th = [i for i, (n, _) in enumerate(g) if info.kind[n] == "theta"]
            if th:
                g[rng.choice(th)][1] = float("nan")
        elif mode < 0.25 + profile.get("p_nan_grad_nontheta", 0.0):
            oth = [i for i, (n, _) in enumerate(g) if info.kind[n] != "theta"]
            if oth:
                g[rng.choice(oth)][1] = float("nan")
        d["gradients"] = [(n, v) for n, v in g]
    else:
        d["gradients"] = None
    # covariance matrix
    if profile.get("with_cov", True) and names:
        d["cov"] = gen_cov(rng, len(names), rng.choice([5.0, 50.0, 500.0, 5e4, 5e6])).tolist()
    else:
        d["cov"] = None
    # log
    nerr = rng.choice([0, 0, 0, 1, 2])
    nwarn = rng.choice([0, 0, 1, 3])
    d["log"] = [("ERROR", f"error {i}") for i in range(nerr)] + [("WARNING", f"warn {i}") for i in range(nwarn)]
    rng.shuffle(d["log"])
    # warnings list consistent with what the NONMEM reader derives
    w = []
    if d["estimates"] is not None and any(near_bound(info, n, v) for n, v in d["estimates"]):
        w.append("estimate_near_boundary")
    if d["gradients"] is not None and any(v == 0 or v != v for _, v in d["gradients"]):
        w.append("final_zero_gradient")
    d["warnings"] = w
    return d


def to_modelfit_results(d):
    import pandas as pd
    from pharmpy.workflows.log import Log
    from pharmpy.workflows.results import ModelfitResults

    def ser(pairs):
        if pairs is None:
            return None
        return pd.Series([v for _, v in pairs], index=[n for n, _ in pairs], dtype=float)

    log = Log()
    for cat, msg in d["log"]:
        log = log.log_error(msg) if cat == "ERROR" else log.log_warning(msg)
    cov = None
    if d["cov"] is not None:
        idx = [n for n, _ in (d["rse"] or d["estimates"] or d["gradients"])]
        cov = pd.DataFrame(np.asarray(d["cov"], dtype=float), index=idx, columns=idx)
    est = ser(d["estimates"])
    rse = ser(d["rse"])
    se = None
    if est is not None and rse is not None:
        se = (rse * est).abs()
    kw = dict(
        ofv=d["ofv"],
        minimization_successful=d["minimization_successful"],
        termination_cause=d["termination_cause"],
        significant_digits=d["significant_digits"],
        relative_standard_errors=rse,
        standard_errors=se,
        parameter_estimates=est,
        gradients=ser(d["gradients"]),
        covariance_matrix=cov,
        warnings=d["warnings"],
        log=log,
    )
    kw.update(d.get("override", {}))
    return ModelfitResults(**kw)


# --------------------------------------------------------------------------------------------------------------
# ranking reference
# --------------------------------------------------------------------------------------------------------------
def rank_reference(values, eligible):
    """values: list of floats; eligible: list of True/False/None (None = the docs do not decide).
    Returns dict name-index -> expected competition rank among the definitely eligible, only meaningful if
    no None."""
    el = [i for i, e in enumerate(eligible) if e]
    out = {}
    for i in el:
        out[i] = 1 + sum(1 for j in el if values[j] < values[i])
    return out


def close(a, b, rel=1e-9, scale=1.0):
    if a is None or b is None:
        return a is None and b is None
    a = float(a)
    b = float(b)
    if a != a or b != b:
        return a != a and b != b
    if math.isinf(a) or math.isinf(b):
        return a == b
    return abs(a - b) <= rel * max(scale, abs(a), abs(b))


# --------------------------------------------------------------------------------------------------------------
# statistics references
# --------------------------------------------------------------------------------------------------------------
def quantile_options(x, q):
    """Accepted values of the q-quantile of the non-NaN values of x: numpy's default 'linear' (what pandas
    documents as linear interpolation) and the literal formula of docs/bootstrap.rst
    x0 + (x1 - x0) * frac(n*p) (numpy 'interpolated_inverted_cdf')."""
    x = np.asarray(x, dtype=float)
    x = np.sort(x[~np.isnan(x)])
    n = len(x)
    if n == 0:
        return [float("nan")]
    # linear: position (n-1)q
    pos = (n - 1) * q
    lo = int(math.floor(pos))
    hi = min(lo + 1, n - 1)
    lin = x[lo] + (x[hi] - x[lo]) * (pos - lo)
    # literal doc formula: x0 = the floor(n q)-th order statistic (1-based), f = frac(n q)
    pos = n * q - 1
    if pos <= 0:
        lit = x[0]
    else:
        lo = int(math.floor(pos))
        hi = min(lo + 1, n - 1)
        lit = x[lo] + (x[hi] - x[lo]) * (pos - lo)
    return [float(lin), float(lit)]


def nan_options(col, f):
    """Accepted results of a reduction over a column that may contain NaN: NaN-skipping (pandas default) or
    NaN-propagating (numpy default)."""
    col = np.asarray(col, dtype=float)
    has_nan = bool(np.isnan(col).any())
    clean = col[~np.isnan(col)]
    out = []
    out.append(f(clean) if len(clean) else float("nan"))
    if has_nan:
        out.append(float("nan"))
    return out


def std_options(col):
    """ddof is not documented: accept 0 and 1 (and NaN handling as in nan_options)."""
    out = []
    for ddof in (1, 0):
        out += nan_options(col, lambda c, ddof=ddof: float(np.std(c, ddof=ddof)) if len(c) > ddof else float("nan"))
    return out


def var_options(col):
    out = []
    for ddof in (1, 0):
        out += nan_options(col, lambda c, ddof=ddof: float(np.var(c, ddof=ddof)) if len(c) > ddof else float("nan"))
    return out


def any_close(got, options, rel=1e-9, scale=1.0):
    return any(close(got, o, rel, scale) for o in options)
