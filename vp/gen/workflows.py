"""Generator of workflow-builder histories, the SHADOW reference model and the reference evaluator (property C17).

Nothing in this module imports pharmpy or networkx.  A *plan* is a JSON-able dict

    {"stratum": "A" | "B" | "D",
     "ops":   [op, ...]            builder operations in the order the harness issues them
     "specs": {tid: spec}          one spec per task ever created (alive or replaced / refused)
     "name":  workflow name}

spec = {"name": str, "kind": one of KINDS, "ctx": bool, "form": "plain" | "decoy", "static": [static descriptor]}

ops
    {"op": "ctor", "tasks": [tid..]}                                  WorkflowBuilder(tasks=[..], name=..)
    {"op": "add", "t": tid, "preds": [tid..], "form": F}              wb.add_task(t, predecessors=F(preds))
    {"op": "readd", "t": tid, "preds": [tid..], "form": F}            add_task of a task that is already present
    {"op": "replace", "old": tid, "new": tid}                         wb.replace_task(old, new)
    {"op": "insert", "sub": SUB, "preds": None | tid | [tid..]}       wb.insert_workflow(sub, predecessors=preds)
    {"op": "plus", "sub": SUB, "how": "b+w" | "b+b" | "w+w"}          wb = wb + sub
    {"op": "roundtrip"}                                               wb = WorkflowBuilder(Workflow(wb))
    {"op": "nm_refusal", "sub": SUB, "preds": ..}                     N:M insert on a throw-away copy -> ValueError
    {"op": "multi_sink_probe"}                                        execute with > 1 sink -> ValueError
F in "none" (argument omitted), "single" (bare Task), "list".
SUB = {"ctor": [tid..], "adds": [{"t":, "preds":, "form":}], "as": "workflow" | "builder"}

The SHADOW keeps `order` (the order in which tasks entered the workflow) and `edges`; `Shadow.apply(op)` gives each
operation the meaning stated by the docstrings of WorkflowBuilder (and, for the N:N pairing of insert_workflow, by
tests/workflows/test_execute.py::test_execute_workflow_map_reduce).

static descriptors (materialised by `materialize`)
    ["int", 3] ["float", 0.5] ["bool", true] ["none"] ["str", "abc"] ["list", [d..]] ["tuple", [d..]]
    ["dict", [[key, d]..]] ["fset", [ints]] ["model"] ["callable", "len"]
"""
from __future__ import annotations

import copy

KINDS = ["tuple", "concat", "list", "dict", "pick_first", "pick_last", "count", "const"]
KIND_WEIGHTS = [30, 22, 10, 10, 7, 7, 4, 4]
MAX_TASKS = 12


# ------------------------------------------------------------------ shadow
class Shadow:
    def __init__(self, order=None, edges=None):
        self.order = list(order or [])
        self.edges = set(edges or ())

    def copy(self):
        return Shadow(self.order, self.edges)

    def add_node(self, t):
        if t not in self.order:
            self.order.append(t)

    def preds(self, t):
        """Predecessors in ENTRY order."""
        return [p for p in self.order if (p, t) in self.edges]

    def succs(self, t):
        return [s for s in self.order if (t, s) in self.edges]

    def sources(self):
        has_pred = {t for (_, t) in self.edges}
        return [t for t in self.order if t not in has_pred]

    def sinks(self):
        has_succ = {p for (p, _) in self.edges}
        return [t for t in self.order if t not in has_succ]

    def descendants(self, t):
        out, stack = set(), [t]
        while stack:
            x = stack.pop()
            for (p, s) in self.edges:
                if p == x and s not in out:
                    out.add(s)
                    stack.append(s)
        return out

    def ancestors(self, t):
        out, stack = set(), [t]
        while stack:
            x = stack.pop()
            for (p, s) in self.edges:
                if s == x and p not in out:
                    out.add(p)
                    stack.append(p)
        return out

    def topo(self):
        """Sequential evaluation order: repeatedly the first task (entry order) whose predecessors are done."""
        done, out = set(), []
        while len(out) < len(self.order):
            for t in self.order:
                if t not in done and all(p in done for p in self.preds(t)):
                    done.add(t)
                    out.append(t)
                    break
            else:
                raise ValueError("cycle in shadow")
        return out

    # ---- operations
    def apply(self, op):
        """Apply op; returns a dict of facts about the operation (category of an insert ...)."""
        k = op["op"]
        if k == "ctor":
            for t in op["tasks"]:
                self.add_node(t)
        elif k in ("add", "readd"):
            self.add_node(op["t"])
            for p in op["preds"]:
                self.edges.add((p, op["t"]))
        elif k == "replace":
            old, new = op["old"], op["new"]
            self.order.remove(old)
            self.order.append(new)
            self.edges = {(new if p == old else p, new if s == old else s) for (p, s) in self.edges}
        elif k == "insert":
            cat, conn = insert_connections(self, op)
            if conn is None:
                raise ValueError("N:M insert applied to shadow")
            sub = sub_shadow(op["sub"])
            for t in sub.order:
                self.add_node(t)
            self.edges |= sub.edges
            self.edges |= set(conn)
            return {"cat": cat}
        elif k == "plus":
            sub = sub_shadow(op["sub"])
            for t in sub.order:
                self.add_node(t)
            self.edges |= sub.edges
        elif k in ("roundtrip", "nm_refusal", "multi_sink_probe"):
            pass
        else:
            raise ValueError(k)
        return {}


def sub_shadow(sub):
    s = Shadow()
    for t in sub["ctor"]:
        s.add_node(t)
    for a in sub["adds"]:
        s.add_node(a["t"])
        for p in a["preds"]:
            s.edges.add((p, a["t"]))
    return s


def insert_connections(sh, op):
    """Documented connection rule of insert_workflow.  Returns (category, edges) ; edges None = refusal."""
    sub = sub_shadow(op["sub"])
    inputs = sub.sources()
    preds = op["preds"]
    if preds is None:
        outputs = sh.sinks()
    elif isinstance(preds, list):
        outputs = list(preds)
    else:
        outputs = [preds]
    ni, no = len(inputs), len(outputs)
    if ni == no:
        return ("1:1" if ni == 1 else "N:N"), list(zip(outputs, inputs))
    if ni == 1:
        return ("N:1" if no else "0:1"), [(o, inputs[0]) for o in outputs]
    if no == 1:
        return "1:N", [(outputs[0], i) for i in inputs]
    return "N:M", None


# ------------------------------------------------------------------ the pure task family
def enc(x):
    if isinstance(x, str):
        return x
    if isinstance(x, bool) or x is None or isinstance(x, (int, float)):
        return repr(x)
    if isinstance(x, list):
        return "[" + ",".join(enc(v) for v in x) + "]"
    if isinstance(x, tuple):
        return "(" + ",".join(enc(v) for v in x) + ")"
    if isinstance(x, dict):
        return "{" + ",".join(enc(k) + ":" + enc(v) for k, v in x.items()) + "}"
    if isinstance(x, (set, frozenset)):
        return "{" + ",".join(sorted(enc(v) for v in x)) + "}"
    return "<" + type(x).__name__ + ">"


def compute(kind, label, args):
    """The value of a task: a pure function of (label, positional arguments without the context) that encodes
    the ORDER of its arguments."""
    if kind == "tuple":
        return (label,) + tuple(args)
    if kind == "concat":
        return label + "<" + ";".join(enc(a) for a in args) + ">"
    if kind == "list":
        return [label] + list(args)
    if kind == "dict":
        return {"t": label, "a": list(args)}
    if kind == "pick_first":
        return args[0] if args else label
    if kind == "pick_last":
        return args[-1] if args else label
    if kind == "count":
        return len(args)
    if kind == "const":
        return "K:" + label
    raise ValueError(kind)


def label_of(tid, spec):
    return f"{spec['name']}#{tid}"


def same(a, b):
    """Deep equality that also distinguishes 1 / True / 1.0 and list / tuple."""
    if type(a) is not type(b):
        return False
    if isinstance(a, (list, tuple)):
        return len(a) == len(b) and all(same(x, y) for x, y in zip(a, b))
    if isinstance(a, dict):
        return list(a.keys()) == list(b.keys()) and all(same(a[k], b[k]) for k in a)
    if isinstance(a, float):
        return a == b or (a != a and b != b)
    if a is b:
        return True
    if hasattr(a, "statements") and hasattr(a, "description"):
        # models compare equal whatever their name and description: a task must get ITS model, not an equal twin
        if getattr(a, "name", None) != getattr(b, "name", None) or a.description != b.description:
            return False
    try:
        return bool(a == b)
    except Exception:
        return False


def reference_eval(sh, specs, statics):
    """Sequential evaluation in topological order.  statics: tid -> list of materialised static inputs.
    Returns (values by tid, expected non-context args by tid, evaluation order)."""
    values, exp_args = {}, {}
    order = sh.topo()
    for t in order:
        args = list(statics[t]) + [values[p] for p in sh.preds(t)]
        exp_args[t] = args
        values[t] = compute(specs[t]["kind"], label_of(t, specs[t]), args)
    return values, exp_args, order


# ------------------------------------------------------------------ static inputs
def gen_static(rng, names, depth=0):
    r = rng.random()
    if depth >= 2:
        r *= 0.55
    if r < 0.18:
        return ["int", rng.choice([0, 1, -1, 2, 7, 12, 10**12])]
    if r < 0.24:
        return ["float", rng.choice([0.0, 0.5, -1.5, 1e-9])]
    if r < 0.29:
        return ["bool", rng.random() < 0.5]
    if r < 0.33:
        return ["none"]
    if r < 0.55:
        # strings: empty, spaces, equal to a task NAME (keys are name-uuid, so harmless), look-alikes of the sink key
        pool = ["", "a", "x y", "Results", "results ", "result", "t1", "é", "0", "-"] + [n for n in names if n != "results"]
        return ["str", rng.choice(pool)]
    if r < 0.70:
        return ["list", [gen_static(rng, names, depth + 1) for _ in range(rng.choice([0, 1, 2, 3]))]]
    if r < 0.82:
        n = rng.choice([0, 1, 2])
        keys = rng.sample(["k", "a", "results", 1, 2, "t1"], n)
        return ["dict", [[k, gen_static(rng, names, depth + 1)] for k in keys]]
    if r < 0.92:
        # tuples whose head is not callable are literals for dask
        n = rng.choice([0, 1, 2, 3])
        return ["tuple", [gen_static(rng, names, depth + 1) for _ in range(n)]]
    if r < 0.96:
        return ["fset", rng.sample([1, 2, 3, 5], rng.choice([0, 1, 2]))]
    if rng.random() < 0.6:
        # candidate twins: different objects that are == (and hash alike) but carry another name / description
        return ["model", rng.choice([1, 2, 3])]
    return ["model"]


HOSTILE = [
    ["str", "results"],
    ["list", [["str", "results"]]],
    ["tuple", [["str", "a"], ["str", "results"]]],
    ["tuple", [["callable", "len"], ["list", [["int", 1], ["int", 2], ["int", 3]]]]],
    ["list", [["tuple", [["callable", "len"], ["list", [["int", 1]]]]]]],
    ["tuple", [["callable", "sorted"], ["list", [["int", 2], ["int", 1]]]]],
]


def materialize(d, env=None):
    k = d[0]
    if k in ("int", "float", "bool", "str"):
        return d[1]
    if k == "none":
        return None
    if k == "list":
        return [materialize(x, env) for x in d[1]]
    if k == "tuple":
        return tuple(materialize(x, env) for x in d[1])
    if k == "dict":
        return {kk: materialize(v, env) for kk, v in d[1]}
    if k == "fset":
        return frozenset(d[1])
    if k == "model":
        m = (env or {}).get("model", "<model>")
        if len(d) > 1 and hasattr(m, "replace"):
            tw = (env or {}).setdefault("model_twins", {})
            if d[1] not in tw:
                tw[d[1]] = m.replace(name=f"cand{d[1]}", description=f"candidate number {d[1]}")
            return tw[d[1]]
        return m
    if k == "callable":
        return {"len": len, "sorted": sorted}[d[1]]
    raise ValueError(d)


def is_hostile(d):
    """Would dask's graph specification interpret this literal?  (a string equal to the only predictable key,
    'results', or a tuple with a callable head; at top level or nested in list / tuple / set - not in dicts)."""
    k = d[0]
    if k == "str":
        return d[1] == "results"
    if k == "callable":
        return True
    if k in ("list", "tuple"):
        return any(is_hostile(x) for x in d[1])
    return False


# ------------------------------------------------------------------ plan generation
def _form(rng, n):
    if n == 0:
        return rng.choice(["none", "none", "list"])
    if n == 1:
        return rng.choice(["single", "list"])
    return "list"


def _gen_sub(rng, fresh, size, n_sources=None):
    size = max(1, size)
    if n_sources is None:
        c = rng.randint(1, size)
    else:
        c = min(n_sources, size)
    tids = [fresh() for _ in range(size)]
    ctor = tids[:c]
    if rng.random() < 0.3:
        rng.shuffle(ctor)
    adds = []
    present = list(ctor)
    for t in tids[c:]:
        lo = 1 if n_sources is not None else 0
        n = rng.randint(lo, min(3, len(present)))
        preds = rng.sample(present, n)
        adds.append({"t": t, "preds": preds, "form": _form(rng, n)})
        present.append(t)
    # sometimes declare the ctor tasks through add_task instead (empty ctor)
    if rng.random() < 0.2:
        adds = [{"t": t, "preds": [], "form": "none"} for t in ctor] + adds
        ctor = []
    return {"ctor": ctor, "adds": adds, "as": rng.choice(["workflow", "builder"])}


def _sub_tids(sub):
    out = list(sub["ctor"])
    for a in sub["adds"]:
        if a["t"] not in out:
            out.append(a["t"])
    return out


def gen_structure(rng, max_tasks=MAX_TASKS):
    counter = [0]

    def fresh():
        counter[0] += 1
        return counter[0] - 1

    target = rng.choice([2, 3, 4, 5, 6, 6, 7, 8, 8, 9, 10, 10, 11, 12, 12, 12])
    target = min(target, max_tasks)
    body = target - 1  # one slot reserved for a joining sink
    sh = Shadow()
    ops = []
    k = min(rng.choice([0, 1, 1, 2, 2, 3]), body)
    first = {"op": "ctor", "tasks": [fresh() for _ in range(k)]}
    ops.append(first)
    sh.apply(first)
    steps = 0
    while len(sh.order) < body and steps < 40:
        steps += 1
        room = body - len(sh.order)
        n = len(sh.order)
        r = rng.random()
        if r < 0.40 or n == 0:
            npred = rng.choice([0, 1, 1, 2, 2, 2, 3, 3, 4])
            npred = min(npred, n)
            preds = rng.sample(sh.order, npred)
            op = {"op": "add", "t": fresh(), "preds": preds, "form": _form(rng, npred)}
        elif r < 0.66:
            op = _gen_insert(rng, sh, fresh, room)
        elif r < 0.73:
            sub = _gen_sub(rng, fresh, rng.randint(1, min(3, room)))
            op = {"op": "plus", "sub": sub, "how": rng.choice(["b+w", "b+w", "b+b", "w+w"])}
            if op["how"] == "w+w":
                sub["as"] = "workflow"
            elif op["how"] == "b+b":
                sub["as"] = "builder"
        elif r < 0.83:
            op = {"op": "replace", "old": rng.choice(sh.order), "new": fresh()}
        elif r < 0.91:
            t = rng.choice(sh.order)
            banned = sh.descendants(t) | {t} | set(sh.preds(t))
            cand = [p for p in sh.order if p not in banned]
            if not cand:
                continue
            npred = min(len(cand), rng.choice([1, 1, 2]))
            preds = rng.sample(cand, npred)
            op = {"op": "readd", "t": t, "preds": preds, "form": _form(rng, npred)}
        elif r < 0.96:
            op = {"op": "roundtrip"}
        else:
            op = _gen_refusal(rng, sh, fresh)
            if op is None:
                continue
        ops.append(op)
        sh.apply(op)
    # ---- one sink
    if not sh.order:
        op = {"op": "add", "t": fresh(), "preds": [], "form": "none"}
        ops.append(op)
        sh.apply(op)
    sinks = sh.sinks()
    if len(sinks) > 1:
        if rng.random() < 0.3:
            ops.append({"op": "multi_sink_probe"})
        r = rng.random()
        if r < 0.6:
            preds = list(sinks)
            rng.shuffle(preds)
            others = [t for t in sh.order if t not in sinks]
            if others and rng.random() < 0.3:
                preds.insert(rng.randint(0, len(preds)), rng.choice(others))
            op = {"op": "add", "t": fresh(), "preds": preds, "form": "list"}
        else:
            sub = {"ctor": [fresh()], "adds": [], "as": rng.choice(["workflow", "builder"])}
            if rng.random() < 0.5:
                op = {"op": "insert", "sub": sub, "preds": None}
            else:
                preds = list(sinks)
                rng.shuffle(preds)
                op = {"op": "insert", "sub": sub, "preds": preds}
        ops.append(op)
        sh.apply(op)
    if rng.random() < 0.15:
        ops.append({"op": "roundtrip"})
    assert len(sh.sinks()) == 1 and len(sh.order) <= max_tasks
    return ops, sh, counter[0]


def _gen_insert(rng, sh, fresh, room):
    n = len(sh.order)
    want = rng.choice(["1:1", "N:N", "N:1", "1:N", "any", "any"])
    sinks = sh.sinks()
    if want == "N:N" and room >= 2 and n >= 2:
        k = rng.randint(2, min(3, room, n))
        sub = _gen_sub(rng, fresh, rng.randint(k, min(room, k + 1)), n_sources=k)
        if len(sinks) == k and rng.random() < 0.5:
            preds = None
        else:
            preds = rng.sample(sh.order, k)
        return {"op": "insert", "sub": sub, "preds": preds}
    if want == "1:N" and room >= 2:
        k = rng.randint(2, min(3, room))
        sub = _gen_sub(rng, fresh, rng.randint(k, min(room, k + 1)), n_sources=k)
        if len(sinks) == 1 and rng.random() < 0.4:
            preds = None
        else:
            p = rng.choice(sh.order)
            preds = p if rng.random() < 0.5 else [p]
        return {"op": "insert", "sub": sub, "preds": preds}
    if want == "N:1" and n >= 2:
        sub = _gen_sub(rng, fresh, rng.randint(1, min(3, room)), n_sources=1)
        if len(sinks) >= 2 and rng.random() < 0.5:
            preds = None
        else:
            preds = rng.sample(sh.order, rng.randint(2, min(4, n)))
        return {"op": "insert", "sub": sub, "preds": preds}
    if want == "1:1":
        sub = _gen_sub(rng, fresh, rng.randint(1, min(3, room)), n_sources=1)
        if len(sinks) == 1 and rng.random() < 0.4:
            preds = None
        else:
            p = rng.choice(sh.order)
            preds = p if rng.random() < 0.5 else [p]
        return {"op": "insert", "sub": sub, "preds": preds}
    # any: random sub and random predecessor form; an N:M outcome becomes a refusal probe
    sub = _gen_sub(rng, fresh, rng.randint(1, min(4, room)))
    r = rng.random()
    if r < 0.4:
        preds = None
    elif r < 0.6:
        preds = rng.choice(sh.order)
    elif r < 0.95:
        preds = rng.sample(sh.order, rng.randint(1, min(3, n)))
    else:
        preds = []
    op = {"op": "insert", "sub": sub, "preds": preds}
    cat, conn = insert_connections(sh, op)
    if conn is None:
        op["op"] = "nm_refusal"
    return op


def _gen_refusal(rng, sh, fresh):
    n = len(sh.order)
    if n < 2:
        return None
    for _ in range(10):
        ni = rng.randint(2, 3)
        no = rng.randint(2, min(4, n))
        if ni == no:
            continue
        sub = _gen_sub(rng, fresh, ni + rng.choice([0, 1]), n_sources=ni)
        sinks = sh.sinks()
        if len(sinks) == no and rng.random() < 0.4:
            preds = None
        else:
            preds = rng.sample(sh.order, no)
        op = {"op": "nm_refusal", "sub": sub, "preds": preds}
        if insert_connections(sh, op)[1] is None:
            return op
    return None


NAME_POOL = ["results", "t1", "a", "run", "x y", "task", "results-1"]


def mixed_successors(sh, specs):
    """successors whose predecessors are a mix of context-taking and other tasks; second value: those where a
    context-taking predecessor precedes (entry order) a non-context one."""
    mixed, harmful = [], []
    for t in sh.order:
        flags = [bool(specs[p]["ctx"]) for p in sh.preds(t)]
        if any(flags) and not all(flags):
            mixed.append(t)
            seen_ctx = False
            for f in flags:
                if f:
                    seen_ctx = True
                elif seen_ctx:
                    harmful.append(t)
                    break
    return mixed, harmful


def assign_specs(rng, ops, sh, ntids, stratum):
    specs = {}
    for tid in range(ntids):
        if rng.random() < 0.18:
            name = rng.choice(NAME_POOL)
        else:
            name = f"t{tid}"
        specs[tid] = {"name": name, "kind": rng.choices(KINDS, KIND_WEIGHTS)[0], "ctx": rng.random() < 0.4,
                      "form": "decoy" if rng.random() < 0.15 else "plain", "static": []}
    names = [s["name"] for s in specs.values()]
    for tid in range(ntids):
        n = rng.choice([0, 0, 1, 1, 2, 3])
        specs[tid]["static"] = [gen_static(rng, names) for _ in range(n)]
    # the sink and sources should mostly keep information
    if stratum in ("A", "D"):
        # tasks sharing a successor get the same context flag (no successor mixes the two kinds)
        parent = {t: t for t in sh.order}

        def find(x):
            while parent[x] != x:
                parent[x] = parent[parent[x]]
                x = parent[x]
            return x

        for t in sh.order:
            ps = sh.preds(t)
            for p in ps[1:]:
                parent[find(p)] = find(ps[0])
        flag = {}
        for t in sh.order:
            r = find(t)
            if r not in flag:
                flag[r] = rng.random() < 0.4
            specs[t]["ctx"] = flag[r]
    else:
        multi = [t for t in sh.order if len(sh.preds(t)) >= 2]
        if not multi:
            return None
        mixed, harmful = mixed_successors(sh, specs)
        want_harmful = rng.random() < 0.8
        if want_harmful and not harmful:
            t = rng.choice(multi)
            ps = sh.preds(t)
            specs[ps[0]]["ctx"] = True
            specs[ps[-1]]["ctx"] = False
        elif not want_harmful:
            # context-taking predecessors only AFTER the others: mixing that the relabelling does not reorder
            for t in sh.order:
                specs[t]["ctx"] = False
            t = rng.choice(multi)
            ps = sh.preds(t)
            specs[ps[-1]]["ctx"] = True
            if harmful_exists(sh, specs):
                specs[ps[-1]]["ctx"] = False
                specs[ps[0]]["ctx"] = True  # cannot be made harmless -> harmful instead
    if stratum == "D":
        t = rng.choice(sh.order)
        st = specs[t]["static"]
        st.insert(rng.randint(0, len(st)), copy.deepcopy(rng.choice(HOSTILE)))
    return specs


def harmful_exists(sh, specs):
    return bool(mixed_successors(sh, specs)[1])


def gen_plan(rng, stratum):
    for _ in range(60):
        ops, sh, ntids = gen_structure(rng)
        specs = assign_specs(rng, ops, sh, ntids, stratum)
        if specs is None:
            continue
        if stratum == "B" and not mixed_successors(sh, specs)[0]:
            continue
        return {"stratum": stratum, "ops": ops, "specs": specs, "name": rng.choice(["wf", "w f", "results", "W1"])}
    return None


def final_shadow(plan):
    sh = Shadow()
    for op in plan["ops"]:
        sh.apply(op)
    return sh


def delta_ctx(plan):
    """Same plan with the context parameter removed from the context-taking predecessors of mixed successors."""
    p = copy.deepcopy(plan)
    sh = final_shadow(p)
    for _ in range(len(sh.order) + 1):
        mixed, _h = mixed_successors(sh, p["specs"])
        if not mixed:
            break
        for t in mixed:
            for q in sh.preds(t):
                p["specs"][q]["ctx"] = False
    return p


def _inert(d):
    k = d[0]
    if k == "str" and d[1] == "results":
        return ["str", "inert"]
    if k == "callable":
        return ["str", "fn:" + d[1]]
    if k in ("list", "tuple"):
        return [k, [_inert(x) for x in d[1]]]
    return d


def delta_static(plan):
    p = copy.deepcopy(plan)
    for s in p["specs"].values():
        s["static"] = [_inert(d) for d in s["static"]]
    return p


def _has_empty_set(d):
    k = d[0]
    if k == "fset":
        return not d[1]
    if k in ("list", "tuple"):
        return any(_has_empty_set(x) for x in d[1])
    return False


def has_empty_set(plan):
    """an empty set among the static inputs (top level or inside list / tuple; dicts are passed through as is)"""
    return any(_has_empty_set(d) for s in plan["specs"].values() for d in s["static"])


def _fill_sets(d):
    k = d[0]
    if k == "fset" and not d[1]:
        return ["fset", [1]]
    if k in ("list", "tuple"):
        return [k, [_fill_sets(x) for x in d[1]]]
    return d


def delta_sets(plan):
    p = copy.deepcopy(plan)
    for s in p["specs"].values():
        s["static"] = [_fill_sets(d) for d in s["static"]]
    return p


def inject_model_twins(rng, plan):
    """Two tasks get different model twins (== and hash alike, other name / description) as first static input."""
    p = copy.deepcopy(plan)
    sh = final_shadow(p)
    ts = rng.sample(list(sh.order), min(2, len(sh.order)))
    for k, t in enumerate(ts):
        if t in p["specs"]:
            p["specs"][t]["static"] = [["model", k + 1]] + list(p["specs"][t]["static"])
    return p


def inject_empty_set(rng, plan):
    p = copy.deepcopy(plan)
    sh = final_shadow(p)
    t = rng.choice(sh.order)
    d = rng.choice([["fset", []], ["list", [["int", 1], ["fset", []]]], ["tuple", [["str", "a"], ["fset", []]]]])
    st = p["specs"][t]["static"]
    st.insert(rng.randint(0, len(st)), d)
    return p


def render(plan):
    tasks = {}
    for tid, s in plan["specs"].items():
        tasks[str(tid)] = f"{s['name']} kind={s['kind']} ctx={s['ctx']} form={s['form']} static={s['static']}"
    return {"stratum": plan["stratum"], "name": plan["name"], "ops": plan["ops"], "tasks": tasks}


def structure_fp(plan):
    sh = final_shadow(plan)
    return (tuple(sh.order), tuple(sorted(sh.edges)),
            tuple((t, plan["specs"][t]["kind"], plan["specs"][t]["ctx"], len(plan["specs"][t]["static"]))
                  for t in sh.order),
            tuple(op["op"] for op in plan["ops"]))
