"""Reference model, generators and comparison for random-effect collections (property C11).

The reference model (`Ref`) is a plain data structure:

    blocks : list of lists of names          (the partition into distributions, in the current order)
    level  : name -> 'IIV' | 'IOV' | 'RUV'
    mean   : name -> sympy expression
    cov    : (a, b) with a <= b -> sympy expression   (variance when a == b; absent = 0; only pairs of one block)

Every operation is applied to it by a trivially correct rule (`ref_*`), never by calling pharmpy.  The order of
names is underdetermined by the documentation, therefore after each operation the *observed* order is adopted
once it has passed the order criteria (see `compare`).
"""
from __future__ import annotations

import zlib
from collections import Counter

import sympy

ZERO = sympy.Integer(0)

ETA_NAMES = ["ETA1", "ETA2", "ETA10", "ETA_CL", "ETA_V", "ETA_KA", "eta3", "ETA_E", "ETA_IOV_1", "ETA_IOV_2",
             "ETA_2", "ETAX", "ETA_MAT", "ETA11"]
EPS_NAMES = ["EPS1", "EPS2", "EPS10", "ERR", "eps_add", "EPS_PROP"]


class NotJudged(Exception):
    """The documentation does not define the outcome of this operation."""


class Adopt:
    """A covariance whose name the docs leave open: any not yet used candidate symbol is accepted."""

    def __init__(self, candidates):
        self.candidates = set(candidates)

    def __repr__(self):
        return f"Adopt({sorted(self.candidates)})"


class Ref:
    def __init__(self):
        self.blocks = []
        self.level = {}
        self.mean = {}
        self.cov = {}

    def copy(self):
        r = Ref()
        r.blocks = [list(b) for b in self.blocks]
        r.level = dict(self.level)
        r.mean = dict(self.mean)
        r.cov = dict(self.cov)
        return r

    def names(self):
        return [n for b in self.blocks for n in b]

    @staticmethod
    def key(a, b):
        return (a, b) if a <= b else (b, a)

    def block_index(self, name):
        for i, b in enumerate(self.blocks):
            if name in b:
                return i
        raise KeyError(name)

    def same_block(self, a, b):
        return self.block_index(a) == self.block_index(b)

    def get(self, a, b):
        if a != b and not self.same_block(a, b):
            return ZERO
        return self.cov.get(self.key(a, b), ZERO)

    def restrict(self, keep):
        """Sub-collection with only the names in `keep` (order and covariances inside blocks kept)."""
        keep = set(keep)
        r = Ref()
        r.blocks = [[n for n in b if n in keep] for b in self.blocks]
        r.blocks = [b for b in r.blocks if b]
        for n in r.names():
            r.level[n] = self.level[n]
            r.mean[n] = self.mean[n]
        for (a, b), v in self.cov.items():
            if a in keep and b in keep:
                r.cov[(a, b)] = v
        return r

    def render(self):
        out = []
        for b in self.blocks:
            rows = [[str(self.get(a, c)) for c in b] for a in b]
            out.append({"names": list(b), "level": self.level[b[0]], "mean": [str(self.mean[n]) for n in b],
                        "var": rows})
        return out


def is_zero(e):
    if isinstance(e, Adopt):
        return False
    e = sympy.sympify(e)
    return bool(e.is_number) and float(e) == 0  # NB sympy >= 1.13: Float(0.0) != Integer(0)


# ----------------------------------------------------------------------------------- expressions
def symval(name, salt):
    return 0.5 + (zlib.crc32(f"{salt}:{name}".encode()) % 100003) / 100003.0 * 2.0


def to_sympy(e):
    return sympy.sympify(e)


def expr_equal(a, b):
    """Structural equality, else numeric agreement (1e-9 relative) at two fixed points."""
    a = to_sympy(a)
    b = to_sympy(b)
    if a == b:
        return True
    syms = a.free_symbols | b.free_symbols
    for salt in (1, 2):
        env = {s: sympy.Float(symval(s.name, salt)) for s in syms}
        try:
            va = float(a.xreplace(env))
            vb = float(b.xreplace(env))
        except (TypeError, ValueError):
            return False
        if abs(va - vb) > 1e-9 * max(1.0, abs(va), abs(vb)):
            return False
    return True


def to_native(x):
    """sympy value -> something symengine.sympify takes without loss"""
    x = sympy.sympify(x)
    if x.is_Float:
        return float(x)
    if x.is_Integer:
        return int(x)
    return x


# ----------------------------------------------------------------------------------- pharmpy builders
def build_dist(ref, block, use_create):
    from pharmpy.basic import Matrix
    from pharmpy.model import JointNormalDistribution, NormalDistribution

    lvl = ref.level[block[0]]
    if len(block) == 1:
        n = block[0]
        return NormalDistribution.create(n, lvl, to_native(ref.mean[n]), to_native(ref.get(n, n)))
    mean = [to_native(ref.mean[n]) for n in block]
    var = [[to_native(ref.get(a, b)) for b in block] for a in block]
    if use_create:
        return JointNormalDistribution.create(list(block), lvl, mean, var)
    return JointNormalDistribution(tuple(block), lvl.upper(), Matrix(mean), Matrix(var))


def build_rvs(ref, use_create=False):
    from pharmpy.model import RandomVariables

    return RandomVariables.create([build_dist(ref, b, use_create) for b in ref.blocks])


# ----------------------------------------------------------------------------------- generation of a collection
def _pd_numeric(rng, n):
    """Exactly representable PD matrix L L^T / 8 with small integer L (zeros arise naturally)."""
    L = [[0] * n for _ in range(n)]
    for i in range(n):
        for j in range(i):
            L[i][j] = rng.choice([-2, -1, 0, 0, 1, 1, 2])
        L[i][i] = rng.choice([1, 2, 3])
    A = [[sum(L[i][k] * L[j][k] for k in range(n)) / 8.0 for j in range(n)] for i in range(n)]
    return A


def gen_block_entries(rng, ref, block, mode, tag=""):
    n = len(block)
    num = _pd_numeric(rng, n) if mode != "symbolic" else None
    for i, a in enumerate(block):
        for j in range(i + 1):
            b = block[j]
            if mode == "numeric":
                v = sympy.Float(num[i][j]) if num[i][j] != 0 else ZERO
            else:
                if i == j:
                    v = sympy.Symbol(f"OM{tag}_{a}")
                else:
                    v = sympy.Symbol(f"OM{tag}_{a}_{b}")
                if mode == "mixed" and rng.random() < 0.4:
                    if i == j:
                        v = sympy.Float(num[i][i])
                    else:
                        v = ZERO if rng.random() < 0.6 else sympy.Float(rng.choice([0.01, 0.125, -0.03125]))
            if not (v == 0):
                ref.cov[Ref.key(a, b)] = v


def gen_collection(rng, max_n=6, allow_numeric=True):
    n = rng.choice([1, 2, 3, 3, 4, 4, 4, 5, 5, 5, 6, 6, 6]) if max_n >= 6 else rng.randint(1, max_n)
    n_eps = min(n - 1, rng.choice([0, 0, 1, 1, 1, 2])) if n > 1 else rng.choice([0, 0, 1])
    etas = rng.sample(ETA_NAMES, n - n_eps)
    epss = rng.sample(EPS_NAMES, n_eps)
    ref = Ref()
    blocks = []
    for pool, is_eps in ((etas, False), (epss, True)):
        rest = list(pool)
        while rest:
            k = min(len(rest), rng.choice([1, 1, 2, 2, 3, 3, 4, 5]))
            blk, rest = rest[:k], rest[k:]
            lvl = "RUV" if is_eps else ("IIV" if rng.random() < 0.7 else "IOV")
            blocks.append((blk, lvl))
    rng.shuffle(blocks)
    for blk, lvl in blocks:
        ref.blocks.append(list(blk))
        for nme in blk:
            ref.level[nme] = lvl
            r = rng.random()
            ref.mean[nme] = ZERO if r < 0.9 else (sympy.Symbol(f"MU_{nme}") if r < 0.95 else sympy.Float(0.5))
        r = rng.random()
        mode = "symbolic" if (r < 0.6 or not allow_numeric) else ("numeric" if r < 0.8 else "mixed")
        gen_block_entries(rng, ref, blk, mode)
    # IOV style sharing of one variance symbol between two singleton blocks of the same level
    singles = [b[0] for b in ref.blocks if len(b) == 1 and ref.get(b[0], b[0]).is_Symbol]
    if len(singles) >= 2 and rng.random() < 0.25:
        a, b = rng.sample(singles, 2)
        if ref.level[a] == ref.level[b]:
            ref.cov[(b, b)] = ref.cov[(a, a)]
    return ref


# ----------------------------------------------------------------------------------- reference operations
def contiguous_in(order, block):
    idx = sorted(order.index(n) for n in block)
    return idx == list(range(idx[0], idx[0] + len(idx))) if idx else True


def trailing_pattern(ref, inds):
    """The construct of finding C11/unjoin-moves-trailing-variable: a variable taken out of a block
    (by unjoin or join) stands after a variable that remains in that block."""
    inds = set(inds)
    for b in ref.blocks:
        rem = [n for n in b if n in inds]
        keep = [n for n in b if n not in inds]
        if rem and keep and b.index(rem[-1]) > b.index(keep[0]):
            return True
    return False


def ref_unjoin(ref, inds):
    inds = [n for n in dict.fromkeys(inds)]
    new = Ref()
    new.level, new.mean = dict(ref.level), dict(ref.mean)
    for b in ref.blocks:
        rem = [n for n in b if n in inds]
        keep = [n for n in b if n not in inds]
        if not rem or len(b) == 1:
            new.blocks.append(list(b))
            continue
        for n in rem:
            new.blocks.append([n])
        if keep:
            new.blocks.append(keep)
    for (a, b), v in ref.cov.items():
        if a == b or (a not in inds and b not in inds):
            new.cov[(a, b)] = v
    return new


def ref_join(ref, inds, fill, template, pnames):
    """Docstring of join: all joined variables form one new joint distribution; previous covariances between
    them are kept, new ones (and previous zeros) become `fill`; `name_template` overrides `fill`."""
    J = [n for n in ref.names() if n in set(inds)]
    if len({ref.level[n] for n in J}) > 1:
        raise NotJudged("mixed-level-join")
    in_self_order = list(dict.fromkeys(inds)) == J
    new = Ref()
    new.level, new.mean = dict(ref.level), dict(ref.mean)
    placed = False
    for b in ref.blocks:
        keep = [n for n in b if n not in J]
        if len(keep) != len(b) and not placed:
            new.blocks.append(list(J))
            placed = True
        if keep:
            new.blocks.append(keep)
    for (a, b), v in ref.cov.items():
        if a == b or ((a in J) == (b in J)):
            new.cov[(a, b)] = v
    created = {}
    for i, a in enumerate(J):
        for j in range(i):
            b = J[j]
            old = ref.get(a, b)
            if not is_zero(old):
                continue
            if template:
                if in_self_order:
                    nm = template.format(pnames[j], pnames[i])
                    new.cov[Ref.key(a, b)] = sympy.Symbol(nm)
                    created[nm] = (a, b)
                else:
                    cands = {template.format(p, q) for p in pnames for q in pnames if p != q}
                    new.cov[Ref.key(a, b)] = Adopt(cands)
            elif not is_zero(fill):
                new.cov[Ref.key(a, b)] = sympy.sympify(fill)
            else:
                new.cov.pop(Ref.key(a, b), None)
    return new, J, created, in_self_order


def ref_select(ref, names):
    return ref.restrict(names)


def ref_slice(ref, sl):
    blocks = ref.blocks[sl]
    r = ref.restrict([n for b in blocks for n in b])
    r.blocks = [list(b) for b in blocks]
    return r


def ref_subs(ref, rename, psub):
    """rename: old rv name -> new rv name; psub: sympy Symbol -> sympy expression (simultaneous)."""
    new = Ref()
    f = lambda n: rename.get(n, n)  # noqa: E731
    new.blocks = [[f(n) for n in b] for b in ref.blocks]
    for n in ref.names():
        new.level[f(n)] = ref.level[n]
        new.mean[f(n)] = sympy.sympify(ref.mean[n]).xreplace(psub)
    for (a, b), v in ref.cov.items():
        new.cov[Ref.key(f(a), f(b))] = sympy.sympify(v).xreplace(psub)
    return new


def ref_concat(left, right):
    new = left.copy()
    new.blocks += [list(b) for b in right.blocks]
    new.level.update(right.level)
    new.mean.update(right.mean)
    new.cov.update(right.cov)
    return new


def ref_permute(ref, idxs):
    r = ref.restrict([n for i in idxs for n in ref.blocks[i]])
    r.blocks = [list(ref.blocks[i]) for i in idxs]
    return r


# ----------------------------------------------------------------------------------- comparison
class Mismatch(Exception):
    def __init__(self, fact, msg):
        super().__init__(msg)
        self.fact = fact
        self.msg = msg


def observed_blocks(rvs):
    return [list(rvs[i].names) for i in range(len(rvs))]


def compare(c, rvs, ref, expected_order=None, keep_rel=None, old_order=None, tag=""):
    """Judge a pharmpy RandomVariables against the reference.  Raises Mismatch(fact, msg) on the first
    contradiction; otherwise adopts the observed order into `ref` and returns.

    expected_order : exact list of names the docs imply (concatenation, selection, substitution), or None
    keep_rel       : names whose relative order may not change (variables an operation does not touch)
    old_order      : order before the operation; when every block of the new partition is contiguous in it,
                     no reordering was needed and the order must be unchanged.
    """
    names = list(rvs.names)
    c.hit("names_multiset")
    if Counter(names) != Counter(ref.names()):
        raise Mismatch("names", f"name multiset changed: got {names}, reference {ref.names()}")
    obs = observed_blocks(rvs)
    c.hit("partition_contiguity")
    if [n for b in obs for n in b] != names:
        raise Mismatch("contiguity", f"names {names} is not the concatenation of the distributions {obs}")
    if sorted(sorted(b) for b in obs) != sorted(sorted(b) for b in ref.blocks):
        raise Mismatch("partition", f"blocks {obs}, reference partition {ref.blocks}")
    if rvs.nrvs != len(names) or len(rvs) != len(obs):
        raise Mismatch("partition", f"nrvs/len inconsistent: nrvs={rvs.nrvs} len={len(rvs)} names={names}")
    # ---- order
    if expected_order is not None:
        c.hit("order_exact")
        if names != list(expected_order):
            raise Mismatch("order", f"order of names {names}, documented order {list(expected_order)}")
    if keep_rel is not None:
        c.hit("order_untouched_relative")
        want = [n for n in keep_rel if n in names]
        got = [n for n in names if n in set(want)]
        if want != got:
            raise Mismatch("order", f"relative order of untouched variables changed: {want} -> {got}")
    if old_order is not None:
        old = [n for n in old_order if n in set(names)]
        if sorted(old) == sorted(names) and all(contiguous_in(old, b) for b in ref.blocks):
            c.hit("order_no_change_needed")
            if names != old:
                raise Mismatch("order-not-needed",
                               f"order changed {old} -> {names} although every block {ref.blocks} was already "
                               f"contiguous")
    ref.blocks = [list(b) for b in obs]
    # ---- level, mean, variance, covariance per distribution
    for i, b in enumerate(obs):
        d = rvs[i]
        used = set()
        for x, a in enumerate(b):
            c.hit("level_mean")
            if d.level != ref.level[a]:
                raise Mismatch("level", f"level of {a} is {d.level}, reference {ref.level[a]}")
            m = d.mean[x] if hasattr(d.mean, "rows") else d.mean
            if not expr_equal(m, ref.mean[a]):
                raise Mismatch("mean", f"mean of {a} is {m}, reference {ref.mean[a]}")
            c.hit("variance")
            v = d.get_variance(a)
            if not expr_equal(v, ref.get(a, a)):
                raise Mismatch("variance", f"variance of {a} is {v}, reference {ref.get(a, a)}")
            for y in range(x):
                bb = b[y]
                c.hit("covariance")
                cv = d.get_covariance(a, bb)
                cv2 = d.get_covariance(bb, a)
                want = ref.get(a, bb)
                if isinstance(want, Adopt):
                    s = to_sympy(cv)
                    if not (s.is_Symbol and s.name in want.candidates and s.name not in used):
                        raise Mismatch("covariance", f"new covariance of {a},{bb} is {cv}; expected a fresh "
                                                     f"symbol from {sorted(want.candidates)}")
                    used.add(s.name)
                    ref.cov[Ref.key(a, bb)] = s
                    want = s
                if not expr_equal(cv, want) or not expr_equal(cv2, want):
                    raise Mismatch("covariance", f"cov({a},{bb}) is {cv} / {cv2}, reference {want}")
    # ---- the overall matrix is the block-diagonal composition
    M = rvs.covariance_matrix
    n = len(names)
    c.hit("covariance_matrix")
    if M.rows != n or M.cols != n:
        raise Mismatch("covariance_matrix", f"covariance_matrix is {M.rows}x{M.cols} for {n} variables")
    for i in range(n):
        for j in range(n):
            want = ref.get(names[i], names[j])
            got = M[i, j]
            if (is_zero(want) and not (got == 0)) or not expr_equal(got, want):
                raise Mismatch("covariance_matrix",
                               f"covariance_matrix[{names[i]},{names[j]}] = {got}, block-diagonal composition "
                               f"gives {want}")
    for i in range(n):
        for j in range(i):
            c.hit("get_covariance")
            got = rvs.get_covariance(names[i], names[j])
            if not expr_equal(got, ref.get(names[i], names[j])):
                raise Mismatch("covariance", f"get_covariance({names[i]},{names[j]}) = {got}, reference "
                                             f"{ref.get(names[i], names[j])}")
    # ---- variance_parameters (only defined when every variance is a plain symbol)
    vs = [ref.get(a, a) for a in names]
    if all(sympy.sympify(v).is_Symbol for v in vs):
        c.hit("variance_parameters")
        want = list(dict.fromkeys(v.name for v in vs))
        got = list(rvs.variance_parameters)
        if got != want:
            raise Mismatch("variance_parameters", f"variance_parameters {got}, reference {want}")
    else:
        c.hit("not_judged:variance_parameters-with-numeric-variance")
