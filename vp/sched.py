"""Controlled scheduler for pharmpy's path lock (DESIGN.md 2.4).

lock.py is executed as private module instances (one per *virtual process*) whose `threading`, `fcntl` and `os`
imports resolve to the shims below.  Virtual threads are real Python threads, but a central loop hands a baton to
exactly one of them at a time; every primitive operation (Lock/RLock/Condition acquire, release, wait, notify,
lockf, os.open/close) is a scheduling point.  Blocking is modelled (a thread is marked blocked-on-x and only woken
when x changes), never slept, so deadlock is decided on logical state.  The simulated kernel implements POSIX record
lock semantics per (virtual pid, file): atomic SH<->EX conversion, all locks of a process on a file dropped when it
closes ANY descriptor of that file, EDEADLK on a cross-process wait cycle.
"""
from __future__ import annotations

import errno
import importlib.util
import os as _real_os
import sys
import threading
import types

LOCK_SH, LOCK_EX, LOCK_NB, LOCK_UN = 1, 2, 4, 8


def _lock_py():
    import importlib.util

    return importlib.util.find_spec("pharmpy.internals.fs.lock").origin


class Abort(BaseException):
    """Unwinds a virtual thread when the run is over (deadlock reached / watchdog)."""


class Deadlock(Exception):
    pass


class Run:
    """One execution of a program under one schedule."""

    def __init__(self, chooser, max_steps=4000):
        self.chooser = chooser  # callable(list of ready thread ids, step) -> index
        self.max_steps = max_steps
        self.state = {}  # vt -> 'ready' | ('blocked', key) | 'done'
        self.go = {}
        self.back = threading.Semaphore(0)
        self.abort = False
        self.current = None
        self.steps = 0
        self.choices = []
        self.switches = 0
        self.trace = []  # (step, vt, op) compact trace of scheduling points
        self.events = []  # harness events (request/enter/exit/released/refused)
        self.threads = {}
        self.vpid_of = {}
        self.kernel = Kernel(self)
        self.errors = []  # exceptions escaping thread bodies
        self.in_lock_code = {}  # vt -> bool
        self.tls = threading.local()

    # ---------------------------------------------------------------- thread side
    def me(self):
        return self.tls.vt

    def point(self, op=""):
        """Scheduling point: hand the baton back and wait to be chosen again."""
        if self.abort:
            raise Abort()
        vt = self.me()
        self.trace.append((vt, op))
        self.back.release()
        self.go[vt].acquire()
        if self.abort:
            raise Abort()

    def block(self, key, op=""):
        """Block the calling virtual thread until `key` is signalled."""
        if self.abort:
            raise Abort()
        vt = self.me()
        self.state[vt] = ("blocked", key)
        self.trace.append((vt, "BLOCK " + op))
        self.back.release()
        self.go[vt].acquire()
        if self.abort:
            raise Abort()

    def wake(self, key):
        for vt, st in self.state.items():
            if isinstance(st, tuple) and st[1] == key:
                self.state[vt] = "ready"

    def wake_if(self, pred):
        for vt, st in self.state.items():
            if isinstance(st, tuple) and pred(st[1]):
                self.state[vt] = "ready"

    # ---------------------------------------------------------------- controller side
    def spawn(self, vt, vpid, fn):
        self.state[vt] = "ready"
        self.go[vt] = threading.Semaphore(0)
        self.vpid_of[vt] = vpid

        def body():
            self.tls.vt = vt
            self.go[vt].acquire()
            try:
                if not self.abort:
                    fn()
            except Abort:
                pass
            except BaseException as e:  # noqa
                self.errors.append((vt, e))
            finally:
                self.state[vt] = "done"
                self.back.release()

        t = threading.Thread(target=body, daemon=True)
        self.threads[vt] = t
        t.start()

    def run(self):
        """Returns 'done', 'deadlock' or 'steplimit'."""
        outcome = "done"
        while True:
            ready = sorted(vt for vt, st in self.state.items() if st == "ready")
            if not ready:
                if any(isinstance(st, tuple) for st in self.state.values()):
                    outcome = "deadlock"
                break
            if self.steps >= self.max_steps:
                outcome = "steplimit"
                break
            i = self.chooser(ready, self.steps)
            vt = ready[i % len(ready)]
            self.choices.append(i % len(ready))
            if vt != self.current:
                self.switches += 1
            self.current = vt
            self.steps += 1
            self.go[vt].release()
            if not self.back.acquire(timeout=20):
                outcome = "watchdog"
                break
        self.blocked_at_end = {vt: st[1] for vt, st in self.state.items() if isinstance(st, tuple)}
        # unwind everything
        self.abort = True
        for vt, st in list(self.state.items()):
            if st != "done":
                self.go[vt].release()
        for t in self.threads.values():
            t.join(timeout=5)
        return outcome


# ------------------------------------------------------------------------------------------ shimmed threading
class ShimLock:
    def __init__(self, run, name="Lock"):
        self.run = run
        self.owner = None
        self.name = name

    def acquire(self, blocking=True, timeout=-1):
        r = self.run
        if r.abort:
            return True
        r.point(f"{self.name}.acquire")
        while self.owner is not None:
            if not blocking:
                return False
            r.block(("lock", id(self)), f"{self.name}.acquire")
        self.owner = r.me()
        return True

    def release(self):
        r = self.run
        if r.abort:
            return
        self.owner = None
        r.wake(("lock", id(self)))
        r.point(f"{self.name}.release")

    def locked(self):
        return self.owner is not None

    def __enter__(self):
        self.acquire()
        return self

    def __exit__(self, *a):
        self.release()


class ShimRLock:
    def __init__(self, run, name="RLock"):
        self.run = run
        self.owner = None
        self.count = 0
        self.name = name

    def acquire(self, blocking=True, timeout=-1):
        r = self.run
        if r.abort:
            return True
        r.point(f"{self.name}.acquire")
        me = r.me()
        while self.owner is not None and self.owner != me:
            if not blocking:
                return False
            r.block(("lock", id(self)), f"{self.name}.acquire")
        self.owner = me
        self.count += 1
        return True

    def release(self):
        r = self.run
        if r.abort:
            return
        if self.owner != r.me():
            raise RuntimeError("cannot release un-acquired lock")
        self.count -= 1
        if self.count == 0:
            self.owner = None
            r.wake(("lock", id(self)))
        r.point(f"{self.name}.release")

    # used by ShimCondition.wait
    def _release_save(self):
        c = self.count
        self.count = 0
        self.owner = None
        self.run.wake(("lock", id(self)))
        return c

    def _acquire_restore(self, c):
        r = self.run
        me = r.me()
        while self.owner is not None and self.owner != me:
            r.block(("lock", id(self)), f"{self.name}.reacquire")
        self.owner = me
        self.count = c

    def __enter__(self):
        self.acquire()
        return self

    def __exit__(self, *a):
        self.release()


class ShimCondition:
    def __init__(self, run, lock=None):
        self.run = run
        self.lock = lock if lock is not None else ShimRLock(run)
        self.waiters = set()

    def acquire(self, *a, **k):
        return self.lock.acquire(*a, **k)

    def release(self):
        return self.lock.release()

    def __enter__(self):
        self.lock.acquire()
        return self

    def __exit__(self, *a):
        self.lock.release()

    def wait(self, timeout=None):
        r = self.run
        if r.abort:
            raise Abort()
        me = r.me()
        if getattr(self.lock, "owner", None) != me:
            raise RuntimeError("cannot wait on un-acquired lock")
        saved = self.lock._release_save() if isinstance(self.lock, ShimRLock) else None
        if saved is None:
            self.lock.owner = None
            r.wake(("lock", id(self.lock)))
        self.waiters.add(me)
        while me in self.waiters:
            r.block(("cond", id(self)), "Condition.wait")
        if saved is not None:
            self.lock._acquire_restore(saved)
        else:
            while self.lock.owner is not None:
                r.block(("lock", id(self.lock)), "Condition.reacquire")
            self.lock.owner = me
        return True

    def notify_all(self):
        r = self.run
        if r.abort:
            return
        self.waiters.clear()
        r.wake(("cond", id(self)))
        r.point("Condition.notify_all")

    def notify(self, n=1):
        r = self.run
        if r.abort:
            return
        for w in sorted(self.waiters)[:n]:
            self.waiters.discard(w)
            if isinstance(r.state.get(w), tuple):
                r.state[w] = "ready"
        r.point("Condition.notify")


# ------------------------------------------------------------------------------------------ simulated kernel
class Kernel:
    """POSIX advisory record locks on whole files, per (virtual pid, inode)."""

    def __init__(self, run):
        self.run = run
        self.locks = {}  # inode -> {vpid: 'SH'|'EX'}
        self.fds = {}  # (vpid, fd) -> inode
        self.next_fd = {}
        self.waiting = {}  # vpid -> set of vpids it waits for (for EDEADLK)
        self.opened = 0
        self.closed = 0

    def open(self, vpid, path):
        fd = self.next_fd.get(vpid, 3)
        self.next_fd[vpid] = fd + 1
        self.fds[(vpid, fd)] = path
        self.opened += 1
        return fd

    def close(self, vpid, fd):
        inode = self.fds.pop((vpid, fd), None)
        if inode is None:
            raise OSError(errno.EBADF, "Bad file descriptor")
        self.closed += 1
        # closing ANY descriptor of the file drops all the process's locks on it
        holders = self.locks.get(inode, {})
        if vpid in holders:
            del holders[vpid]
            self.run.wake(("flock", inode))

    def conflicts(self, vpid, inode, want):
        holders = self.locks.get(inode, {})
        return [p for p, m in holders.items() if p != vpid and (want == "EX" or m == "EX")]

    def lockf(self, vpid, fd, op):
        r = self.run
        inode = self.fds.get((vpid, fd))
        if inode is None:
            raise OSError(errno.EBADF, "Bad file descriptor")
        if op & LOCK_UN:
            holders = self.locks.get(inode, {})
            holders.pop(vpid, None)
            r.wake(("flock", inode))
            r.point("lockf(UN)")
            return
        want = "EX" if op & LOCK_EX else "SH"
        r.point(f"lockf({want}{'|NB' if op & LOCK_NB else ''})")
        while True:
            conf = self.conflicts(vpid, inode, want)
            if not conf:
                break
            if op & LOCK_NB:
                raise BlockingIOError(errno.EAGAIN, "Resource temporarily unavailable")
            # deadlock detection across processes
            self.waiting[vpid] = set(conf)
            if self._cycle(vpid):
                self.waiting.pop(vpid, None)
                raise OSError(errno.EDEADLK, "Resource deadlock avoided")
            try:
                r.block(("flock", inode), f"lockf({want})")
            finally:
                self.waiting.pop(vpid, None)
        self.locks.setdefault(inode, {})[vpid] = want  # atomic conversion
        if want == "SH":
            r.wake(("flock", inode))  # a downgrade may unblock readers

    def _cycle(self, start):
        seen = set()
        stack = list(self.waiting.get(start, ()))
        while stack:
            p = stack.pop()
            if p == start:
                return True
            if p in seen:
                continue
            seen.add(p)
            stack.extend(self.waiting.get(p, ()))
        return False


# ------------------------------------------------------------------------------------------ module instances
_SOURCE = None


def load_lock_instance(run, vpid):
    """A private instance of lock.py whose primitives are the shims of this run."""
    global _SOURCE
    if _SOURCE is None:
        _SOURCE = compile(open(_lock_py()).read(), _lock_py(), "exec")
    thr = types.ModuleType("threading")
    thr.Lock = lambda: ShimLock(run)
    thr.RLock = lambda: ShimRLock(run)
    thr.Condition = lambda lock=None: ShimCondition(run, lock)
    thr.get_ident = lambda: run.me()
    fc = types.ModuleType("fcntl")
    fc.LOCK_SH, fc.LOCK_EX, fc.LOCK_NB, fc.LOCK_UN = LOCK_SH, LOCK_EX, LOCK_NB, LOCK_UN
    fc.lockf = lambda fd, op, *a: run.kernel.lockf(vpid, fd, op)
    osm = types.ModuleType("os")
    osm.name = "posix"
    osm.O_RDWR = _real_os.O_RDWR
    osm.path = _real_os.path

    def _open(path, flags, *a):
        run.point("os.open")
        return run.kernel.open(vpid, path)

    def _close(fd):
        run.kernel.close(vpid, fd)
        run.point("os.close")

    osm.open = _open
    osm.close = _close
    saved = {k: sys.modules.get(k) for k in ("threading", "fcntl", "os")}
    mod = types.ModuleType(f"vp_lock_instance_{vpid}")
    mod.__file__ = _lock_py()
    try:
        sys.modules["threading"] = thr
        sys.modules["fcntl"] = fc
        sys.modules["os"] = osm
        exec(_SOURCE, mod.__dict__)
    finally:
        for k, v in saved.items():
            if v is None:
                sys.modules.pop(k, None)
            else:
                sys.modules[k] = v
    return mod
