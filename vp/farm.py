"""Worker farm, case protocol, verdict and evidence writing shared by all checks.

A *check module* (vp/checks/cXX.py) provides

    PROP = "C10"
    LEVEL = "exploration"
    RULE = "<how cases are generated, what counts as distinct / non-trivial>"
    ASSUMPTIONS = [...]
    def n_cases(tier) -> int
    def setup(tier) -> None                      # parent, before fork: import pharmpy etc.
    def run_case(rng, idx, tier) -> Case         # in a forked worker
    MIN_NONTRIVIAL = {"quick": 50, "thorough": 500}

run_case returns a `Case`.  Everything that decides the verdict is counted by the monitors themselves
and merged here; nothing is a constant.

Exit codes: 0 held on everything observed, 1 violation (VIOLATION line printed), 2 inconclusive.
"""
from __future__ import annotations

import hashlib
import json
import os
import random
import shutil
import signal
import sys
import tempfile
import time
import traceback
from collections import Counter
from dataclasses import dataclass, field
from pathlib import Path
from typing import Any, Optional

ROOT = Path(__file__).resolve().parent.parent
# VERIF_OUT redirects evidence and replays (used when the checks are run against a seeded scratch tree, so that the
# evidence of /repo itself is not overwritten)
_OUT = Path(os.environ["VERIF_OUT"]) if os.environ.get("VERIF_OUT") else ROOT
EVIDENCE_DIR = _OUT / "evidence"
REPLAY_DIR = _OUT / "replays"
FINDINGS_FILE = ROOT / "known_findings.json"

CASE_TIMEOUT_S = 90  # generous wall-clock watchdog; firing = inconclusive case, never a violation


class CaseTimeout(Exception):
    pass


@dataclass
class Violation:
    key: Optional[str]  # mechanism key (known_findings.json), None = unclassified
    msg: str
    detail: Any = None


@dataclass
class Case:
    fp: str = ""  # structural fingerprint for distinctness
    nontrivial: bool = False
    counters: Counter = field(default_factory=Counter)  # monitor evaluation counts
    violations: list = field(default_factory=list)
    refusal: Optional[str] = None  # pharmpy refused the input with a documented error
    skipped: Optional[str] = None  # harness skipped (reason)
    sample: Any = None  # JSON-able rendering of the input
    states: list = field(default_factory=list)  # extra distinct-state fingerprints

    def violate(self, key, msg, detail=None):
        self.violations.append(Violation(key, msg, detail))

    def hit(self, name, n=1):
        self.counters[name] += n


def fp_of(*parts) -> str:
    h = hashlib.sha1()
    for p in parts:
        h.update(repr(p).encode())
        h.update(b"\0")
    return h.hexdigest()[:16]


def case_rng(prop: str, seed: int, idx: int) -> random.Random:
    return random.Random(f"{prop}:{seed}:{idx}")


def _alarm(signum, frame):
    raise CaseTimeout()


def _jsonable(x, depth=0):
    if depth > 8:
        return repr(x)[:200]
    if isinstance(x, (str, int, float, bool)) or x is None:
        if isinstance(x, float) and (x != x or x in (float("inf"), float("-inf"))):
            return repr(x)
        return x
    if isinstance(x, (list, tuple, set, frozenset)):
        return [_jsonable(v, depth + 1) for v in x]
    if isinstance(x, dict):
        return {str(k): _jsonable(v, depth + 1) for k, v in x.items()}
    return repr(x)[:2000]


def load_findings(prop: str):
    """Returns dict key -> entry for this property (status 'known' or 'fixed')."""
    if not FINDINGS_FILE.exists():
        return {}
    data = json.loads(FINDINGS_FILE.read_text())
    return {e["key"]: e for e in data.get("findings", []) if e.get("property") == prop}


def _run_one(mod, prop, seed, idx, tier, timeout=None):
    if timeout is None:
        timeout = getattr(mod, "CASE_TIMEOUT_S", CASE_TIMEOUT_S)
    rng = case_rng(prop, seed, idx)
    signal.signal(signal.SIGALRM, _alarm)
    signal.alarm(timeout)
    t0 = time.time()
    try:
        case = mod.run_case(rng, idx, tier)
        if case is None:
            case = Case(skipped="none")
    except CaseTimeout:
        case = Case(skipped="timeout")
    except BaseException as e:  # a harness bug must never look like a held property
        case = Case(skipped="harness-error:" + type(e).__name__)
        case.sample = traceback.format_exc()[-1500:]
    finally:
        signal.alarm(0)
    rec = {
        "idx": idx,
        "fp": case.fp,
        "nontrivial": bool(case.nontrivial),
        "counters": dict(case.counters),
        "violations": [
            {"key": v.key, "msg": v.msg, "detail": _jsonable(v.detail)} for v in case.violations
        ],
        "refusal": case.refusal,
        "skipped": case.skipped,
        "sample": _jsonable(case.sample),
        "states": list(case.states)[:2000],
        "t": round(time.time() - t0, 4),
    }
    return rec


def run_check(mod, tier: str, seed: int, replay: Optional[str] = None, only: Optional[list] = None):
    prop = mod.PROP
    t_start = time.time()
    scratch = Path(tempfile.mkdtemp(prefix=f"vp-{prop}-", dir=os.environ.get("VERIF_SCRATCH_BASE", "/var/tmp")))
    os.environ["VERIF_SCRATCH"] = str(scratch)
    try:
        return _run_check(mod, prop, tier, seed, replay, only, scratch, t_start)
    finally:
        shutil.rmtree(scratch, ignore_errors=True)


_PARTIAL = False  # a run restricted with --only is not a run of the tier: its record goes to <ID>.partial.json (git-ignored)


def _evidence_path(prop):
    return EVIDENCE_DIR / (f"{prop}.partial.json" if _PARTIAL else f"{prop}.json")


def _inconclusive(prop, reason, tier, seed, t_start, mod, extra=None):
    print(f"INCONCLUSIVE property={prop} reason={reason}")
    # still write an evidence file saying so (it will not validate as held evidence: evaluations may be 0)
    ev = {
        "property_id": prop,
        "tier": tier,
        "seed": seed,
        "level": getattr(mod, "LEVEL", "exploration"),
        "coverage": {
            "evaluations": 0,
            "distinct_nontrivial": 0,
            "rule": getattr(mod, "RULE", ""),
            "samples": [],
            "verdict": "inconclusive",
            "reason": reason,
            **(extra or {}),
        },
        "wall_s": round(time.time() - t_start, 2),
        "violations": 0,
    }
    EVIDENCE_DIR.mkdir(exist_ok=True)
    _evidence_path(prop).write_text(json.dumps(ev, indent=1))
    return 2


def _run_check(mod, prop, tier, seed, replay, only, scratch, t_start):
    try:
        mod.setup(tier)
    except BaseException as e:
        traceback.print_exc()
        return _inconclusive(prop, f"setup-failed:{type(e).__name__}:{str(e)[:200]}", tier, seed, t_start, mod)

    if replay is not None:
        r = json.loads(Path(replay).read_text())
        os.environ["VERIF_SEED"] = str(r["seed"])
        rec = _run_one(mod, prop, r["seed"], r["idx"], r.get("tier", tier))
        print(json.dumps(rec, indent=1)[:20000])
        if rec["violations"]:
            print(f"VIOLATION property={prop} replay={replay}")
            return 1
        return 0

    n = mod.n_cases(tier)
    global _PARTIAL
    _PARTIAL = only is not None
    indices = list(range(n)) if only is None else only
    nworkers = max(1, min(int(os.environ.get("VERIF_WORKERS", "16")), len(indices)))
    sys.stdout.flush()
    sys.stderr.flush()

    def spawn(w, todo):
        pid = os.fork()
        if pid == 0:
            code = 0
            try:
                os.environ["VERIF_WORKER"] = str(w)
                wscratch = scratch / f"w{w}"
                wscratch.mkdir(exist_ok=True)
                os.environ["VERIF_SCRATCH"] = str(wscratch)
                if hasattr(mod, "worker_init"):
                    mod.worker_init(w)
                with open(scratch / f"log{w}.jsonl", "a") as f:
                    for idx in todo:
                        f.write(json.dumps({"start": idx, "t0": time.time()}) + "\n")
                        f.flush()
                        rec = _run_one(mod, prop, seed, idx, tier)
                        f.write(json.dumps(rec) + "\n")
                        f.flush()
            except BaseException:
                traceback.print_exc()
                code = 3
            finally:
                sys.stdout.flush()
                sys.stderr.flush()
                os._exit(code)
        return pid

    assigned = {w: indices[w::nworkers] for w in range(nworkers)}
    pids = {spawn(w, assigned[w]): w for w in range(nworkers)}
    deadline = time.time() + getattr(mod, "BATCH_TIMEOUT", {"quick": 1500, "thorough": 6 * 3600}).get(tier, 1500)
    dead_workers = []
    crashed_cases = []
    restarts = 0
    hang_killed = set()
    last_hang_scan = time.time()
    hard_limit = 2 * getattr(mod, "CASE_TIMEOUT_S", CASE_TIMEOUT_S) + 60
    while pids:
        try:
            pid, status = os.waitpid(-1, os.WNOHANG)
        except ChildProcessError:
            break
        if pid == 0:
            # hard watchdog: a case stuck inside native code never sees the SIGALRM of the per-case watchdog; the
            # worker is killed and the case recorded as a (hard) timeout = inconclusive, the rest continues
            if time.time() - last_hang_scan > 5:
                last_hang_scan = time.time()
                for p_, w_ in list(pids.items()):
                    try:
                        lines = (scratch / f"log{w_}.jsonl").read_text().splitlines()
                        last = json.loads(lines[-1]) if lines else {}
                    except (FileNotFoundError, json.JSONDecodeError):
                        continue
                    if "start" in last and time.time() - last.get("t0", time.time()) > hard_limit:
                        hang_killed.add(p_)
                        try:
                            os.kill(p_, signal.SIGKILL)
                        except ProcessLookupError:
                            pass
            if time.time() > deadline:
                for p in pids:
                    try:
                        os.kill(p, signal.SIGKILL)
                    except ProcessLookupError:
                        pass
                dead_workers.append("batch-timeout")
                deadline = float("inf")
            time.sleep(0.05)
            continue
        w = pids.pop(pid, None)
        if w is None or status == 0 or deadline == float("inf"):
            continue
        # the worker died (native crash of a library, kill): find the case it was running, record it as a crashed
        # case and continue with the rest in a fresh worker
        started, finished = [], set()
        try:
            for line in (scratch / f"log{w}.jsonl").read_text().splitlines():
                try:
                    r = json.loads(line)
                except json.JSONDecodeError:
                    continue
                if "start" in r:
                    started.append(r["start"])
                elif "idx" in r:
                    finished.add(r["idx"])
        except FileNotFoundError:
            pass
        culprit = [i for i in started if i not in finished]
        hung = pid in hang_killed
        if not hung:
            crashed_cases.extend((i, status) for i in culprit)
        with open(scratch / f"log{w}.jsonl", "a") as f:
            for i in culprit:
                f.write(json.dumps({"idx": i, "fp": "", "nontrivial": False, "counters": {}, "violations": [],
                                    "refusal": None, "skipped": "timeout" if hung else f"worker-crash:status{status}", "sample": None,
                                    "states": [], "t": 0}) + "\n")
        todo = [i for i in assigned[w] if i not in finished and i not in culprit]
        restarts += 1
        if todo and restarts <= 40:
            pids[spawn(w, todo)] = w
        elif todo:
            dead_workers.append(f"worker{w}:status{status}:too-many-restarts")

    # merge
    recs = []
    for w in range(nworkers):
        p = scratch / f"log{w}.jsonl"
        if p.exists():
            for line in p.read_text().splitlines():
                try:
                    r = json.loads(line)
                except json.JSONDecodeError:
                    continue
                if "idx" in r:
                    recs.append(r)
    recs.sort(key=lambda r: r["idx"])
    missing = sorted(set(indices) - {r["idx"] for r in recs})
    extra = {"missing_case_indices": missing[:50]} if missing else {}
    if crashed_cases:
        extra["crashed_cases"] = [{"idx": i, "status": st} for i, st in crashed_cases[:50]]
        print(f"[{prop}] {len(crashed_cases)} case(s) crashed their worker process (native fault): {crashed_cases[:10]}")
    if missing:
        print(f"[{prop}] {len(missing)} planned cases produced no record (worker died?): first {missing[:10]}; faults={dead_workers}")
        if not dead_workers:
            dead_workers.append(f"missing-cases:{len(missing)}")
    return conclude(mod, prop, tier, seed, recs, len(indices), dead_workers, t_start, extra)


def conclude(mod, prop, tier, seed, recs, planned, dead_workers, t_start, extra_cov=None):
    findings = load_findings(prop)
    counters = Counter()
    refusals = Counter()
    skipped = Counter()
    fps = set()
    states = set()
    nontrivial_fps = set()
    samples = []
    viol_new = []
    viol_known = Counter()
    known_example = {}
    for r in recs:
        counters.update(r["counters"])
        if r["refusal"]:
            refusals[r["refusal"]] += 1
        if r["skipped"]:
            skipped[r["skipped"]] += 1
            if r["skipped"].startswith("harness-error") and len(samples) < 12:
                samples.append({"harness_error": r["sample"]})
            continue
        if r["fp"]:
            fps.add(r["fp"])
            if r["nontrivial"]:
                nontrivial_fps.add(r["fp"])
        states.update(r.get("states", ()))
        for v in r["violations"]:
            k = v["key"]
            if k is not None and k in findings and findings[k].get("status") == "known":
                viol_known[k] += 1
                known_example.setdefault(k, (r, v))
            else:
                viol_new.append((r, v))
    executed = len(recs) - sum(skipped.values())
    # pick samples spread across the run
    good = [r for r in recs if not r["skipped"] and r["sample"] is not None]
    step = max(1, len(good) // 4)
    for r in good[::step][:5]:
        samples.append({"idx": r["idx"], "case": r["sample"]})

    EVIDENCE_DIR.mkdir(exist_ok=True)
    REPLAY_DIR.mkdir(exist_ok=True)
    for old in list(REPLAY_DIR.glob(f"{prop}-{tier}-s{seed}-*.json")) + list(REPLAY_DIR.glob(f"{prop}-{tier}-s{seed}-*.jsonl")):
        old.unlink()
    replay_paths = []
    seen_new = set()
    for r, v in viol_new:
        sig = (v["key"], v["msg"][:80])
        if sig in seen_new and len(replay_paths) >= 5:
            continue
        seen_new.add(sig)
        if len(replay_paths) >= 25:
            break
        p = REPLAY_DIR / f"{prop}-{tier}-s{seed}-i{r['idx']}.json"
        p.write_text(
            json.dumps(
                {"property": prop, "seed": seed, "idx": r["idx"], "tier": tier, "key": v["key"],
                 "msg": v["msg"], "detail": v["detail"], "input": r["sample"]}, indent=1))
        replay_paths.append((p, v))

    if viol_new:
        with open(REPLAY_DIR / f"{prop}-{tier}-s{seed}-all-new-violations.jsonl", "w") as f:
            for r, v in viol_new:
                f.write(json.dumps({"idx": r["idx"], "key": v["key"], "msg": v["msg"]}) + "\n")
    coverage = {
        "evaluations": executed,
        "distinct_nontrivial": len(nontrivial_fps),
        "distinct_cases": len(fps),
        "rule": getattr(mod, "RULE", ""),
        "samples": samples,
        "planned_cases": planned,
        "monitor_hits": dict(sorted(counters.items())),
        "refusals": dict(refusals),
        "skipped": dict(skipped),
        "distinct_states": len(states),
        "known_findings_reobserved": dict(viol_known),
        "worker_faults": dead_workers,
    }
    if extra_cov:
        coverage.update(extra_cov)
    if hasattr(mod, "extra_coverage"):
        try:
            coverage.update(mod.extra_coverage(recs, tier))
        except Exception:
            coverage["extra_coverage_error"] = traceback.format_exc()[-500:]
    ev = {
        "property_id": prop,
        "tier": tier,
        "seed": seed,
        "level": getattr(mod, "LEVEL", "exploration"),
        "coverage": coverage,
        "assumptions": getattr(mod, "ASSUMPTIONS", []),
        "wall_s": round(time.time() - t_start, 2),
        "violations": len(viol_new),
    }
    _evidence_path(prop).write_text(json.dumps(ev, indent=1))

    for k, cnt in sorted(viol_known.items()):
        r, v = known_example[k]
        print(f"KNOWN-FINDING: property={prop} {k}: {findings[k].get('what', '')} "
              f"[re-observed {cnt}x; e.g. case {r['idx']}: {v['msg'][:160]}]")
    print(f"[{prop}] tier={tier} seed={seed} executed={executed}/{planned} distinct_nontrivial={len(nontrivial_fps)} "
          f"refusals={sum(refusals.values())} skipped={dict(skipped)} violations={len(viol_new)} "
          f"wall={ev['wall_s']}s")
    print(f"[{prop}] monitor hits: " + ", ".join(f"{k}={v}" for k, v in sorted(counters.items())))
    if viol_new:
        import re as _re

        groups = Counter((v["key"], _re.sub(r"[0-9]+", "#", v["msg"])[:70]) for _, v in viol_new)
        for (k, m), cnt in groups.most_common(30):
            print(f"  [{cnt}x] key={k} {m}")
        for p, v in replay_paths:
            print(f"  violation key={v['key']} {v['msg'][:300]}")
            print(f"VIOLATION property={prop} replay={p}")
        return 1
    # inconclusive conditions
    min_nt = getattr(mod, "MIN_NONTRIVIAL", {}).get(tier, 2)
    harness_errors = sum(c for k, c in skipped.items() if k.startswith("harness-error"))
    required = getattr(mod, "REQUIRED_MONITORS", [])
    missing = [m for m in required if counters.get(m, 0) == 0]
    reason = None
    if dead_workers:
        reason = "worker-fault:" + ",".join(dead_workers)
    elif len(nontrivial_fps) < max(2, min_nt):
        reason = f"too-few-nontrivial:{len(nontrivial_fps)}<{min_nt}"
    elif missing:
        reason = "monitor-never-reached:" + ",".join(missing)
    elif harness_errors > max(3, 0.02 * planned):
        reason = f"harness-errors:{harness_errors}"
    elif skipped.get("timeout", 0) > max(5, 0.1 * planned):
        reason = f"timeouts:{skipped['timeout']}"
    elif sum(v for k, v in skipped.items() if k.startswith("worker-crash")) > max(3, getattr(mod, "WORKER_CRASH_TOLERANCE", 0.01) * planned):
        reason = "worker-crashes:" + str(sum(v for k, v in skipped.items() if k.startswith("worker-crash")))
    if reason:
        print(f"INCONCLUSIVE property={prop} reason={reason}")
        ev["coverage"]["verdict"] = "inconclusive"
        ev["coverage"]["reason"] = reason
        _evidence_path(prop).write_text(json.dumps(ev, indent=1))
        return 2
    return 0
