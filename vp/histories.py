"""Corpus start models and random transformation histories (DESIGN.md 2.7), shared by C02/C06/C07/C08/C09/C12."""
from __future__ import annotations

import os
from pathlib import Path

REFUSALS = ("ValueError", "NotImplementedError", "ModelSyntaxError", "KeyError_msg")

_cache = {}


def start_models():
    """name -> model.  Built once per process (cached)."""
    if _cache:
        return _cache
    from pharmpy.modeling import (convert_model, create_basic_pk_model, load_example_model,
                                  set_first_order_absorption, set_zero_order_absorption)

    pheno = load_example_model("pheno")
    _cache["pheno_iv"] = pheno
    try:
        _cache["pheno_oral"] = set_first_order_absorption(pheno)
    except Exception:
        pass
    try:
        _cache["pheno_zo"] = set_zero_order_absorption(pheno)
    except Exception:
        pass
    try:
        from pharmpy.modeling import add_peripheral_compartment

        _cache["pheno_2cmt"] = add_peripheral_compartment(pheno)
    except Exception:
        pass
    return _cache


_extra = {}


def extra_models():
    """Further corpus models (the repository's own test models), kept apart from start_models() so that the case streams
    of the checks that draw from start_models() stay what they were.  name -> model."""
    if _extra:
        return _extra
    import importlib.util
    from pharmpy.modeling import read_model

    root = Path(importlib.util.find_spec("pharmpy").origin).resolve().parents[2] / "tests" / "testdata" / "nonmem"
    for name, rel in (("mox2", "models/mox2.mod"), ("mox1", "models/mox1.mod")):
        try:
            m = read_model(root / rel)
            _ = m.statements, m.dataset
            _extra[name] = m
        except Exception:
            pass
    return _extra


def gen_start_model(rng, workdir: Path):
    """A generated ADVAN control stream (stratum A) read by pharmpy, as a more diverse start model."""
    from pharmpy.modeling import read_model

    from vp.gen import nmtran as G

    for _ in range(5):
        m = G.gen_model(rng, ("trans56",), simple=True)
        if m["meta"]["kind"] == "pred":
            continue
        workdir.mkdir(parents=True, exist_ok=True)
        (workdir / "data.csv").write_text(m["data"])
        p = workdir / "start.mod"
        p.write_text(m["text"].replace("DATAFILE", "data.csv"))
        try:
            model = read_model(p)
            _ = model.statements
            return model, m
        except Exception:
            continue
    return None, None


# ------------------------------------------------------------------------------ transformation alphabet
def _pk_params(model):
    from pharmpy.modeling import get_individual_parameters

    try:
        return list(get_individual_parameters(model))
    except Exception:
        return []


def alphabet():
    """name -> (group, callable(model, rng) -> model)."""
    import pharmpy.modeling as pm

    def first_param(model, rng, prefer=("CL", "VC", "V", "MAT", "QP1", "VP1", "KA", "K", "CLMM", "KM")):
        ps = _pk_params(model)
        if not ps:
            raise ValueError("no individual parameters")
        return rng.choice(ps)

    A = {
        # structural
        "set_first_order_absorption": ("structural", lambda m, r: pm.set_first_order_absorption(m)),
        "set_zero_order_absorption": ("structural", lambda m, r: pm.set_zero_order_absorption(m)),
        "set_bolus_absorption": ("structural", lambda m, r: pm.set_bolus_absorption(m)),
        "set_seq_zo_fo_absorption": ("structural", lambda m, r: pm.set_seq_zo_fo_absorption(m)),
        "add_lag_time": ("structural", lambda m, r: pm.add_lag_time(m)),
        "remove_lag_time": ("structural", lambda m, r: pm.remove_lag_time(m)),
        "add_peripheral_compartment": ("structural", lambda m, r: pm.add_peripheral_compartment(m)),
        "remove_peripheral_compartment": ("structural", lambda m, r: pm.remove_peripheral_compartment(m)),
        "set_peripheral_compartments": ("structural", lambda m, r: pm.set_peripheral_compartments(m, r.choice([0, 1, 2]))),
        "set_transit_compartments": ("structural", lambda m, r: pm.set_transit_compartments(m, r.choice([0, 1, 2, 3, 5]), keep_depot=r.random() < 0.6)),
        "set_michaelis_menten_elimination": ("structural", lambda m, r: pm.set_michaelis_menten_elimination(m)),
        "set_first_order_elimination": ("structural", lambda m, r: pm.set_first_order_elimination(m)),
        "set_zero_order_elimination": ("structural", lambda m, r: pm.set_zero_order_elimination(m)),
        "set_mixed_mm_fo_elimination": ("structural", lambda m, r: pm.set_mixed_mm_fo_elimination(m)),
        "add_bioavailability": ("structural", lambda m, r: pm.add_bioavailability(m)),
        "remove_bioavailability": ("structural", lambda m, r: pm.remove_bioavailability(m)),
        "set_zero_order_input": ("structural", lambda m, r: pm.set_zero_order_input(m, "CENTRAL", r.choice([1, 2.5]))),
        "add_effect_compartment": ("structural", lambda m, r: pm.add_effect_compartment(m, r.choice(["linear", "emax", "sigmoid", "step", "loglin"]))),
        "set_direct_effect": ("structural", lambda m, r: pm.set_direct_effect(m, r.choice(["linear", "emax", "sigmoid", "step", "loglin"]))),
        "add_indirect_effect": ("structural", lambda m, r: pm.add_indirect_effect(m, r.choice(["linear", "emax", "sigmoid"]), r.random() < 0.5)),
        "add_metabolite": ("structural", lambda m, r: pm.add_metabolite(m, presystemic=r.random() < 0.3)),
        "set_ode_solver": ("structural", lambda m, r: pm.set_ode_solver(m, r.choice(["LSODA", "GL", "CVODES"]))),
        # stochastic
        "add_iiv": ("stochastic", lambda m, r: pm.add_iiv(m, first_param(m, r), r.choice(["exp", "add", "prop", "log"]))),
        "remove_iiv": ("stochastic", lambda m, r: pm.remove_iiv(m, r.choice(list(m.random_variables.iiv.names) or ["X"]))),
        "add_pk_iiv": ("stochastic", lambda m, r: pm.add_pk_iiv(m)),
        "add_iov": ("stochastic", lambda m, r: pm.add_iov(m, _occ(m), distribution=r.choice(["disjoint", "joint", "same-as-iiv"]))),
        "remove_iov": ("stochastic", lambda m, r: pm.remove_iov(m)),
        "create_joint_distribution": ("stochastic", lambda m, r: pm.create_joint_distribution(m, r.sample(list(m.random_variables.iiv.names), k=min(len(m.random_variables.iiv.names), r.randint(2, 3))))),
        "split_joint_distribution": ("stochastic", lambda m, r: pm.split_joint_distribution(m)),
        "transform_etas_boxcox": ("stochastic", lambda m, r: pm.transform_etas_boxcox(m, [r.choice(list(m.random_variables.iiv.names))])),
        "transform_etas_tdist": ("stochastic", lambda m, r: pm.transform_etas_tdist(m, [r.choice(list(m.random_variables.iiv.names))])),
        "transform_etas_john_draper": ("stochastic", lambda m, r: pm.transform_etas_john_draper(m, [r.choice(list(m.random_variables.iiv.names))])),
        "set_iiv_on_ruv": ("stochastic", lambda m, r: pm.set_iiv_on_ruv(m)),
        # error models
        "set_additive_error_model": ("error", lambda m, r: pm.set_additive_error_model(m)),
        "set_proportional_error_model": ("error", lambda m, r: pm.set_proportional_error_model(m)),
        "set_combined_error_model": ("error", lambda m, r: pm.set_combined_error_model(m)),
        "set_power_on_ruv": ("error", lambda m, r: pm.set_power_on_ruv(m)),
        "set_dtbs_error_model": ("error", lambda m, r: pm.set_dtbs_error_model(m)),
        "set_weighted_error_model": ("error", lambda m, r: pm.set_weighted_error_model(m)),
        "remove_error_model": ("error", lambda m, r: pm.remove_error_model(m)),
        # covariates
        "add_covariate_effect": ("covariate", lambda m, r: pm.add_covariate_effect(m, first_param(m, r), _cov(m, r), r.choice(["lin", "exp", "pow", "piece_lin"]), r.choice(["*", "+"]))),
        "add_allometry": ("covariate", lambda m, r: pm.add_allometry(m, allometric_variable=_cov(m, r, "WGT"), reference_value=70)),
        # parameters
        "set_initial_estimates": ("parameter", lambda m, r: pm.set_initial_estimates(m, {r.choice([p.name for p in m.parameters if not p.fix and p.lower <= 0.123 <= p.upper] or ["X"]): 0.123})),
        "fix_parameters": ("parameter", lambda m, r: pm.fix_parameters(m, [r.choice(m.parameters.names)])),
        "unfix_parameters": ("parameter", lambda m, r: pm.unfix_parameters(m, [r.choice(m.parameters.names)])),
        "set_lower_bounds": ("parameter", lambda m, r: pm.set_lower_bounds(m, {r.choice([p.name for p in m.parameters if p.init > 0.001] or ["X"]): 0.001})),
        "add_population_parameter": ("parameter", lambda m, r: pm.add_population_parameter(m, f"NEWP{r.randint(1, 99)}", 1.5, lower=0)),
        "remove_unused_parameters_and_rvs": ("parameter", lambda m, r: pm.remove_unused_parameters_and_rvs(m)),
        # refactorings that keep NONMEM format
        "mu_reference_model": ("refactor", lambda m, r: pm.mu_reference_model(m)),
        "cleanup_model": ("refactor", lambda m, r: pm.cleanup_model(m)),
        "update_inits_noop": ("refactor", lambda m, r: m.update_source()),
    }
    return A


def _occ(m):
    for cand in ("FA1", "VISI", "OCC", "APGR"):
        if cand in m.datainfo.names:
            return cand
    raise ValueError("no occasion column")


def _cov(m, r, prefer=None):
    names = [n for n in ("WGT", "APGR", "AGE", "WT", "CRCL") if n in m.datainfo.names]
    if prefer and prefer in names:
        return prefer
    if not names:
        raise ValueError("no covariate")
    return r.choice(names)


def classify_exception(e):
    """'refusal' for documented refusal types, else 'internal'."""
    n = type(e).__name__
    if n in ("ValueError", "NotImplementedError", "ModelSyntaxError", "ModelError", "DatasetError"):
        return "refusal"
    if n == "KeyError" and e.args and isinstance(e.args[0], str) and len(e.args[0]) > 3:
        return "refusal"
    if n == "TypeError" and "check" in str(e).lower():
        return "refusal"
    return "internal"


def random_history(rng, length, groups_weights=None):
    A = alphabet()
    names = list(A)
    gw = groups_weights or {"structural": 5, "stochastic": 2, "error": 1.5, "covariate": 1, "parameter": 1, "refactor": 0.7}
    weights = [gw.get(A[n][0], 1) / sum(1 for k in names if A[k][0] == A[n][0]) for n in names]
    return [rng.choices(names, weights)[0] for _ in range(length)]
