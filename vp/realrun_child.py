"""Child of the C15 real-kernel stress tier: one REAL process running the REAL lock.py (loaded from its file, real
threading / fcntl / os) with several real threads.  No pharmpy import (lock.py only needs the standard library).

stdin : JSON {lock_py, proc, threads: [ops...], rounds, seed, start_at_ns, p_yield, deadline_s}
stdout: JSON {events: [[t_ns, proc, thread, kind, path, mode, node, round]...], errors, s2, s5, hung, counters}

Events are recorded INSIDE the lock body (enter = first statement of the body, exit = last statement), so a recorded
interval is contained in the interval during which lock.py considers the lock held; two recorded intervals of
different owners that overlap (one of them exclusive) therefore overlapped for real.  time.monotonic_ns is
CLOCK_MONOTONIC, one clock for all processes of the machine.

Interleaving diversity: a sys.monitoring LINE callback restricted to the code objects of lock.py yields the GIL
(sleep(0)) or sleeps a few microseconds with probability p_yield at every statement of lock.py.
"""
from __future__ import annotations

import importlib.util
import json
import os
import random
import sys
import threading
import time


def load_lock(path):
    spec = importlib.util.spec_from_file_location("vp_real_lock", path)
    mod = importlib.util.module_from_spec(spec)
    spec.loader.exec_module(mod)
    return mod


def code_objects(mod, filename):
    seen, out, stack = set(), [], []
    for v in vars(mod).values():
        stack.append(v)
    while stack:
        v = stack.pop()
        if id(v) in seen:
            continue
        seen.add(id(v))
        co = getattr(v, "__code__", None)
        if co is None and hasattr(v, "__wrapped__"):
            co = getattr(v.__wrapped__, "__code__", None)
        if hasattr(v, "__wrapped__"):
            stack.append(v.__wrapped__)
        if isinstance(v, type) and getattr(v, "__module__", None) == mod.__name__:
            stack.extend(vars(v).values())
        if isinstance(v, (staticmethod, classmethod)):
            stack.append(v.__func__)
        if co is not None:
            stack.append(co)
        if hasattr(v, "co_consts") and v.co_filename == filename:
            out.append(v)
            stack.extend(c for c in v.co_consts if hasattr(c, "co_consts"))
    return out


def proc_locks(pid, inodes):
    """(inode -> 'READ'|'WRITE') for granted POSIX locks of this pid."""
    have = {}
    try:
        with open("/proc/locks") as f:
            for line in f:
                p = line.split()
                if "->" in p:
                    continue
                # n: POSIX ADVISORY WRITE pid maj:min:inode start end
                if len(p) >= 8 and p[1] == "POSIX" and p[4] == str(pid):
                    ino = int(p[5].rsplit(":", 1)[1])
                    if ino in inodes:
                        if have.get(ino) != "WRITE":
                            have[ino] = p[3]
    except OSError:
        return None
    return have


def main():
    spec = json.load(sys.stdin)
    mod = load_lock(spec["lock_py"])
    filename = spec["lock_py"]
    proc = spec["proc"]
    pid = os.getpid()
    seed = spec["seed"]
    p_yield = spec.get("p_yield", 0.05)
    paths = sorted({n for ops in spec["threads"] for n in _paths(ops)})
    inode = {p: os.stat(p).st_ino for p in paths}
    events = []
    errors = []
    s2 = {"checks": 0, "violations": [], "unreadable": 0}
    counters = {"yields": 0, "line_events": 0, "wouldblock": 0, "recursive": 0, "edeadlk": 0, "entered": 0}
    tl = threading.local()

    # ---- yield injection
    mon = getattr(sys, "monitoring", None)
    TOOL = 3
    if mon is not None and p_yield > 0:
        cos = code_objects(mod, filename)
        counters["instrumented_code_objects"] = len(cos)

        def on_line(code, line):
            r = getattr(tl, "rng", None)
            if r is None:
                return
            counters["line_events"] += 1
            x = r.random()
            if x < p_yield:
                counters["yields"] += 1
                time.sleep(0 if x < p_yield * 0.6 else r.random() * (2e-4 if x < p_yield * 0.93 else 4e-3))

        mon.use_tool_id(TOOL, "vp-yield")
        mon.register_callback(TOOL, mon.events.LINE, on_line)
        for co in cos:
            mon.set_local_events(TOOL, co, mon.events.LINE)

    state = {}  # thread index -> ('pending'|'holding'|'idle'|'done', node description)
    held = {}  # thread index -> list of (path, mode)


    def s2_check(ti, node, mode, where):
        need = "WRITE" if any(m == "EX" and p == node["path"] for p, m in held[ti]) else "READ"
        # /proc/locks is a seq_file: a listing that spans several pages is not one atomic snapshot and may skip an
        # entry when locks of other processes come and go meanwhile.  The lock of this process cannot change while this
        # holder is inside, so a missing / weaker entry is reported only when three further listings agree.
        h = None
        for attempt in range(4):
            have = proc_locks(pid, set(inode.values()))
            if have is None:
                s2["unreadable"] += 1
                return
            h = have.get(inode[node["path"]])
            if h == "WRITE" or (h == "READ" and need == "READ"):
                break
            s2["rereads"] = s2.get("rereads", 0) + 1
            time.sleep(0.002)
        s2["checks"] += 1
        if h is None:
            s2["violations"].append(f"S2: P{proc}.T{ti} is inside {mode} on {node['path']} ({where} of the body) but the kernel lists no "
                                    f"lock of pid {pid} on the file (dropped by a close or never taken)")
        elif need == "WRITE" and h != "WRITE":
            s2["violations"].append(f"S2: P{proc}.T{ti} is inside EX on {node['path']} ({where} of the body) but the kernel lock of the process is {h}")

    def run_ops(ti, ops, rnd, rng):
        for node in ops:
            mode = "SH" if node["shared"] else "EX"
            state[ti] = ("pending", node["path"], mode, node["blocking"], node["reentrant"])
            events.append((time.monotonic_ns(), proc, ti, "request", node["path"], mode, node["id"], rnd))
            entered = False
            try:
                with mod.path_lock(node["path"], shared=node["shared"], blocking=node["blocking"], reentrant=node["reentrant"]):
                    t = time.monotonic_ns()
                    entered = True
                    counters["entered"] += 1
                    if not node["reentrant"] and any(p == node["path"] for p, _ in held[ti]):
                        errors.append(f"S3: non-reentrant request {mode} on {node['path']} was granted to P{proc}.T{ti} which already holds the path")
                    held[ti].append((node["path"], mode))
                    events.append((t, proc, ti, "enter", node["path"], mode, node["id"], rnd))
                    state[ti] = ("holding", node["path"], mode)
                    try:
                        if rng.random() < 0.3:
                            s2_check(ti, node, mode, "start")
                        if rng.random() < 0.5:
                            time.sleep(rng.random() * 3e-4)
                        run_ops(ti, node["body"], rnd, rng)
                        if rng.random() < 0.3:
                            time.sleep(rng.random() * (3e-4 if rng.random() < 0.8 else 3e-3))
                        if rng.random() < 0.6:
                            s2_check(ti, node, mode, "end")
                    finally:
                        held[ti].pop()
                        events.append((time.monotonic_ns(), proc, ti, "exit", node["path"], mode, node["id"], rnd))
                state[ti] = ("idle",)
            except mod.AcquiringLockWouldBlockError as e:
                if entered:
                    raise
                counters["wouldblock"] += 1
                events.append((time.monotonic_ns(), proc, ti, "wouldblock", node["path"], mode, node["id"], rnd))
                if node["blocking"]:
                    errors.append(f"S4: blocking request of P{proc}.T{ti} raised {type(e).__name__}")
            except mod.RecursiveDeadlockError:
                if entered:
                    raise
                counters["recursive"] += 1
                events.append((time.monotonic_ns(), proc, ti, "recursive", node["path"], mode, node["id"], rnd))
                if node["reentrant"] or not any(p == node["path"] for p, _ in held[ti]):
                    errors.append(f"S3: RecursiveDeadlockError for P{proc}.T{ti} on {node['path']} although the request is reentrant "
                                  f"or the thread does not hold the path")
            except OSError as e:
                if entered or e.errno != 35:
                    raise
                counters["edeadlk"] += 1
                events.append((time.monotonic_ns(), proc, ti, "edeadlk", node["path"], mode, node["id"], rnd))

    def worker(ti, ops):
        rng = random.Random(f"{seed}:{proc}:{ti}")
        held[ti] = []
        while time.monotonic_ns() < spec["start_at_ns"]:
            time.sleep(0.0005)
        tl.rng = random.Random(f"y:{seed}:{proc}:{ti}")
        try:
            for rnd in range(spec["rounds"]):
                run_ops(ti, ops, rnd, rng)
                if rng.random() < 0.3:
                    time.sleep(rng.random() * 2e-4)
            state[ti] = ("done",)
        except BaseException as e:  # noqa
            errors.append(f"P{proc}.T{ti} died with {type(e).__name__}: {e}")
            state[ti] = ("died",)
        finally:
            tl.rng = None

    threads = [threading.Thread(target=worker, args=(i, ops), daemon=True) for i, ops in enumerate(spec["threads"])]
    for t in threads:
        t.start()
    deadline = time.monotonic() + spec.get("deadline_s", 45)
    for t in threads:
        t.join(max(0.0, deadline - time.monotonic()))
    hung = [i for i, t in enumerate(threads) if t.is_alive()]
    s5 = []
    if not hung:
        for poolname in ("_thread_level_lock_ref", "_process_level_lock_ref", "_fd_ref"):
            refs = getattr(mod, poolname)._refs
            if refs:
                s5.append(f"S5: {poolname} of P{proc} not empty at the end: {list(refs)}")
        real = {os.path.realpath(p) for p in paths}
        for fd in os.listdir("/proc/self/fd"):
            try:
                tgt = os.readlink(f"/proc/self/fd/{fd}")
            except OSError:
                continue
            if tgt in real:
                s5.append(f"S5: descriptor {fd} of P{proc} still open on {tgt} at the end")
        have = proc_locks(pid, set(inode.values()))
        if have:
            s5.append(f"S5: kernel locks of P{proc} left at the end: {have}")
    out = {"events": events, "errors": errors, "s2": s2, "s5": s5, "hung": hung,
           "state": {str(k): list(v) for k, v in state.items()}, "counters": counters, "pid": pid}
    sys.stdout.write(json.dumps(out))
    sys.stdout.flush()
    os._exit(0)


def _paths(ops):
    for n in ops:
        yield n["path"]
        yield from _paths(n["body"])


if __name__ == "__main__":
    main()
