"""Offline authoring helper (never used by a check): turn the certified history-keyed C02 violations found by
./harvest_c02.sh into known_findings.json entries.  python -m vp.c02_list /var/tmp/c02harv/replays"""
import glob
import json
import sys
from pathlib import Path

ROOT = Path(__file__).resolve().parent.parent


def main():
    d = json.loads((ROOT / "known_findings.json").read_text())
    have = {f["key"] for f in d["findings"]}
    added = 0
    for f in sorted(glob.glob(sys.argv[1] + "/C02-*-s*-i*.json")):
        r = json.loads(Path(f).read_text())
        key = r.get("key") or ""
        det = r.get("detail") or {}
        if not key.startswith("C02/h:") or not det.get("self_contradiction"):
            continue
        from vp.checks import c02

        msg0 = r["msg"]
        what0 = msg0[msg0.index("]:") + 3:] if "]:" in msg0 else msg0
        start = c02.start_class(det.get("start", ""))
        ops = ">".join(det.get("minimal_history") or [])
        key = f"C02/h:{start}:{ops}:{c02.symptom(what0)}"
        if key in have:
            continue
        msg = r["msg"]
        what = (f"start model {start}, shortest failing history [{ops.replace('>', ', ')}]: {msg[msg.index(']:') + 3:][:160] if ']:' in msg else msg[:160]}. "
                f"Certified: of the in-memory model and pharmpy's own re-reading of the code generated from it exactly one agrees "
                f"with the reference reading of that code, i.e. read(write(M)) differs from M (first seen: seed {r['seed']}, case {r['idx']})")
        d["findings"].append({"property": "C02", "key": key, "status": "known", "what": what})
        have.add(key)
        added += 1
    (ROOT / "known_findings.json").write_text(json.dumps(d, indent=1))
    print("added", added)


if __name__ == "__main__":
    main()
