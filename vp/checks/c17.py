"""C17 Workflows execute as their task graph specifies.

Every task function of a generated workflow is a recording wrapper (it *is* the function given to `Task`); each
wrapper blocks on a gate that a controller thread opens in a seeded order, so the completion order of the
tasks is forced.  The reference is the SHADOW of vp.gen.workflows (entry order + edge set, updated with the
documented meaning of every builder call the harness issues) and a sequential topological evaluation over it.
"""
from __future__ import annotations

import os
import random
import shutil
import threading
import time
from collections import Counter
from pathlib import Path

from vp.farm import Case, CaseTimeout, fp_of
from vp.gen import workflows as G

PROP = "C17"
LEVEL = "exploration"
RULE = (
    "random builder-operation sequences (ctor, add_task with predecessors listed in random order, re-add with "
    "extra predecessors, insert_workflow 1:1/N:N/N:1/1:N with Workflow or WorkflowBuilder, replace_task, +, "
    "Workflow<->WorkflowBuilder round trip, N:M and multi-sink refusals) giving DAGs of <= 12 tasks with one "
    "sink; task functions from a pure order-encoding family, some taking `context`; static inputs of mixed "
    "types; each workflow executed through execute_workflow (threaded dask) under 3 (quick) / 10 (thorough) "
    "forced completion orders. A case is distinct by (entry order, edges, kinds, context flags, op sequence); "
    "non-trivial if it has >= 4 tasks and a task with >= 2 predecessors. strata: A main 81%, B mixed "
    "context/non-context predecessors of one successor 12%, D dask-interpretable static input ('results', tuple "
    "with callable head) 7%; 2.5% (quick) / 0.5% (thorough) of the A cases are additionally executed with the "
    "distributed dispatcher (directly, through Context.call_workflow, or with an empty set as static input)"
)
ASSUMPTIONS = [
    "entry order of a task = position at which the harness first handed it to the builder; replace_task makes "
    "the new task enter last; insert_workflow / + append the other workflow's tasks in that workflow's entry order",
    "insert_workflow with as many predecessors as inputs (N:N) pairs them in order (tests/workflows/test_execute.py "
    "map_reduce relies on it)",
    "the state of a builder after a refused N:M insert is not judged (the refusal is tried on a throw-away copy)",
    "threaded dispatcher selected through pharmpy.workflows.dispatchers.conf.dask_dispatcher='threaded'; the "
    "distributed dispatcher (pharmpy's default when unconfigured) is exercised on a small fraction and only "
    "judged when the LocalCluster starts",
    "dask copies list/tuple/dict static inputs: arguments are compared by deep equality (type-strict), the context "
    "by identity",
]
MIN_NONTRIVIAL = {"quick": 1500, "thorough": 15000}
REQUIRED_MONITORS = ["exec", "once", "after_preds", "args", "args_multi_pred", "result", "struct", "insert_1:1",
                     "insert_N:N", "insert_N:1", "insert_1:N", "nm_refusal", "replace", "plus", "roundtrip",
                     "insert_context", "dask_dict", "multi_sink_refusal", "ctx_arg", "exec_ctxmix",
                     "exec_default_context", "workflows_with_2plus_orders"]
KEY_CTX = "C17/context-task-predecessor-order"
KEY_STATIC = "C17/static-input-interpreted-by-dask"
KEY_SET = "C17/distributed-scatter-empty-set"

N_SCHED = {"quick": 3, "thorough": 10}
POLICIES = ["random", "rev_entry", "random", "entry", "random"]
T_PARTIAL = 3.0  # s to wait for every ready task to have started before choosing among the started ones
T_PARTIAL_NEXT = 0.25  # .. once that has happened in an execution (a task that never starts keeps never starting)
T_STALL = 25.0  # s without any progress -> watchdog (case skipped, never a violation)
GATE_TIMEOUT = 45.0
_MISSING = object()
_ENV = {}


def n_cases(tier):
    return 6000 if tier == "quick" else 60000


def setup(tier):
    import pharmpy.model  # noqa
    import pharmpy.workflows  # noqa
    import pharmpy.workflows.dispatchers  # noqa
    from dask.threaded import get  # noqa  (import only; no pool is created before fork)


# ------------------------------------------------------------------ recording / gating
class Holder:
    run = None


class Run:
    def __init__(self, specs, gated):
        self.specs = specs
        self.cv = threading.Condition()
        self.events = []  # (kind, tid, thread ident, payload) - the list index is the global sequence number
        self.start_count = Counter()
        self.started = []
        self.ended = []
        self.gates = {}
        self.abort = not gated
        self.done = False
        self.stalled = False
        self.partial = 0

    def gate(self, tid):
        g = self.gates.get(tid)
        if g is None:
            g = self.gates[tid] = threading.Event()
        return g

    def body(self, tid, args):
        me = threading.get_ident()
        with self.cv:
            self.events.append(("start", tid, me, args))
            self.start_count[tid] += 1
            self.started.append(tid)
            gate = self.gate(tid)
            self.cv.notify_all()
        if not self.abort:
            if not gate.wait(GATE_TIMEOUT):
                self.stalled = True
        spec = self.specs[tid]
        a = args[1:] if spec["ctx"] else args
        val = G.compute(spec["kind"], G.label_of(tid, spec), list(a))
        with self.cv:
            self.events.append(("end", tid, me, val))
            self.ended.append(tid)
            self.cv.notify_all()
        return val

    def release_all(self):
        with self.cv:
            self.abort = True
            for t in list(self.specs):
                self.gate(t).set()
            self.cv.notify_all()


def make_fn(holder, tid, spec):
    """The wrapper IS the task function.  `context` must be the name of the first parameter for
    insert_context to recognise it; defaults keep a missing context observable instead of a TypeError."""
    if spec["ctx"]:
        def fn(context=_MISSING, *args):
            return holder.run.body(tid, () if context is _MISSING else (context,) + args)
    elif spec["form"] == "decoy":
        def fn(Context=_MISSING, *context):  # first parameter is NOT named `context`
            return holder.run.body(tid, () if Context is _MISSING else (Context,) + context)
    else:
        def fn(*args):
            return holder.run.body(tid, args)
    fn.__name__ = f"task_{tid}"
    # dask.distributed insists on a deterministic token for every callable in the graph; a closure over the
    # recorder (locks) cannot be pickled, so the wrapper names itself
    token = ("c17-task", tid, id(holder))
    fn.__dask_tokenize__ = lambda: token
    return fn


# ---- picklable variant of the wrappers (dask.distributed serialises the graph even for an in-process cluster)
_REGISTRY = {}


def _lookup(key):
    return _REGISTRY[key]


class _TaskObj:
    def __init__(self, holder, tid):
        self.holder = holder
        self.tid = tid
        self.key = ("c17-task", tid, id(holder))
        _REGISTRY[self.key] = self

    def __reduce__(self):
        return (_lookup, (self.key,))

    def __dask_tokenize__(self):
        return self.key


class _CtxTask(_TaskObj):
    def __call__(self, context=_MISSING, *args):
        return self.holder.run.body(self.tid, () if context is _MISSING else (context,) + args)


class _DecoyTask(_TaskObj):
    def __call__(self, Context=_MISSING, *context):
        return self.holder.run.body(self.tid, () if Context is _MISSING else (Context,) + context)


class _PlainTask(_TaskObj):
    def __call__(self, *args):
        return self.holder.run.body(self.tid, args)


class _OuterTask:
    """The single task of an outer workflow: runs the generated workflow through Context.call_workflow."""

    def __init__(self, wf, unique):
        self.wf = wf
        self.unique = unique
        self.key = ("c17-outer", unique)
        _REGISTRY[self.key] = self

    def __reduce__(self):
        return (_lookup, (self.key,))

    def __dask_tokenize__(self):
        return self.key

    def __call__(self, context):
        return context.call_workflow(self.wf, self.unique)


def make_obj(holder, tid, spec):
    cls = _CtxTask if spec["ctx"] else (_DecoyTask if spec["form"] == "decoy" else _PlainTask)
    return cls(holder, tid)


def controller(run, sh, policy, rng):
    index = {t: i for i, t in enumerate(sh.order)}
    preds = {t: sh.preds(t) for t in sh.order}
    released = set()
    order = []
    run.release_order = order
    while True:
        with run.cv:
            t0 = time.time()
            while True:
                if run.done or run.abort:
                    return
                ended = set(run.ended)
                started = set(run.start_count)
                cands = sorted((t for t in started if t not in released), key=lambda t: index.get(t, 10**6))
                exp_ready = [t for t in sh.order if t not in started and all(p in ended for p in preds[t])]
                waited = time.time() - t0
                if cands and not exp_ready:
                    break
                if cands and waited > (T_PARTIAL if not run.partial else T_PARTIAL_NEXT):
                    run.partial += 1
                    break
                if waited > T_STALL:
                    run.stalled = True
                    break
                run.cv.wait(0.05)
            if run.stalled:
                break
            if policy == "random":
                pick = rng.choice(cands)
            elif policy == "rev_entry":
                pick = cands[-1]
            else:
                pick = cands[0]
            released.add(pick)
            order.append(pick)
            run.gate(pick).set()
            t0 = time.time()
            while pick not in run.ended and not run.done:
                if time.time() - t0 > T_STALL:
                    run.stalled = True
                    break
                run.cv.wait(0.05)
            if run.stalled:
                break
    run.release_all()


class dispatcher_config:
    """Sets pharmpy.workflows.dispatchers.conf.dask_dispatcher ('threaded'; None = unconfigured, for which
    pharmpy falls back to 'distributed') and restores the previous state exactly."""

    def __init__(self, value):
        self.value = value

    def __enter__(self):
        import pharmpy.workflows.dispatchers as disp

        self.had = "dask_dispatcher" in disp.conf.__dict__
        self.old = disp.conf.__dict__.get("dask_dispatcher")
        if self.value is None:
            disp.conf.__dict__.pop("dask_dispatcher", None)
        else:
            disp.conf.dask_dispatcher = self.value

    def __exit__(self, *exc):
        import pharmpy.workflows.dispatchers as disp

        if self.had:
            disp.conf.__dict__["dask_dispatcher"] = self.old
        else:
            disp.conf.__dict__.pop("dask_dispatcher", None)


# ------------------------------------------------------------------ building the pharmpy objects
class Built:
    def __init__(self, plan, holder, style="closure"):
        self.plan = plan
        self.holder = holder
        self.style = style
        self.tasks = {}
        self.statics = {}
        self.tid_of = {}
        self.fn2tid = {}

    def T(self, tid):
        from pharmpy.workflows import Task

        if tid not in self.tasks:
            spec = self.plan["specs"][tid]
            fn = (make_fn if self.style == "closure" else make_obj)(self.holder, tid, spec)
            st = [G.materialize(d, _ENV) for d in spec["static"]]
            task = Task(spec["name"], fn, *st) if tid % 2 else Task.create(spec["name"], fn, *st)
            self.tasks[tid] = task
            self.statics[tid] = st
            self.tid_of[id(task)] = tid
            self.fn2tid[fn] = tid
        return self.tasks[tid]


def _preds_arg(b, preds, form):
    if form == "none":
        return {}
    if form == "single":
        return {"predecessors": b.T(preds[0])}
    return {"predecessors": [b.T(p) for p in preds]}


def build_sub(b, sub):
    from pharmpy.workflows import Workflow, WorkflowBuilder

    if sub["ctor"]:
        wb = WorkflowBuilder(tasks=[b.T(t) for t in sub["ctor"]])
    else:
        wb = WorkflowBuilder()
    for a in sub["adds"]:
        wb.add_task(b.T(a["t"]), **_preds_arg(b, a["preds"], a["form"]))
    return Workflow(wb) if sub["as"] == "workflow" else wb


def struct_check(c, wbx, sh, b, what, judge=True):
    """(task, edge) sets of the pharmpy object == shadow.  Returns list of problems."""
    probs = []
    tids = [b.tid_of.get(id(t)) for t in wbx.tasks]
    if None in tids or sorted(tids) != sorted(sh.order) or len(wbx) != len(sh.order):
        probs.append(("struct", f"after {what}: tasks {tids} != declared {sh.order}", None))
        return probs
    if judge:
        c.hit("struct")
        c.hit("tasks_listed_in_entry_order" if tids == sh.order else "not_judged:tasks_listing_order_differs")
    for t in sh.order:
        task = b.tasks[t]
        got_p = sorted(b.tid_of.get(id(x), -1) for x in wbx.get_predecessors(task))
        got_s = sorted(b.tid_of.get(id(x), -1) for x in wbx.get_successors(task))
        if got_p != sorted(sh.preds(t)):
            probs.append(("struct", f"after {what}: predecessors of task {t} are {got_p}, declared {sorted(sh.preds(t))}", None))
        if got_s != sorted(sh.succs(t)):
            probs.append(("struct", f"after {what}: successors of task {t} are {got_s}, declared {sorted(sh.succs(t))}", None))
    got_in = sorted(b.tid_of.get(id(x), -1) for x in wbx.input_tasks)
    got_out = sorted(b.tid_of.get(id(x), -1) for x in wbx.output_tasks)
    if got_in != sorted(sh.sources()):
        probs.append(("struct", f"after {what}: input_tasks {got_in} != sources {sorted(sh.sources())}", None))
    if got_out != sorted(sh.sinks()):
        probs.append(("struct", f"after {what}: output_tasks {got_out} != sinks {sorted(sh.sinks())}", None))
    last = sh.order[-1]
    for t in {last, sh.sinks()[0]}:
        up = sorted({b.tid_of.get(id(x), -1) for x in wbx.get_upstream_tasks(b.tasks[t])})
        if up != sorted(sh.ancestors(t)):
            probs.append(("struct", f"after {what}: upstream tasks of {t} are {up}, ancestors {sorted(sh.ancestors(t))}", None))
        elif judge:
            c.hit("upstream")
    return probs


def build(c, plan, holder, ctx, judge=True, style="closure"):
    """Replays the plan against pharmpy.  Returns (builder, Built, shadow, problems)."""
    from pharmpy.workflows import Workflow, WorkflowBuilder, execute_workflow

    b = Built(plan, holder, style)
    sh = G.Shadow()
    wb = None
    probs = []
    name = plan["name"]
    for i, op in enumerate(plan["ops"]):
        k = op["op"]
        what = f"op {i} {k}"
        try:
            if k == "ctor":
                if op["tasks"]:
                    wb = WorkflowBuilder(tasks=[b.T(t) for t in op["tasks"]], name=name)
                else:
                    wb = WorkflowBuilder(name=name)
            elif k in ("add", "readd"):
                wb.add_task(b.T(op["t"]), **_preds_arg(b, op["preds"], op["form"]))
            elif k == "replace":
                wb.replace_task(b.T(op["old"]), b.T(op["new"]))
                if judge:
                    c.hit("replace")
            elif k == "insert":
                cat, _ = G.insert_connections(sh, op)
                sub = build_sub(b, op["sub"])
                p = op["preds"]
                if p is None:
                    if i % 2:
                        wb.insert_workflow(sub)
                    else:
                        wb.insert_workflow(sub, predecessors=None)
                elif isinstance(p, list):
                    wb.insert_workflow(sub, predecessors=[b.T(x) for x in p])
                else:
                    wb.insert_workflow(sub, predecessors=b.T(p))
                if judge:
                    c.hit("insert_" + cat)
                what += " " + cat
            elif k == "plus":
                sub = build_sub(b, op["sub"])
                if op["how"] == "w+w":
                    wb = WorkflowBuilder(Workflow(wb) + sub)
                    wb.name = name
                else:
                    wb = wb + sub
                if judge:
                    c.hit("plus")
            elif k == "roundtrip":
                wb = WorkflowBuilder(Workflow(wb))
                if judge:
                    c.hit("roundtrip")
                    if wb.name != name:
                        probs.append(("struct", f"{what}: name {wb.name!r} != {name!r}", None))
            elif k == "nm_refusal":
                if judge:
                    wb2 = WorkflowBuilder(Workflow(wb))
                    n_before = len(wb2)
                    sub = build_sub(b, op["sub"])
                    p = op["preds"]
                    try:
                        if p is None:
                            wb2.insert_workflow(sub)
                        else:
                            wb2.insert_workflow(sub, predecessors=[b.T(x) for x in p])
                        probs.append(("struct", f"{what}: N:M insert_workflow was not refused", None))
                    except ValueError:
                        pass
                    c.hit("nm_refusal")
                    if len(wb2) != n_before:
                        c.hit("not_judged:builder_changed_by_refused_insert")
            elif k == "multi_sink_probe":
                if judge:
                    try:
                        holder.run = Run(plan["specs"], gated=False)
                        with dispatcher_config("threaded"):
                            execute_workflow(Workflow(wb), context=ctx)
                        probs.append(("exec", f"{what}: workflow with {len(sh.sinks())} output tasks was executed", None))
                    except ValueError:
                        pass
                    c.hit("multi_sink_refusal")
                    if holder.run.events:
                        c.hit("not_judged:tasks_ran_before_multi_sink_refusal")
        except CaseTimeout:
            raise
        except Exception as e:
            probs.append(("struct", f"{what} raised {type(e).__name__}: {e}", None))
            return wb, b, sh, probs
        sh.apply(op)
        if judge and wb is not None and sh.order:
            probs += struct_check(c, wb, sh, b, what)
            if probs:
                return wb, b, sh, probs
    return wb, b, sh, probs


def check_insert_context(c, wb, sh, b, ctx):
    from pharmpy.workflows import Workflow, WorkflowBuilder
    from pharmpy.workflows.workflow import insert_context

    probs = []
    wb2 = WorkflowBuilder(Workflow(wb))
    insert_context(wb2, ctx)
    c.hit("insert_context")
    new = wb2.tasks
    tids = [b.fn2tid.get(t.function) for t in new]
    if None in tids or sorted(tids) != sorted(sh.order):
        return [("struct", f"insert_context: tasks {tids} != declared {sh.order}", None)]
    t2 = dict(zip(tids, new))
    rev = {id(t): tid for tid, t in t2.items()}
    for tid, t in t2.items():
        spec = b.plan["specs"][tid]
        orig = b.tasks[tid]
        if spec["ctx"]:
            ti = t.task_input
            if not (len(ti) == len(orig.task_input) + 1 and ti[0] is ctx
                    and all(x is y for x, y in zip(ti[1:], orig.task_input)) and t.name == orig.name):
                probs.append(("struct", f"insert_context: task {tid} (first parameter `context`) has inputs {ti!r:.200}", None))
        else:
            if t is not orig:
                probs.append(("struct", f"insert_context: task {tid} without a context parameter was replaced", None))
        got_p = sorted(rev.get(id(x), -1) for x in wb2.get_predecessors(t))
        if got_p != sorted(sh.preds(tid)):
            probs.append(("struct", f"insert_context: predecessors of {tid} are {got_p}, declared {sorted(sh.preds(tid))}", None))
    return probs


def check_dask_dict(c, wb, sh, b):
    from pharmpy.workflows import Workflow

    d = Workflow(wb).as_dask_dict()
    c.hit("dask_dict")
    probs = []
    if len(d) != len(sh.order) or "results" not in d:
        return [("struct", f"as_dask_dict has {len(d)} keys for {len(sh.order)} tasks / no 'results'", None)]
    key2tid = {}
    for key, val in d.items():
        tid = b.fn2tid.get(val[0])
        if tid is None or tid in key2tid.values():
            return [("struct", "as_dask_dict: unknown or repeated task function", None)]
        key2tid[key] = tid
    if key2tid["results"] != sh.sinks()[0]:
        probs.append(("struct", "as_dask_dict: 'results' is not the output task", None))
    for key, val in d.items():
        tid = key2tid[key]
        st = b.statics[tid]
        rest = val[1:]
        if len(rest) != len(st) + len(sh.preds(tid)) or not all(x is y for x, y in zip(rest, st)):
            probs.append(("struct", f"as_dask_dict: task {tid} static part differs", None))
            continue
        got = [key2tid.get(k2) if isinstance(k2, str) else None for k2 in rest[len(st):]]
        if got != sh.preds(tid):
            probs.append(("order", f"as_dask_dict: task {tid} predecessor keys in order {got}, entry order {sh.preds(tid)}", None))
    return probs


# ------------------------------------------------------------------ executing and judging
def execute(plan, wf, sh, holder, mode, ctx, ctxdir, policy, rng, gated=True, dispatcher_conf="threaded"):
    from pharmpy.workflows import Task, Workflow, WorkflowBuilder, execute_workflow, local_dask

    if mode == "nested":
        outer = _OuterTask(wf, f"inner-results-{id(holder)}")
        wf = Workflow(WorkflowBuilder(tasks=[Task("outer", outer)], name="outer"))

    run = Run(plan["specs"], gated)
    run.release_order = []
    holder.run = run
    th = None
    if gated:
        th = threading.Thread(target=controller, args=(run, sh, policy, rng), daemon=True)
        th.start()
    res, exc = None, None
    try:
        with dispatcher_config(dispatcher_conf):
            if mode == "path":
                res = execute_workflow(wf, path=ctxdir)
            elif mode == "dispatcher":
                res = execute_workflow(wf, dispatcher=local_dask, context=ctx)
            else:
                res = execute_workflow(wf, context=ctx)
    except CaseTimeout:
        raise
    except Exception as e:
        exc = e
    finally:
        with run.cv:
            run.done = True
            run.cv.notify_all()
        for t in list(plan["specs"]):
            run.gate(t).set()
        if th is not None:
            th.join(10)
    return run, res, exc


def short(x, n=300):
    s = repr(x)
    return s if len(s) <= n else s[:n] + "..."


def judge(c, run, res, exc, sh, b, ctx_ok, count=True):
    """Oracle (i)-(iv) on one recorded execution.  Returns problems [(kind, msg, detail)]."""
    specs = b.plan["specs"]
    probs = []
    values, exp_args, _ = G.reference_eval(sh, specs, b.statics)
    if exc is not None:
        probs.append(("exec", f"execute_workflow raised {type(exc).__name__}: {str(exc)[:200]}", None))
    starts, ends = {}, {}
    for seq, (kind, tid, th, payload) in enumerate(run.events):
        (starts if kind == "start" else ends).setdefault(tid, []).append((seq, payload))
    # (i) exactly once
    for t in sh.order:
        n = len(starts.get(t, ()))
        if count:
            c.hit("once")
        if n != 1 and exc is None:
            probs.append(("once", f"task {t} was started {n} times", None))
    for t in starts:
        if t not in sh.order:
            probs.append(("once", f"task {t} is not part of the workflow (replaced / never inserted) but was executed", None))
    if exc is not None:
        return probs
    # (ii) after all predecessors
    for (p, t) in sorted(sh.edges):
        if t in starts and count:
            c.hit("after_preds")
        if t in starts and (p not in ends or ends[p][0][0] > starts[t][0][0]):
            probs.append(("after", f"task {t} started before its predecessor {p} ended", None))
    # (iii) arguments
    for t in sh.order:
        if t not in starts:
            continue
        args = starts[t][0][1]
        spec = specs[t]
        if spec["ctx"]:
            if count:
                c.hit("ctx_arg")
            if not args or not ctx_ok(args[0]):
                probs.append(("ctx", f"task {t} takes `context` first but received {short(args[:1])}", None))
                continue
            args = args[1:]
        # expected: static inputs ++ ACTUAL values of predecessors in entry order
        pv = []
        for p in sh.preds(t):
            pv.append(ends[p][0][1] if p in ends else values[p])
        want = list(b.statics[t]) + pv
        if count:
            c.hit("args")
            if len(sh.preds(t)) >= 2:
                c.hit("args_multi_pred")
        if not G.same(list(args), want):
            kind = "args"
            msg = f"task {t} received {short(list(args))}, expected static inputs ++ predecessor results {short(want)}"
            ns = len(b.statics[t])
            if len(args) == len(want) and G.same(list(args[:ns]), want[:ns]):
                got_order = []
                for a in args[ns:]:
                    m = [p for p, v in zip(sh.preds(t), pv) if G.same(a, v)]
                    got_order.append(m[0] if len(m) == 1 else None)
                if None not in got_order and sorted(got_order) == sorted(sh.preds(t)):
                    kind = "order"
                    msg = (f"task {t} received its predecessors' results in order {got_order}, entry order is "
                           f"{sh.preds(t)}")
            elif not G.same(list(args[:ns]), want[:ns]):
                kind = "static"
            probs.append((kind, msg, None))
    # (iv) result
    sink = sh.sinks()[0]
    if count:
        c.hit("result")
    if sink in ends and not G.same(res, ends[sink][0][1]):
        probs.append(("result", f"execute_workflow returned {short(res)}, the output task returned {short(ends[sink][0][1])}", None))
    if not G.same(res, values[sink]):
        probs.append(("result", f"execute_workflow returned {short(res)}, sequential topological evaluation gives {short(values[sink])}", None))
    for t in sh.order:
        if t in ends and not G.same(ends[t][0][1], values[t]) and not probs:
            probs.append(("result", f"task {t} returned {short(ends[t][0][1])}, reference {short(values[t])}", None))
    return probs


def run_plan(c, plan, rng_seeds, tier, ctxroot, modes, judge_struct=True, count=True, gated=True):
    """Build + (structural checks) + execute under the given schedules.  Returns (problems, completion orders)."""
    from pharmpy.workflows import LocalDirectoryContext, Workflow
    from pharmpy.workflows.contexts import NullContext

    holder = Holder()
    ctxkind = modes["ctx"]
    if ctxkind == "null":
        ctx = NullContext()
    else:
        ctx = LocalDirectoryContext("ctx", ref=str(ctxroot))
        ctx.broadcast_message = lambda *a, **k: None
    wb, b, sh, probs = build(c, plan, holder, ctx, judge=judge_struct)
    if probs:
        return probs, [], sh
    if judge_struct:
        probs += check_insert_context(c, wb, sh, b, ctx)
        probs += check_dask_dict(c, wb, sh, b)
        if probs:
            return probs, [], sh
    wf = Workflow(wb)
    orders = []
    for s, (policy, seed) in enumerate(rng_seeds):
        mode = modes["exec"][s % len(modes["exec"])]
        if mode == "path":
            want_path = Path(ctxroot) / plan["name"]

            def ctx_ok(x, want_path=want_path):
                return isinstance(x, LocalDirectoryContext) and Path(x.path) == want_path
        else:
            def ctx_ok(x):
                return x is ctx
        run, res, exc = execute(plan, wf, sh, holder, mode, ctx, str(ctxroot), policy, random.Random(seed), gated=gated)
        if run.stalled:
            return "watchdog", orders, sh
        if count:
            c.hit("exec")
            c.hit("exec_" + ("default_context" if mode == "path" else mode))
            if run.partial:
                c.hit("schedule_partial_ready", run.partial)
        p = judge(c, run, res, exc, sh, b, ctx_ok, count=count)
        orders.append(tuple(run.ended))
        if p:
            probs += [(k, f"[schedule {s} {policy}] {m}", d) for k, m, d in p]
            break
    return probs, orders, sh


def pick_stratum(rng):
    r = rng.random()
    if r < 0.81:
        return "A"
    if r < 0.93:
        return "B"
    return "D"


def run_case(rng, idx, tier):
    c = Case()
    stratum = pick_stratum(rng)
    plan = G.gen_plan(rng, stratum)
    if plan is None:
        c.skipped = "no-plan"
        return c
    if "model" not in _ENV:
        from pharmpy.model import Model

        _ENV["model"] = Model.create(name="m")
    sh0 = G.final_shadow(plan)
    c.sample = G.render(plan)
    c.fp = fp_of(G.structure_fp(plan))
    c.nontrivial = len(sh0.order) >= 4 and any(len(sh0.preds(t)) >= 2 for t in sh0.order)
    nsched = N_SCHED.get(tier, 3)
    seeds = [(POLICIES[s % len(POLICIES)], rng.random()) for s in range(nsched)]
    r = rng.random()
    modes = {"ctx": "null" if r < 0.12 else "local", "exec": ["ctx"]}
    r2 = rng.random()
    if modes["ctx"] == "local" and r2 < 0.15:
        modes["exec"] = ["path", "ctx"]
    elif r2 < 0.3:
        modes["exec"] = ["dispatcher", "ctx"]
    distributed = stratum == "A" and rng.random() < (0.025 if tier == "quick" else 0.005)
    scratch = Path(os.environ.get("VERIF_SCRATCH", "/var/tmp")) / f"c17-{idx}"
    scratch.mkdir(parents=True, exist_ok=True)
    try:
        probs, orders, sh = run_plan(c, plan, seeds, tier, scratch / "main", modes)
        if probs == "watchdog":
            c.skipped = "watchdog"
            return c
        for o in orders:
            c.states.append(fp_of(c.fp, o))
        if len(set(orders)) >= 2:
            c.hit("workflows_with_2plus_orders")
        c.hit("completion_orders", len(set(orders)))
        if stratum == "B":
            c.hit("exec_ctxmix", len(orders))
            mixed, harmful = G.mixed_successors(sh, plan["specs"])
            c.hit("ctxmix_harmful" if harmful else "ctxmix_harmless")
            if not probs and not harmful:
                c.hit("ctxmix_harmless_held")
        if stratum == "D":
            c.hit("exec_hostile_static", len(orders))
        if probs:
            key = None
            if stratum in ("B", "D") and all(k in ("order", "args", "result", "exec", "static", "once", "after") for k, _, _ in probs):
                dplan = G.delta_ctx(plan) if stratum == "B" else G.delta_static(plan)
                dprobs, _, _ = run_plan(c, dplan, seeds, tier, scratch / "delta", modes, judge_struct=False, count=False)
                c.hit("delta_check")
                if dprobs != "watchdog" and not dprobs:
                    key = KEY_CTX if stratum == "B" else KEY_STATIC
            for k, m, d in probs[:3]:
                c.violate(key, m, {"kind": k, "plan": c.sample})
        elif stratum == "D":
            c.hit("hostile_static_held")
        if distributed and not probs:
            _distributed(c, plan, rng, scratch)
    finally:
        shutil.rmtree(scratch, ignore_errors=True)
    return c


def _distributed(c, plan, rng, scratch):
    """pharmpy's default dispatcher when nothing is configured: dask distributed on a LocalCluster of threads.
    Half of these executions carry an empty set as a static input (stratum of KEY_SET), the others none."""
    with_empty = rng.random() < 0.4
    nested = not with_empty and rng.random() < 0.5
    plan = G.inject_empty_set(rng, plan) if with_empty else G.delta_sets(plan)
    if not with_empty and rng.random() < 0.6:
        plan = G.inject_model_twins(rng, plan)
        c.hit("exec_distributed_model_twins")
    seed = rng.random()
    out = _distributed_once(c, plan, seed, scratch / "dist", "nested" if nested else "ctx")
    if out == "env":
        return
    kind, probs = out
    if kind == "ok":
        c.hit("exec_distributed_call_workflow" if nested else "exec_distributed")
        if with_empty:
            c.hit("exec_distributed_empty_set")
        for k, m, d in probs[:4]:
            c.violate(None, "[distributed dispatcher] " + m, {"kind": k, "plan": G.render(plan)})
        return
    # execute_workflow raised
    exc = probs
    if with_empty:
        c.hit("exec_distributed_empty_set")
        out2 = _distributed_once(c, G.delta_sets(plan), seed, scratch / "dist2")
        if out2 != "env" and out2[0] == "ok" and not out2[1]:
            c.violate(KEY_SET, f"[distributed dispatcher] execute_workflow raised {type(exc).__name__}: {str(exc)[:150]} "
                               "(a static input contains an empty set)", {"plan": G.render(plan)})
            return
    c.hit("not_judged:distributed_error:" + type(exc).__name__)


def _distributed_once(c, plan, seed, ctxroot, mode="ctx"):
    from pharmpy.workflows import LocalDirectoryContext, Workflow

    holder = Holder()
    ctx = LocalDirectoryContext("ctxd", ref=str(ctxroot))
    ctx.broadcast_message = lambda *a, **k: None
    wb, b, sh, probs = build(c, plan, holder, ctx, judge=False, style="object")
    if probs:
        return "env"
    try:
        import logging

        logging.getLogger("distributed").setLevel(logging.CRITICAL)
        run, res, exc = execute(plan, Workflow(wb), sh, holder, mode, ctx, None, "random", random.Random(seed),
                                gated=True, dispatcher_conf=None)
    finally:
        _REGISTRY.clear()
    if run.stalled:
        c.hit("not_judged:distributed_stalled")
        return "env"
    if exc is not None:
        return "exc", exc
    return "ok", judge(c, run, res, exc, sh, b, lambda x: x is ctx, count=False)
