"""C13 Datasets are read by NM-TRAN's rules and survive a write/read cycle.

Reference: vp.gen.datafiles.ref_read - a character-level reader written from the bullet rules of
/repo/docs/NONMEM.rst (no pharmpy, no pandas).  The code under test is reached twice per case: through
read_model(...).dataset on a control stream + data file written to the scratch directory, and through
read_nonmem_dataset with the arguments parse_dataset would pass.
"""
from __future__ import annotations

import io
import math
import os
import random
from pathlib import Path

from vp.farm import Case, CaseTimeout, fp_of
from vp.gen import datafiles as G

PROP = "C13"
LEVEL = "exploration"
RULE = (
    "read cases (~88%): a data file of 1-7 rows x 1-6 $INPUT columns rendered item by item from the documented "
    "lexical forms (comma/space/TAB separators with blanks, NULL forms, Fortran numbers, 24 character items, "
    "comment/header lines per IGNORE regime, short rows, fewer file columns than $INPUT), $INPUT with "
    "DROP/SKIP/synonyms, NULL=c, 0-3 IGNORE/ACCEPT filters (values drawn from the column's items, order-critical "
    "lists included); strata: A 60% (no listed finding), E:<construct> 16% (exactly one construct for which the "
    "rules say ERROR), B:<construct> 24% (exactly one construct with a listed finding, attributed by re-running "
    "the case with the construct replaced by its stratum-A equivalent). "
    "write/read cases (~12%): random numeric frame -> set_dataset on pheno / a $PRED model whose $INPUT/$DATA carry "
    "synonyms, NULL=, IGNORE=c and filters (80% stratum A, 20% B: dropped columns or several $INPUT records in the "
    "old code) -> write_model/write_csv -> read_model. "
    "distinct by (file text, $INPUT text, $DATA options) resp. frame content; non-trivial: a read case judged by "
    "the reference with >= 2 data rows and >= 2 of {mixed separators or blanks, NULL form, Fortran form, "
    "DROP/synonym, filter, comment/header line, padding, ERROR construct}; a write/read case with >= 2 rows and "
    ">= 2 value classes"
)
ASSUMPTIONS = [
    "docs/NONMEM.rst bullets are the specification; the garbled bullet 'Spaces in the beginning or of a row are "
    "ignored' is read as beginning or end",
    ".EQ./.NE./==/=//= compare item text, all other operators compare numbers (property statement + bullets)",
    "the token '-99' reads as NaN (documented pharmpy missing_data_token); NaN/Inf spellings are not generated "
    "(read_nonmem_dataset's docstring accepts them, the NM-TRAN bullet does not)",
    "dropped columns: only their absence from the non-dropped name list and their datainfo drop flag is judged; "
    "whether the frame keeps them as strings is not",
    "ID columns are generated integer valued and without re-use (pharmpy renumbers re-used ids by design); a third of the "
    "cases have distinct ids in non-ascending order",
    "for $PK models pharmpy removes individuals without observation records (tests/nonmem/test_input.py); an observation "
    "record is MDV = 0 if there is an MDV item, else EVID = 0, else AMT = 0",
    "ACCEPT lists with several filters are judged only when the AND and the OR reading agree",
    "numeric filters on NULL items, text .NE. on NULL items: not judged (doc: filters cannot see NULL)",
    "write/read equality is value equality (NaN == NaN, -0.0 == 0.0, int column == float column); the integer "
    "-99 is not generated because it is the documented missing token",
]
MIN_NONTRIVIAL = {"quick": 800, "thorough": 15000}
REQUIRED_MONITORS = ["read_model_values", "direct_values", "read_model_error_expected", "direct_error_expected",
                     "cells_compared", "filters_evaluated", "roundtrip_write_model", "roundtrip_write_csv",
                     "roundtrip_cells", "form:exp_short", "form:exp_D", "form:lone_sign", "form:len24",
                     "stratum:A", "padding_rows", "synonym_columns", "dropped_columns", "filter_order_critical",
                     "filter_on_dropped_column", "roundtrip_after_transformation", "pk_observation_filter"]

FINDING_KEYS = {
    'B:surplus': 'C13/surplus-columns-keyerror',
    'B:short-first-row': 'C13/short-first-row',
    'B:comment-last-line-no-newline': 'C13/comment-last-line-no-newline',
    'B:filter-padded-null': 'C13/filter-sees-padded-null',
    'B:ignore-char-special': 'C13/ignore-char-regex-class',
    'B:signed-d-exponent': 'C13/signed-mantissa-d-exponent',
    'B:signed-filter-value': 'C13/signed-filter-value-on-empty-frame',
    'E:blank-line': 'C13/blank-line-not-detected',
    'E:python-float-literal': 'C13/python-float-literal-accepted',
}

_STATE = {}


def n_cases(tier):
    return 3400 if tier == "quick" else 68000


def setup(tier):
    import pharmpy.modeling  # noqa
    import pharmpy.model.external.nonmem.dataset  # noqa
    from pharmpy.modeling import load_example_model, read_model_from_string

    _STATE['pheno'] = load_example_model('pheno')
    for name, variants in RT_BASES.items():
        _STATE[name] = [
            tuple(read_model_from_string(G.render_control_stream(inp, 'c13_no_such_file.csv', opts)) for inp in inps)
            for inps, opts in variants
        ]


# Base models of the write/read cycle: (($INPUT text, repaired $INPUT text or nothing), $DATA options).
# Everything in $INPUT/$DATA must be regenerated for the new dataset.
RT_BASES = {
    'A:minimal': [(('$INPUT ID DV',), [])],
    'A:options': [
        (('$INPUT ID TAD=TIME DV',), ['IGNORE=C', 'NULL=7', 'ACCEPT=(DV.GT.5)']),
        (('$INPUT A B C D E F G H',), ['NULL=-', 'IGNORE=(A.EQ.1) IGNORE=(B.NE.2)']),
        (('$INPUT ID CONC=DV AGE',), ["IGNORE='#'", 'IGNORE=(CONC.EQ.1,AGE.LT.-3)']),
    ],
    # listed finding: a column dropped in the old $INPUT stays dropped for the new dataset
    'B:update-input-keeps-drop': [
        (('$INPUT ID TAD=TIME WGT=DROP DV SKIP', '$INPUT ID TAD=TIME WGT DV X9'), ['IGNORE=C', 'NULL=7', 'ACCEPT=(DV.GT.5)']),
        (('$INPUT DROP A B=SKIP', '$INPUT Q A B'), []),
    ],
    # listed finding: only the first $INPUT record is regenerated
    'B:update-input-multiple-records': [
        (('$INPUT ID CONC=DV\n$INPUT AGE SEX', '$INPUT ID CONC=DV AGE SEX'), ["IGNORE='#'", 'IGNORE=(CONC.EQ.1,AGE.LT.-3)']),
        (('$INPUT A\n$INPUT B\n$INPUT C D', '$INPUT A B C D'), []),
    ],
}
RT_KEYS = {'B:update-input-keeps-drop': 'C13/update-input-keeps-drop',
           'B:update-input-multiple-records': 'C13/update-input-multiple-records'}


# ------------------------------------------------------------------------------------------ pharmpy drivers
def _scratch():
    return Path(os.environ["VERIF_SCRATCH"])


def via_read_model(tag, text, input_text, options):
    """('ok', {'names': [...], 'cols': {name: list}, 'nondropped': [...]}) or ('raise', 'Type: msg')."""
    from pharmpy.modeling import read_model

    d = _scratch()
    datap = d / f"c13_{tag}.csv"
    modp = d / f"c13_{tag}.mod"
    try:
        with open(datap, 'w', encoding='latin-1', newline='') as f:
            f.write(text)
        modp.write_text(G.render_control_stream(input_text, datap.name, options))
        try:
            model = read_model(modp)
            df = model.dataset
            if df is None:
                return ('raise', 'NoDataset: model.dataset is None')
            names = [str(x) for x in df.columns]
            cols = {str(n): df[n].tolist() for n in df.columns}
            nd = [ci.name for ci in model.datainfo if not ci.drop]
            return ('ok', {'names': names, 'cols': cols, 'nondropped': nd, 'nrows': len(df)})
        except CaseTimeout:
            raise
        except Exception as e:
            return ('raise', f"{type(e).__name__}: {str(e)[:200]}")
    finally:
        for p in (datap, modp):
            try:
                p.unlink()
            except OSError:
                pass


def via_direct(tag, text, case, use_path, null_as_str):
    from pharmpy.model.external.nonmem.dataset import read_nonmem_dataset

    colnames = [c['name'] for c in case['cols']]
    drop = [c['drop'] for c in case['cols']]
    kwargs = dict(colnames=colnames, drop=drop)
    if case['ignore_char'] is not None:
        kwargs['ignore_character'] = case['ignore_char']
    nc = case['null_char']
    if nc is not None:
        if nc in '+-':
            kwargs['null_value'] = '0' if null_as_str else 0
        else:
            kwargs['null_value'] = nc if null_as_str else float(nc)
    if case['filters']:
        kwargs['ignore' if case['filter_kind'] == 'ignore' else 'accept'] = G.direct_filter_strings(case)
    datap = _scratch() / f"c13_{tag}_d.csv"
    try:
        if use_path:
            with open(datap, 'w', encoding='latin-1', newline='') as f:
                f.write(text)
            src = datap
        else:
            src = io.StringIO(text)
        try:
            df = read_nonmem_dataset(src, **kwargs)
            names = [str(x) for x in df.columns]
            cols = {str(n): df[n].tolist() for n in df.columns}
            nd = [n for n, d in zip(colnames, drop) if not d]
            return ('ok', {'names': names, 'cols': cols, 'nondropped': nd, 'nrows': len(df)})
        except CaseTimeout:
            raise
        except Exception as e:
            return ('raise', f"{type(e).__name__}: {str(e)[:200]}")
    finally:
        if use_path:
            try:
                datap.unlink()
            except OSError:
                pass


# ------------------------------------------------------------------------------------------ oracle
def reference(case, text):
    colnames = [c['name'] for c in case['cols']]
    drop = [c['drop'] for c in case['cols']]
    numeric_only = {j for j, c in enumerate(case['cols']) if c['numeric_only']}
    try:
        res = G.ref_read(text, case['ignore_char'], colnames, drop, case['null_char'], case['filter_kind'],
                         case['filters'], numeric_only=numeric_only)
        return ('ok', res)
    except G.RefError as e:
        return ('error', str(e))
    except G.NotJudged as e:
        return ('nj', str(e))


def same(a, b):
    if isinstance(a, bool) or isinstance(b, bool):
        return False
    if not isinstance(a, (int, float)) or not isinstance(b, (int, float)):
        return False
    if a != a and b != b:
        return True
    return a == b


def judge(outcome, ref, case, path):
    """List of (msg, detail) contradictions between one pharmpy outcome and the reference verdict."""
    kind, val = ref
    if kind == 'error':
        if outcome[0] == 'ok':
            return [(f"{path}: accepted a file for which the rules say ERROR ({val})",
                     {'got_rows': outcome[1]['nrows']})]
        return []
    if outcome[0] == 'raise':
        return [(f"{path}: raised {outcome[1]} where the rules accept", None)]
    got = outcome[1]
    exp_names = [c['name'] for c in case['cols'] if not c['drop']]
    problems = []
    got_nd = [n for n in got['names'] if n in set(exp_names)]
    if got_nd != exp_names or got['nondropped'] != exp_names:
        problems.append((f"{path}: non-dropped columns {got['nondropped']} / frame columns {got['names']}, "
                         f"expected non-dropped {exp_names}", None))
        return problems
    rows = val['rows']
    if got['nrows'] != len(rows):
        problems.append((f"{path}: {got['nrows']} rows, reference reader gives {len(rows)}",
                         {'reference_kept_row_indices': val['kept']}))
        return problems
    W = len(case['cols'])
    for j in range(W):
        c = case['cols'][j]
        if c['drop']:
            continue
        col = got['cols'][c['name']]
        for i in range(len(rows)):
            if not same(col[i], rows[i][j]):
                problems.append((f"{path}: column {c['name']} row {i}: got {col[i]!r}, reference {rows[i][j]!r} "
                                 f"(raw item {val['raw'][i][j]!r})", None))
                return problems
    return problems


def evaluate(c, case, tag, rng, count=True):
    """Runs both pharmpy paths on the rendered case; returns (ref, problems, outcomes, rendering)."""
    text = G.render_text(case)
    input_text = G.render_input(rng, case)
    options = G.render_data_options(rng, case)
    use_path = rng.random() < 0.5
    null_as_str = rng.random() < 0.5
    ref = reference(case, text)
    rendering = {'input': input_text, 'data_options': options, 'file': text}
    if ref[0] == 'nj':
        return ref, [], None, rendering
    o1 = via_read_model(tag, text, input_text, options)
    o2 = via_direct(tag, text, case, use_path, null_as_str)
    p1 = judge(o1, ref, case, 'read_model')
    p2 = judge(o2, ref, case, 'read_nonmem_dataset')
    if count:
        if ref[0] == 'ok':
            c.hit('read_model_values')
            c.hit('direct_values')
            nd = sum(1 for col in case['cols'] if not col['drop'])
            c.hit('cells_compared', 2 * nd * len(ref[1]['rows']))
            if case['filters']:
                c.hit('filters_evaluated', len(case['filters']))
                c.hit('filter_rows_removed', len([r for r in case['rows'] if r['kind'] == 'data']) - len(ref[1]['rows']))
        else:
            c.hit('read_model_error_expected')
            c.hit('direct_error_expected')
            for o in (o1, o2):
                if o[0] == 'raise':
                    c.hit('error_raised_as:' + o[1].split(':')[0])
    return ref, p1 + p2, (o1, o2), rendering


def attribute(c, case, ref, outcomes, rng, tag):
    """Delta check: the stratum's construct replaced by its stratum-A equivalent.  The finding key is given
    only if the repaired case is judged, passes on both paths, and is the same dataset by the reference."""
    key = FINDING_KEYS.get(case['stratum'])
    if key is None:
        return None
    rc = G.repaired(case)
    if rc is None:
        return None
    ref2, problems2, outcomes2, _ = evaluate(c, rc, tag + 'r', rng, count=False)
    c.hit('delta_checks')
    if ref2[0] != 'ok' or problems2:
        return None
    if ref[0] == 'ok':
        if not _same_rows(ref[1]['rows'], ref2[1]['rows']):
            return None
    else:
        # the rules say ERROR, pharmpy accepted: it must have read exactly the repaired file
        for o in outcomes:
            if o[0] == 'ok' and judge(o, ref2, rc, 'x'):
                return None
    return key


def _same_rows(a, b):
    if len(a) != len(b):
        return False
    for r1, r2 in zip(a, b):
        if len(r1) != len(r2):
            return False
        for x, y in zip(r1, r2):
            if x is None or y is None:
                if x is not y:
                    return False
            elif not same(x, y):
                return False
    return True


# ------------------------------------------------------------------------------------------ the cases
def run_case(rng, idx, tier):
    if rng.random() < 0.12:
        return run_roundtrip(rng, idx)
    return run_read(rng, idx)


def run_read(rng, idx):
    c = Case()
    case = G.gen_case(rng)
    sub = random.Random(rng.random())
    ref, problems, outcomes, rendering = evaluate(c, case, str(idx), rng)
    ref_text = {'ok': lambda: {'rows': ref[1]['rows']}, 'error': lambda: 'ERROR: ' + ref[1],
                'nj': lambda: 'not judged: ' + ref[1]}[ref[0]]()
    c.sample = {'stratum': case['stratum'], 'construct': case['construct'], **rendering, 'reference': ref_text}
    c.fp = fp_of('read', rendering['file'], rendering['input'], rendering['data_options'])
    c.hit('stratum:' + case['stratum'].split(':')[0])
    if case['stratum'] != 'A':
        c.hit('construct:' + case['stratum'])
    if ref[0] == 'nj':
        c.hit('not_judged:' + ref[1])
        return c
    # feature census (evidence) and non-triviality
    data_rows = [r for r in case['rows'] if r['kind'] == 'data']
    feats = set()
    for form, n in case['forms'].items():
        c.hit('form:' + form, n)
        if form in ('dot_null', 'empty_null'):
            feats.add('null')
        if form in ('exp_D', 'exp_short', 'lone_sign', 'len24', 'exp_E'):
            feats.add('fortran')
    seps = [s for r in data_rows for s in r['seps']]
    kinds = {('c' if ',' in s else 't' if '\t' in s else 's') for s in seps}
    if len(kinds) > 1 or any(len(s) > 1 for s in seps) or any(r['lead'] or r['trail'] for r in data_rows):
        feats.add('separators')
    c.hit('rows_with_leading_blanks', sum(1 for r in data_rows if r['lead']))
    c.hit('rows_with_trailing_blanks', sum(1 for r in data_rows if r['trail']))
    for s in seps:
        c.hit('sep:' + ('comma' if ',' in s else 'tab' if '\t' in s else 'space') + ('+blanks' if len(s.strip(' ')) != len(s) and s.strip(' ') else ''))
    if any(col['drop'] for col in case['cols']):
        feats.add('drop')
        c.hit('dropped_columns', sum(1 for col in case['cols'] if col['drop']))
    if any(col['kind'] == 'synonym' for col in case['cols']):
        feats.add('synonym')
        c.hit('synonym_columns')
    if case['filters']:
        feats.add('filter')
        if any(f.get('order_critical') for f in case['filters']):
            c.hit('filter_order_critical')
        for f in case['filters']:
            c.hit('filter_op:' + f['op'])
            if case['cols'][f['col']]['drop']:
                c.hit('filter_on_dropped_column')
        c.hit('filter_kind:' + case['filter_kind'])
    if any(r['kind'] in ('comment', 'header') for r in case['rows']):
        feats.add('comment')
        c.hit('comment_or_header_lines', sum(1 for r in case['rows'] if r['kind'] in ('comment', 'header')))
    if any(len(r['items']) < case['W'] for r in data_rows):
        feats.add('padding')
        c.hit('padding_rows', sum(1 for r in data_rows if len(r['items']) < case['W']))
    if case['null_char'] is not None:
        c.hit('null_option')
    c.hit('ignore_char:' + ('default' if case['ignore_char'] is None else '@' if case['ignore_char'] == '@' else 'c'))
    if ref[0] == 'error':
        feats.add('error')
    c.nontrivial = len(data_rows) >= 2 and len(feats) >= 2

    if problems:
        key = attribute(c, case, ref, outcomes, sub, str(idx))
        for msg, detail in problems:
            if key == 'C13/surplus-columns-keyerror' and "KeyError" not in msg:
                k = None
            else:
                k = key
            c.violate(k, msg, {'case': rendering, 'stratum': case['stratum'], 'construct': case['construct'],
                               'reference': 'ERROR: ' + ref[1] if ref[0] == 'error' else ref[1]['rows'],
                               'extra': detail})
    return c


def _cycle(c, base, names, data, how, tag, count):
    """One write/read cycle; returns None or (msg, extra detail)."""
    import pandas as pd
    from pharmpy.modeling import read_model, set_dataset, write_csv, write_model

    df = pd.DataFrame(data, columns=names)
    nrows = len(df)
    d = _scratch()
    modp = d / f"c13rt_{tag}.mod"
    csvp = d / f"c13rt_{tag}.csv"
    csv2 = d / f"c13rt_{tag}_data.csv"
    try:
        try:
            model = set_dataset(base, df, datatype='nonmem')
            if how == 'write_model':
                written = write_model(model, modp)
            else:
                m2 = write_csv(model, path=csv2)
                written = write_model(m2, modp)
            code = modp.read_text()
            back = read_model(modp)
            got = back.dataset
        except CaseTimeout:
            raise
        except Exception as e:
            return (f"write/read cycle raised {type(e).__name__}: {str(e)[:200]}", None)
        if count:
            c.hit('roundtrip_' + how)
        extra = {'generated_code': code[:600]}
        if got is None:
            return ("re-read model has no dataset", extra)
        if [str(x) for x in got.columns] != names:
            return (f"columns after write/read {list(got.columns)} != {names}", extra)
        if len(got) != nrows:
            return (f"{len(got)} rows after write/read, the model's dataset has {nrows}", extra)
        md = written.dataset
        for n in names:
            gcol = got[n].tolist()
            mcol = md[n].tolist()
            for i in range(nrows):
                if count:
                    c.hit('roundtrip_cells')
                if not same(mcol[i], data[n][i]):
                    return (f"the written model's dataset changed: {n}[{i}] = {mcol[i]!r}, set {data[n][i]!r}", extra)
                if not same(gcol[i], data[n][i]):
                    return (f"write/read changed {n}[{i}]: wrote {data[n][i]!r}, read {gcol[i]!r}", extra)
                if count and data[n][i] == 0 and isinstance(data[n][i], float) and isinstance(gcol[i], float) \
                        and math.copysign(1, data[n][i]) != math.copysign(1, gcol[i]):
                    c.hit('zero_sign_changed_not_judged')
        return None
    finally:
        for p in (modp, csvp, csv2):
            try:
                p.unlink()
            except OSError:
                pass


def run_filter_transform(rng, idx):
    """A model READ from files with IGNORE=(..)/ACCEPT=(..) filters whose (already filtered) dataset is then transformed so
    that rows which passed the filters would now match them (hours -> minutes under IGNORE=(TIME.GT.48)).  The dataset
    pharmpy writes for the model - through write_model alone or through an explicit write_csv first - read back through the
    generated code must be the model's dataset: the old filters must not be applied a second time."""
    import pandas as pd
    from pharmpy.modeling import read_model, write_csv, write_model

    c = Case()
    d = _scratch()
    tag = f"ft{idx}"
    n_id = rng.randint(2, 4)
    rows = []
    for i in range(1, n_id + 1):
        for k in range(rng.randint(2, 5)):
            rows.append((i, round(k * rng.choice([2.0, 6.0, 12.0]) + rng.random(), 2), round(rng.uniform(1, 40), 2), round(rng.uniform(40, 90), 1)))
    col = rng.choice(["TIME", "DV", "WGT"])
    vals = sorted(r[["ID", "TIME", "DV", "WGT"].index(col)] for r in rows)
    thr = vals[len(vals) * 2 // 3]
    op, keep = rng.choice([("IGNORE", "GT"), ("ACCEPT", "LE"), ("IGNORE", "GE")])
    filt = f"{op}=({col}.{keep}.{thr})"
    how = rng.choice(["write_model", "write_csv", "write_csv"])
    factor = rng.choice([60.0, 10.0, 3.5])
    c.sample = {"kind": "write/read after transformation", "filter": filt, "column": col, "factor": factor, "how": how, "rows": len(rows)}
    c.fp = fp_of("ft", rows, filt, how, factor)
    datap, modp, outp, csv2 = d / f"c13_{tag}.csv", d / f"c13_{tag}.mod", d / f"c13_{tag}_out.mod", d / f"c13_{tag}_explicit.csv"
    try:
        datap.write_text("ID,TIME,DV,WGT\n" + "".join(",".join(str(v) for v in r) + "\n" for r in rows))
        modp.write_text(G.render_control_stream("$INPUT ID TIME DV WGT", datap.name, ["IGNORE=@", filt]))
        try:
            model = read_model(modp)
            df = model.dataset
            if df is None or len(df) == 0 or len(df) == len(rows):
                c.skipped = "filter-selects-nothing-or-everything"
                return c
            df2 = df.copy()
            df2[col] = df2[col] * factor
            m2 = model.replace(dataset=df2)
            if how == "write_csv":
                m2 = write_csv(m2, path=csv2)
            write_model(m2, outp, force=True)
            back = read_model(outp).dataset
        except CaseTimeout:
            raise
        except Exception as e:
            c.violate(None, f"write/read cycle after a dataset transformation raised {type(e).__name__}: {str(e)[:160]}", dict(c.sample))
            return c
        c.hit("roundtrip_after_transformation")
        c.nontrivial = True
        if back is None or len(back) != len(df2):
            c.violate(None, f"{len(df2)} records in the model's dataset, {0 if back is None else len(back)} read back through the "
                            f"generated code ({how}; the model was read with {filt} and {col} was multiplied by {factor})",
                      dict(c.sample, code=outp.read_text()[:500]))
            return c
        for n in df2.columns:
            if not all(same(float(a), float(b)) for a, b in zip(df2[n].tolist(), back[n].tolist())):
                c.violate(None, f"column {n} differs after write/read ({how})", dict(c.sample))
                return c
    finally:
        for p_ in (datap, modp, outp, csv2, outp.with_suffix(".csv"), d / f"c13_{tag}_out.csv"):
            try:
                p_.unlink()
            except OSError:
                pass
    return c


PK_STREAM = """$PROBLEM individuals without observations
$INPUT {input}
$DATA {data} IGNORE=@
$SUBROUTINE ADVAN1 TRANS2
$PK
CL = THETA(1)*EXP(ETA(1))
V = THETA(2)
S1 = V
$ERROR
Y = F + EPS(1)
$THETA (0,1) (0,10)
$OMEGA 0.1
$SIGMA 0.1
$ESTIMATION METHOD=1 INTER
"""


def run_pk_observations(rng, idx):
    """Dataset of a $PK model: pharmpy removes the individuals that have no observation record (as its own tests of
    read_model describe it).  Which records are observations is decided by the MDV item when there is one, otherwise by
    EVID, otherwise by AMT = 0 - an individual whose samples all carry MDV = 1 has no observation."""
    from pharmpy.modeling import read_model

    c = Case()
    d = _scratch()
    tag = f"pk{idx}"
    has_evid = rng.random() < 0.6
    has_mdv = rng.random() < 0.6
    cols = ["ID", "TIME", "AMT", "DV"] + (["EVID"] if has_evid else []) + (["MDV"] if has_mdv else [])
    rows, expect_ids = [], []
    ids = rng.sample(range(1, 30), rng.randint(2, 5))
    for i in ids:
        kind = rng.choice(["normal", "normal", "dose-only", "all-missing", "other-events"])
        recs = [dict(ID=i, TIME=0.0, AMT=100.0, DV=0.0, EVID=1, MDV=1)]
        for k in range(1, rng.randint(2, 4)):
            if kind == "normal":
                missing = rng.random() < 0.3 and k > 1
                recs.append(dict(ID=i, TIME=float(k), AMT=0.0, DV=0.0 if missing else round(rng.uniform(1, 9), 2), EVID=0, MDV=1 if missing else 0))
            elif kind == "all-missing":
                recs.append(dict(ID=i, TIME=float(k), AMT=0.0, DV=0.0, EVID=0, MDV=1))
            elif kind == "other-events":
                recs.append(dict(ID=i, TIME=float(k), AMT=0.0, DV=0.0, EVID=2, MDV=1))
            else:
                recs.append(dict(ID=i, TIME=float(k) * 12, AMT=50.0, DV=0.0, EVID=1, MDV=1))
        if kind == "normal" and all(r["MDV"] == 1 for r in recs):
            recs.append(dict(ID=i, TIME=9.0, AMT=0.0, DV=3.5, EVID=0, MDV=0))
        rows += recs

    def is_obs(r):
        if has_mdv:
            return r["MDV"] == 0
        if has_evid:
            return r["EVID"] == 0
        return r["AMT"] == 0

    keep_ids = [i for i in ids if any(is_obs(r) for r in rows if r["ID"] == i)]
    expected = [r for r in rows if r["ID"] in keep_ids]
    c.sample = {"kind": "individuals without observations", "columns": cols, "ids": ids, "kept": keep_ids,
                "rows": [[r[k] for k in cols] for r in rows]}
    c.fp = fp_of("pkobs", cols, c.sample["rows"])
    if not keep_ids:
        c.skipped = "no-individual-with-observations"
        return c
    datap, modp = d / f"c13_{tag}.csv", d / f"c13_{tag}.mod"
    try:
        datap.write_text(",".join(cols) + "\n" + "".join(",".join(str(r[k]) for k in cols) + "\n" for r in rows))
        modp.write_text(PK_STREAM.format(input=" ".join(cols), data=datap.name))
        try:
            df = read_model(modp).dataset
        except CaseTimeout:
            raise
        except Exception as e:
            c.violate(None, f"reading the dataset of a $PK model raised {type(e).__name__}: {str(e)[:160]}", dict(c.sample))
            return c
        c.hit("pk_observation_filter")
        c.nontrivial = len(keep_ids) < len(ids)
        got_ids = [int(v) for v in df["ID"].tolist()]
        if got_ids != [r["ID"] for r in expected]:
            c.violate(None, f"individuals {sorted(set(got_ids))} read ({len(got_ids)} records); individuals with an observation record "
                            f"({'MDV = 0' if has_mdv else 'EVID = 0' if has_evid else 'AMT = 0'}): {keep_ids} ({len(expected)} records)",
                      dict(c.sample))
            return c
        for k in cols:
            if not all(same(float(a), float(r[k])) for a, r in zip(df[k].tolist(), expected)):
                c.violate(None, f"column {k} differs from the file", dict(c.sample))
                return c
    finally:
        for p_ in (datap, modp):
            try:
                p_.unlink()
            except OSError:
                pass
    return c


def run_roundtrip(rng, idx):
    x = rng.random()
    if x < 0.25:
        return run_filter_transform(rng, idx)
    if x < 0.45:
        return run_pk_observations(rng, idx)
    c = Case()
    r = rng.random()
    if r < 0.25:
        stratum = 'A:pheno'
    elif r < 0.45:
        stratum = 'A:minimal'
    elif r < 0.80:
        stratum = 'A:options'
    elif r < 0.90:
        stratum = 'B:update-input-keeps-drop'
    else:
        stratum = 'B:update-input-multiple-records'
    pk = stratum == 'A:pheno'
    names, data, classes = G.gen_frame(rng, pk)
    how = rng.choice(['write_model', 'write_csv'])
    if pk:
        variant = 0
        bases = (_STATE['pheno'],)
        base_text = 'pheno'
    else:
        variant = rng.randrange(len(_STATE[stratum]))
        bases = _STATE[stratum][variant]
        base_text = RT_BASES[stratum][variant][0][0] + ' / $DATA ' + ' '.join(RT_BASES[stratum][variant][1])
    c.sample = {'kind': 'write/read', 'stratum': stratum, 'base_model': base_text, 'how': how,
                'columns': names, 'data': {k: [repr(v) for v in vs] for k, vs in data.items()}}
    c.fp = fp_of('rt', names, [[repr(v) for v in data[n]] for n in names], stratum, variant, how)
    c.nontrivial = len(data[names[0]]) >= 2 and len(classes) >= 2
    c.hit('roundtrip_base:' + stratum)
    for cl, n in classes.items():
        c.hit('value:' + cl, n)
    problem = _cycle(c, bases[0], names, data, how, str(idx), True)
    if problem is not None:
        key = None
        if stratum in RT_KEYS and len(bases) > 1:
            c.hit('delta_checks')
            if _cycle(c, bases[1], names, data, how, str(idx) + 'r', False) is None:
                key = RT_KEYS[stratum]
        detail = dict(c.sample)
        detail['extra'] = problem[1]
        c.violate(key, problem[0], detail)
    return c
