"""C11 Random-effect algebra keeps names, variances and a valid covariance.

Three kinds of cases (idx % 12): 0-4 operation sequences on RandomVariables judged against a plain reference model
(vp.gen.rvs), 5-9 numeric matrices (nearest PSD, cov/corr/precision conversions) judged with numpy, 10-11
collections with parameter values (validate / nearest_valid / sdcorr / Model.create+replace / ucp scale).
"""
from __future__ import annotations

from vp.farm import Case, fp_of

PROP = "C11"
LEVEL = "exploration"
RULE = (
    "seq: random collections of 1-6 normal / joint-normal variables (random block partition, IIV/IOV/RUV, symbolic, "
    "numeric and mixed entries, structural zeros, shared variance symbols) followed by 1-6 operations drawn from "
    "join(fill, name_template, param_names) / unjoin / __getitem__(list, tuple, set, symbols, slice, int, str) / "
    "distribution __getitem__ / subs / + and radd / replace / etas-epsilons-iiv-iov; distinct by the printed "
    "collection and op list, non-trivial if >=3 variables, a joint block and >=2 state changing ops. "
    "mat: symmetric matrices n=2..6 of families PD, integer PD, PSD with exact zero eigenvalue, slightly indefinite, "
    "strongly indefinite (incl. negative definite, hollow, |corr|>1), 15% with skew noise of relative size "
    "1e-16..1e-14; distinct by entries, "
    "non-trivial if not PD. par: symbolic collections with value dicts whose blocks are valid / invalid / "
    "borderline; non-trivial if a joint block exists. 80-84% of the seq/par cases avoid every construct with a "
    "listed finding, the rest contain exactly one (variable taken out from behind the rest of its block, zero "
    "variance joined with fill, numeric entry or repeated symbol in an invalid block)."
)
ASSUMPTIONS = [
    "order: names outside the operated set keep their relative order; if every block of the new partition is "
    "already contiguous in the old order, the order may not change at all ('only as far as needed')",
    "join: previous non-zero covariances kept, zero/new ones become fill or a name_template symbol; fill != 0 is "
    "never combined with name_template and join gets str names only (precedence / symbol indices are not part of "
    "the property); naming of template symbols is judged only when inds are given in collection order",
    "operands of + have fresh names and subs never renames onto an existing name (uniqueness of names is C06); "
    "clearly non-symmetric matrices are not generated (the property quantifies over symmetric A)",
    "nearest PSD = eigenvalue clipping of the symmetric part (Higham 1988, as the docstring cites); tolerance "
    "1e-8*||A||_F because the port adds multiples of eps*||A|| in its final loop; PSD means symmetric within "
    "1e-10*||A|| and min eig >= -1e-10*||A||; |min eig| < 1e-8*||A|| is borderline (only PSD-ness judged)",
    "ucp: the start vector is 0.1 for every parameter except -0.1 where the Cholesky factor element of the initial "
    "matrix is negative (the scale stores absolute values, as NONMEM prints -0.1 for such elements); blocks must be "
    "fully symbolic and positive definite; bounds strictly enclose the initial estimate",
    "joins across variability levels, structural zeros inside blocks for sdcorr/ucp, variance_parameters with "
    "numeric variances and models without etas or epsilons for ucp are not defined by the docs: counted, not judged",
]
MIN_NONTRIVIAL = {"quick": 4000, "thorough": 80000}
REQUIRED_MONITORS = [
    "names_multiset", "partition_contiguity", "order_exact", "order_untouched_relative", "order_no_change_needed",
    "level_mean", "variance", "covariance", "covariance_matrix", "get_covariance", "variance_parameters",
    "op:join", "op:unjoin", "op:getitem_list", "op:getitem_slice", "op:read", "op:dist_getitem", "op:subs",
    "op:add", "op:replace", "op:views", "join_fill", "join_template",
    "nearest_psd_is_psd", "nearest_psd_unchanged", "nearest_psd_projection", "cov2corr_roundtrip",
    "modeling_math_inverse", "validate_parameters", "nearest_valid_psd", "nearest_valid_unaltered",
    "nearest_valid_projection", "nearest_then_validate", "sdcorr_definition", "sdcorr_roundtrip",
    "model_create_inits", "model_create_projection", "model_create_unaltered", "model_replace_inits",
    "ucp_roundtrip", "ucp_roundtrip_all_0.1", "ucp_roundtrip_signed",
]



def n_cases(tier):
    return 12000 if tier == "quick" else 240000


def setup(tier):
    import pharmpy.model  # noqa
    import pharmpy.modeling  # noqa
    import vp.gen.rvs_ops  # noqa
    import vp.gen.rvs_par  # noqa


def kind_of(idx):
    k = idx % 12
    return "seq" if k < 5 else ("mat" if k < 10 else "par")


def run_case(rng, idx, tier):
    c = Case()
    kind = kind_of(idx)
    if kind == "seq":
        run_seq(c, rng)
    elif kind == "mat":
        run_mat(c, rng)
    else:
        from vp.gen.rvs_par import run_par

        run_par(c, rng)
    return c


# ------------------------------------------------------------------------------------------- seq
def run_seq(c, rng):
    import sympy

    from vp.gen import rvs as R
    from vp.gen import rvs_ops as O

    stratum = "A" if rng.random() < 0.80 else rng.choice(O.SPECIALS)
    ref = R.gen_collection(rng)
    if stratum == "zero-variance":
        singles = [b[0] for b in ref.blocks if len(b) == 1]
        if not singles:  # add a single variable of a level that is present
            lvl = ref.level[ref.names()[0]]
            nm = [n for n in (R.EPS_NAMES if lvl == "RUV" else R.ETA_NAMES) if n not in ref.level][0]
            ref.blocks.insert(rng.randrange(len(ref.blocks) + 1), [nm])
            ref.level[nm], ref.mean[nm] = lvl, R.ZERO
            singles = [nm]
        z = rng.choice(singles)
        ref.cov.pop((z, z), None)
    use_create = rng.random() < 0.08
    ops_log = []
    c.sample = {"kind": "seq", "stratum": stratum, "create": use_create, "collection": ref.render(),
                "ops": ops_log}
    n0 = len(ref.names())
    had_joint = any(len(b) >= 2 for b in ref.blocks)
    try:
        rvs = R.build_rvs(ref, use_create)
    except ValueError as e:
        c.refusal = "ValueError:create"  # sympy decided a mixed matrix is not PSD
        c.sample["refusal"] = str(e)
        c.fp = fp_of("seq", c.sample["collection"])
        return
    try:
        R.compare(c, rvs, ref, expected_order=ref.names())
    except R.Mismatch as m:
        c.violate(None, f"after construction: {m.msg}", c.sample)
        return
    nops = rng.randint(1, 6)
    special_at = rng.randrange(nops) if stratum != "A" else None
    changed = O.run_ops(c, rng, ref, rvs, ops_log, nops, stratum if stratum != "A" else None, special_at)
    c.fp = fp_of("seq", c.sample["collection"], ops_log)
    c.nontrivial = n0 >= 3 and changed >= 2 and (had_joint or any(o["op"] == "join" for o in ops_log))


# ------------------------------------------------------------------------------------------- mat
def run_mat(c, rng):
    import numpy as np
    import pandas as pd
    from pharmpy.internals.math import cov2corr, corr2cov, nearest_positive_semidefinite

    from vp.gen import psd as P

    n = rng.choice([2, 2, 3, 3, 4, 4, 5, 6])
    family = rng.choices(["pd", "pd_int", "psd0", "slight", "strong"], [15, 5, 15, 25, 40])[0]
    S = P.gen_matrix(rng, family, n)
    r = rng.random()
    # the property quantifies over symmetric matrices: exactly symmetric, or skew noise at rounding level
    noise = "none" if r < 0.85 else "roundoff"
    A = S.copy()
    if noise != "none":
        K = P.skew(rng, n)
        nrm = np.linalg.norm(S) or 1.0
        A = S + K / (np.linalg.norm(K) or 1.0) * nrm * 10 ** rng.uniform(-16, -14)
    c.sample = {"kind": "mat", "family": family, "noise": noise, "n": n, "A": [[repr(float(x)) for x in row]
                                                                                   for row in A]}
    c.fp = fp_of("mat", A.tolist())
    c.nontrivial = family not in ("pd", "pd_int") or noise != "none"
    A_in = A.copy()
    try:
        B = nearest_positive_semidefinite(A_in)
    except Exception as e:
        c.violate(None, f"nearest_positive_semidefinite raised {type(e).__name__}: {e}", c.sample)
        B = None
    if B is not None:
        probs = P.judge_nearest(c, A, B, noise)
        if probs:
            fact, msg = probs[0]
            c.violate(None, f"nearest_positive_semidefinite ({family}, n={n}, noise={noise}): {msg}",
                      {"sample": c.sample, "result": np.asarray(B).tolist()})

    # ---- conversions on a well conditioned covariance matrix of the same size
    C = P.well_conditioned_pd(rng, n)
    if rng.random() < 0.3:
        C[0, n - 1] = C[n - 1, 0] = 0.0  # exact zero covariance
        if np.linalg.eigvalsh(C).min() < 1e-3 * np.linalg.norm(C):
            C = C + np.eye(n) * np.linalg.norm(C)
    sd = np.sqrt(np.diag(C))
    want_corr = C / np.outer(sd, sd)

    def close(a, b, what):
        a = np.asarray(a, dtype=float)
        b = np.asarray(b, dtype=float)
        if a.shape != b.shape or not np.allclose(a, b, rtol=1e-9, atol=1e-9 * np.abs(b).max()):
            c.violate(None, f"{what}: got {a.tolist()}, expected {b.tolist()}", {"C": C.tolist()})
            return False
        return True

    c.hit("cov2corr_roundtrip")
    corr = cov2corr(C.copy())
    ok = close(corr, want_corr, "cov2corr(C) vs C/(sd sd^T)")
    ok = ok and close(corr2cov(corr, sd), C, "corr2cov(cov2corr(C), sd)")
    Rm = want_corr.copy()
    sd2 = np.array([10 ** rng.uniform(-3, 3) for _ in range(n)])
    ok = ok and close(cov2corr(corr2cov(Rm, sd2)), Rm, "cov2corr(corr2cov(R, sd))")
    if not ok:
        return
    from pharmpy.modeling import (calculate_corr_from_cov, calculate_corr_from_prec, calculate_cov_from_corrse,
                                  calculate_cov_from_prec, calculate_prec_from_corrse, calculate_prec_from_cov,
                                  calculate_se_from_cov, calculate_se_from_prec)

    labels = rng.sample(P.LABELS, n)
    cov = pd.DataFrame(C, index=labels, columns=labels)
    c.hit("modeling_math_inverse")
    prec_np = np.linalg.inv(C)
    se = calculate_se_from_cov(cov)
    cr = calculate_corr_from_cov(cov)
    pm = calculate_prec_from_cov(cov)
    steps = [
        (se, sd, "calculate_se_from_cov"),
        (cr, want_corr, "calculate_corr_from_cov"),
        (pm, prec_np, "calculate_prec_from_cov"),
        (calculate_cov_from_corrse(cr, se), C, "calculate_cov_from_corrse(corr_from_cov, se_from_cov)"),
        (calculate_cov_from_prec(pm), C, "calculate_cov_from_prec(prec_from_cov)"),
        (calculate_se_from_prec(pm), sd, "calculate_se_from_prec(prec_from_cov)"),
        (calculate_corr_from_prec(pm), want_corr, "calculate_corr_from_prec(prec_from_cov)"),
        (calculate_prec_from_corrse(cr, se), prec_np, "calculate_prec_from_corrse(corr, se)"),
        (calculate_prec_from_cov(calculate_cov_from_prec(pm)), prec_np, "prec_from_cov(cov_from_prec(P))"),
    ]
    for got, want, what in steps:
        if list(got.index) != labels or (hasattr(got, "columns") and list(got.columns) != labels):
            c.violate(None, f"{what}: labels {list(got.index)} != {labels}", None)
            return
        if not close(got.values, want, what):
            return


def extra_coverage(recs, tier):
    from collections import Counter

    kinds = Counter()
    for r in recs:
        s = r.get("sample")
        if isinstance(s, dict):
            kinds[f"{s.get('kind')}:{s.get('stratum', s.get('noise'))}"] += 1
    return {"cases_by_kind_and_stratum": dict(sorted(kinds.items()))}
