"""C18 Search spaces are parsed, combined and enumerated exactly.

Reference: vp.gen.mfl - an independent recursive-descent MFL reader that expands a text to explicit per-category
option sets, an enumerator of the stepwise paths that docs/modelsearch.rst allows, and plain enumerations of set
partitions / subsets.  pharmpy's ModelFeatures objects are *observed* by attribute access only.

Families of cases (drawn from the case index, see family_of; the first cases are the docs examples):
  single   text -> parse vs reference (L0), repr round trip (L1), reflexive ==, convert_to_funcs keys,
           all_combinations = cartesian product, refusal of ungrammatical mutations
  pair     related pairs: + (L2), - (L3), == and its symmetry (L4), contain_subset (L5), round trip of results
  lnt      single-model description vs space: least_number_of_transformations (L6)
  enum     modelsearch exhaustive / exhaustive_stepwise / reduced_stepwise task graphs (construction only)
  iiv      partitions / non_empty_subsets exhaustively for n <= 6; iivsearch brute force candidate lists
  expand   automatic symbols (@IIV ...) expanded against a model with known parameters / covariates
  docs     the literal examples of docs/mfl.rst and their documented equivalences
"""
from __future__ import annotations

import itertools
import random
from collections import Counter

from vp.farm import Case, fp_of
from vp.gen import mfl

PROP = "C18"
LEVEL = "exploration"
RULE = (
    "search spaces are generated as explicit option sets over all MFL categories (absorption, elimination, "
    "lagtime, transits x depot, peripherals x kind, covariate effects incl. optional/+/LET/@refs, direct / "
    "effect-compartment / indirect effect, metabolite, allometry) and rendered in a random one of the equivalent "
    "spellings (lists, ranges, wildcards, repeated statements, case, blanks, ';' or newline); pairs are derived "
    "(same / subset / superset / perturbed / independent); enumeration cases are PK spaces filtered by a base "
    "model as the tool does. A case is distinct by family + text(s) + operation; non-trivial if the text has >= 2 "
    "statements or a list/range/wildcard (single, pair), >= 2 features (enum), n >= 2 etas (iiv)"
)
ASSUMPTIONS = [
    "S(x): omitted TRANSITS depot = DEPOT, omitted PERIPHERALS kind = DRUG, omitted covariate operator = '*', "
    "'*' as covariate effect = LIN, PIECE_LIN, EXP, POW (grammar.py comment), names are case-insensitive",
    "an MFL category the text does not mention is its documented default (docs/modelsearch.rst) when the text is "
    "about a PK model, and may be absent or the default otherwise; a - b is only judged where S(a)\\S(b) is "
    "non-empty (else the category must be absent or the documented default)",
    "covariate algebra is not judged when the same (parameter, covariate, effect, operator) occurs with different "
    "optional flags in the two operands (docs are silent); contain_subset / least_number_of_transformations are "
    "judged on PK categories with DRUG peripherals only",
    "stepwise rules: one feature per category, peripherals from the smallest count upwards one count at a time, "
    "the six excluded pairs of docs/modelsearch.rst; mfl_funcs are prepared as modelsearch.tool does (base model "
    "features removed, sorted by name and first argument); MET peripherals and fixed etas are not generated",
    "networkx graph of the Workflow is read directly; the workflow classes are trusted here (C17)",
]
MIN_NONTRIVIAL = {"quick": 1500, "thorough": 12000}
REQUIRED_MONITORS = [
    "L0_parse_vs_reference", "L1_roundtrip_space", "L1_roundtrip_eq", "L2_add", "L3_sub", "L4_eq", "L4_eq_symmetry",
    "L5_contain_subset", "L6_lnt", "funcs_keys", "all_combinations", "exhaustive", "exhaustive_stepwise",
    "reduced_stepwise", "candidate_names_unique", "partitions", "non_empty_subsets", "iiv_no_of_etas",
    "iiv_block_structure", "expand_refs", "docs_examples", "invalid_refused",
]

K_WILD_EQ = "C18/wildcard-eq-typeerror"
K_KIND_WILD = "C18/peripherals-kind-wildcard-typeerror"
K_EQ_STRUCT = "C18/mfl-eq-statement-structure"
K_EQ_ASYM = "C18/mfl-eq-asymmetric"
K_EQ_METAB = "C18/mfl-eq-ignores-metabolite-allometry"
K_SUB_NONE = "C18/sub-empty-category-none-modes"
K_CONTAIN_TRANSITS = "C18/contain-subset-transits-not-pairwise"
K_ALLO_REF = "C18/allometry-optional-ref-indexerror"
K_ALLO_LOST = "C18/allometry-lost-in-repr-and-algebra"
K_DOCS_RANGE = "C18/docs-example-range-in-list-unparseable"
K_STEP_EXCL = "C18/undocumented-stepwise-exclusions"
K_PERIPH_SKIP = "C18/stepwise-peripherals-skip-order"
K_SINGLE_GROUP = "C18/reduced-stepwise-single-group-not-merged"
K_SET_ORDER = "C18/exhaustive-func-set-order"
K_LNT_INDIRECT = "C18/lnt-indirect-effect-keyerror"

FAMILIES = ["single"] * 16 + ["pair"] * 14 + ["lnt"] * 2 + ["enum"] * 5 + ["iiv"] + ["expand"] * 2

_MODELS = {}


def n_cases(tier):
    return 6000 if tier == "quick" else 60000


def setup(tier):
    import pharmpy.modeling as pm
    import pharmpy.tools.iivsearch.algorithms  # noqa
    import pharmpy.tools.modelsearch.algorithms  # noqa
    from pharmpy.model import ColumnInfo, DataInfo
    from pharmpy.tools.mfl.parse import parse  # noqa

    m = pm.create_basic_pk_model("oral")
    m = pm.set_peripheral_compartments(m, 1)
    m = pm.add_lag_time(m)
    m = pm.add_pk_iiv(m)
    m = pm.split_joint_distribution(m)
    assert list(m.random_variables.iiv.names) == IIV_ETAS, m.random_variables.iiv.names
    _MODELS["iiv6"] = m
    cols = [ColumnInfo.create("ID", type="id"), ColumnInfo.create("TIME", type="idv"),
            ColumnInfo.create("AMT", type="dose"), ColumnInfo.create("DV", type="dv"),
            ColumnInfo.create("WGT", type="covariate", continuous=True),
            ColumnInfo.create("AGE", type="covariate", continuous=True),
            ColumnInfo.create("SEX", type="covariate", continuous=False)]
    _MODELS["cov"] = m.replace(datainfo=DataInfo.create(cols))
    parse("ABSORPTION(FO)", mfl_class=True)  # warm the lark cache


IIV_ETAS = ["ETA_CL", "ETA_VC", "ETA_MAT", "ETA_MDT", "ETA_QP1", "ETA_VP1"]
ETA_PARAM = {"ETA_CL": "CL", "ETA_VC": "VC", "ETA_MAT": "MAT", "ETA_MDT": "MDT", "ETA_QP1": "QP1", "ETA_VP1": "VP1"}
# what the automatic symbols mean for the model built in setup() (read off its construction)
REF_MEANING = {
    "IIV": ("CL", "VC", "MAT", "MDT", "QP1", "VP1"),
    "PK_IIV": ("CL", "VC", "MAT", "MDT", "QP1", "VP1"),
    "ELIMINATION": ("CL",),
    "DISTRIBUTION": ("VC", "QP1", "VP1"),
    "CONTINUOUS": ("WGT", "AGE"),
    "CATEGORICAL": ("SEX",),
}


def P(text):
    """pharmpy's parser; a text is parsed once per case (the laws are evaluated on the same objects)."""
    from pharmpy.tools.mfl.parse import parse

    if text not in _PARSED:
        _PARSED[text] = parse(text, mfl_class=True)
    return _PARSED[text]


def family_of(idx):
    # drawn from the index alone (same for every seed) but not periodic, so that the worker striding of the farm
    # does not send all cases of an expensive family to the same few workers
    return FAMILIES[random.Random(f"C18-family:{idx}").randrange(len(FAMILIES))]


_PARSED = {}


def run_case(rng, idx, tier):
    _PARSED.clear()
    if idx < len(DOC_CASES):
        return case_docs(rng, idx)
    return globals()["case_" + family_of(idx)](rng, idx, tier)


# ------------------------------------------------------------------------------------------ helpers
def srt(x):
    return sorted(x, key=repr)


def show(S):
    return {c: srt(v) for c, v in S.items() if v}


def nontrivial_text(info, text):
    return info["n_statements"] >= 2 or any(ch in text for ch in "[*") or ".." in text


def ref_parse(text):
    """reference expansion; harness self-check happens in the callers that know the generating S."""
    S, info = mfl.expand(text)
    return S, info


def parse_and_observe(c, text, key_if=None):
    """pharmpy parse + observation.  Returns (mf, O) or None after recording a violation."""
    try:
        mf = P(text)
    except Exception as e:
        c.violate(key_if, f"parse raised {type(e).__name__}: {str(e)[:200]}", {"text": text})
        return None
    try:
        return mf, mfl.observe(mf)
    except mfl.Malformed as e:
        c.violate(None, f"parsed object is malformed: {e}", {"text": text})
        return None


def l0_compare(Sref, O):
    """Explicit categories must match exactly; a PK category that the text does not give must be absent or the
    documented default (it must be the default when the text is about a PK model)."""
    out = {}
    pk = mfl.has_pk(Sref)
    for cat in mfl.ALL_CATS:
        r, o = Sref[cat], O[cat]
        if r is None:
            if cat in mfl.DEFAULTS:
                ok = (o == mfl.DEFAULTS[cat]) if pk else (o is None or o == mfl.DEFAULTS[cat])
            else:
                ok = not o
            if not ok:
                out[cat] = ("not given", srt(o or ()))
        elif (o or frozenset()) != r:
            out[cat] = (srt(r), srt(o or ()))
    return out


# ------------------------------------------------------------------------------------------ family: single
def single_laws(c, text, Sref, info, want=("L0", "L1", "funcs", "combos")):
    """Evaluates the single-text laws; returns list of (law, msg) problems (not yet recorded)."""
    from pharmpy.tools.mfl.helpers import all_combinations

    problems = []
    try:
        mf = P(text)
    except Exception as e:
        return [("L0", f"parse raised {type(e).__name__}: {str(e)[:160]}")]
    try:
        O = mfl.observe(mf)
    except mfl.Malformed as e:
        return [("L0", f"parsed object is malformed: {e}")]
    if "L0" in want:
        c.hit("L0_parse_vs_reference")
        d = l0_compare(Sref, O)
        if d:
            problems.append(("L0", f"parse differs from the reference expansion in {sorted(d)}: {d}"))
    if "L1" in want:
        try:
            r = repr(mf)
            mf2 = P(r)
            O2 = mfl.observe(mf2)
        except Exception as e:
            problems.append(("L1", f"repr / re-parse raised {type(e).__name__}: {str(e)[:160]}"))
        else:
            c.hit("L1_roundtrip_space")
            d = mfl.diff_space(O, O2)
            if d:
                problems.append(("L1", f"parse(repr(x)) denotes another space than x; repr={r!r}; differs in {d}"))
            if info["refs"]:
                try:
                    mf2 == mf
                    problems.append(("L1eq", "== with unresolved @references did not refuse"))
                except ValueError:
                    c.hit("eq_refs_refused")
                except Exception as e:
                    problems.append(("L1eq", f"== with unresolved references raised {type(e).__name__}"))
            else:
                try:
                    e1, e2, e3 = (mf2 == mf), (mf == mf2), (mf == mf)
                    c.hit("L1_roundtrip_eq")
                    if not (e1 and e2 and e3):
                        problems.append(("L1eq", f"parse(repr(x)) == x is {e1}, x == parse(repr(x)) is {e2}, x == x is {e3}; repr={r!r}"))
                except Exception as e:
                    problems.append(("L1eq", f"x == parse(repr(x)) raised {type(e).__name__}: {str(e)[:120]}"))
    if ("funcs" in want or "combos" in want) and not info["refs"] and not info["param_wild"]:
        try:
            funcs = mf.convert_to_funcs()
        except Exception as e:
            problems.append(("funcs", f"convert_to_funcs raised {type(e).__name__}: {str(e)[:160]}"))
            return problems
        K = mfl.feature_keys(O)
        exp = set().union(*K.values()) if K else set()
        c.hit("funcs_keys")
        if set(funcs) != exp:
            problems.append(("funcs", f"convert_to_funcs keys: missing {srt(exp - set(funcs))[:6]}, unexpected {srt(set(funcs) - exp)[:6]}"))
        elif "combos" in want:
            ncomb = 1
            for v in K.values():
                ncomb *= len(v) + 1
            if ncomb - 1 <= 200:
                combos = list(all_combinations(funcs))
                c.hit("all_combinations")
                got = Counter(frozenset(x) for x in combos)
                expc = mfl.cartesian_combinations(K)
                if any(len(set(x)) != len(x) for x in combos):
                    problems.append(("combos", "a combination repeats a feature"))
                if [k for k, v in got.items() if v > 1]:
                    problems.append(("combos", f"duplicate combinations {[srt(k) for k, v in got.items() if v > 1][:3]}"))
                if set(got) != expc:
                    problems.append(("combos", f"all_combinations != cartesian product over categories: {len(got)} vs {len(expc)}; "
                                               f"missing {[srt(x) for x in srt(expc - set(got))[:3]]} extra {[srt(x) for x in srt(set(got) - expc)[:3]]}"))
            else:
                c.hit("not_judged:combos>200")
    return problems


SINGLE_INTENTS = [("A", 80), ("allometry-noref", 4), ("allometry", 6), ("refs", 10)]


def case_single(rng, idx, tier):
    c = Case()
    intent = rng.choices([i for i, _ in SINGLE_INTENTS], [w for _, w in SINGLE_INTENTS])[0]
    profile = rng.choice(["pk", "pk", "pkfull", "pd", "cov", "mix", "mix"])
    o = {"p_metabolite": 0.2, "allometry": intent.startswith("allometry")}
    if intent == "refs":
        profile = rng.choice(["cov", "mix"])
        o["refs"] = (("IIV", "PK_IIV", "ELIMINATION", "ABSORPTION", "PD"), ("CONTINUOUS", "CATEGORICAL"))
    S = mfl.gen_space(rng, profile, o)
    if intent == "allometry-noref":
        S["allometry"] = frozenset({(next(iter(S["allometry"]))[0], 70.0)})  # the default reference value
    cfg = {"canonical": rng.random() < 0.1, "allometry_ref": intent != "allometry-noref"}
    seed = rng.getrandbits(48)
    text = mfl.render(random.Random(seed), S, cfg)
    Sref, info = ref_parse(text)
    assert all((S[k] or None) == (Sref[k] or None) for k in mfl.ALL_CATS), ("generator/reader disagree", text)
    c.sample = {"family": "single", "intent": intent, "text": text}
    c.fp = fp_of("single", text)
    c.nontrivial = nontrivial_text(info, text)
    problems = single_laws(c, text, Sref, info)
    for law, msg in problems:
        key = None
        if law == "L1eq":
            if info["refs"] and info["wild"] & {"absorption", "elimination", "lagtime", "kind"}:
                c.hit("not_judged:several-listed-constructs")
                continue
            if "kind" in info["wild"] and info["wild"] & {"absorption", "elimination", "lagtime"}:
                c.hit("not_judged:several-listed-constructs")
                continue
            key = attribute_wild(S, cfg, seed, lambda t: _l1eq_ok(t), info)
        elif Sref["allometry"]:
            # delta check: the same space without the ALLOMETRY statement / with an explicit reference value
            if intent == "allometry-noref" and law == "L0":
                t2 = mfl.render(random.Random(seed), S, dict(cfg, allometry_ref=True))
                S2, i2 = ref_parse(t2)
                if not any(p[0] == "L0" for p in single_laws(Case(), t2, S2, i2, want=("L0",))):
                    key = K_ALLO_REF
            else:
                S3 = dict(S, allometry=None)
                if any(S3.values()):
                    t3 = mfl.render(random.Random(seed), S3, cfg)
                    S3r, i3 = ref_parse(t3)
                    if not any(p[0] == law for p in single_laws(Case(), t3, S3r, i3, want=(law if law != "L1eq" else "L1", "funcs", "combos"))):
                        key = K_ALLO_LOST
                else:
                    key = K_ALLO_LOST if law in ("L1", "funcs") else None
        c.violate(key, f"[{law}] {msg}", {"text": text})
    # ungrammatical mutation must be refused
    bad = mutate_invalid(rng, text)
    if bad is not None:
        try:
            P(bad)
            c.violate(None, f"[invalid] ungrammatical text was accepted: {bad!r}", {"text": bad})
        except Exception:
            c.hit("invalid_refused")
    return c


def _l1eq_ok(text):
    try:
        mf = P(text)
        mf2 = P(repr(mf))
        return bool(mf2 == mf) and bool(mf == mf2) and bool(mf == mf)
    except Exception:
        return False


def attribute_wild(S, cfg, seed, ok, info):
    """Delta check for the two wildcard mechanisms: spell the same space without the suspicious '*'."""
    if "kind" in info["wild"]:
        t = mfl.render(random.Random(seed), S, dict(cfg, kind_wildcard=False))
        if "kind" not in mfl.expand(t)[1]["wild"] and ok(t):
            return K_KIND_WILD
    if info["wild"] & {"absorption", "elimination", "lagtime", "metabolite"}:
        t = mfl.render(random.Random(seed), S, dict(cfg, wildcard=False))
        if ok(t):
            return K_WILD_EQ
    return None


def mutate_invalid(rng, text):
    try:
        return _mutate_invalid(rng, text)
    except ValueError:
        return None


def _mutate_invalid(rng, text):
    kind = rng.choice(["mode", "keyword", "paren", "none", "none"])
    up = text.upper()
    if kind == "mode":
        import re

        for kw, bad in (("ABSORPTION", "MM"), ("ELIMINATION", "INST"), ("LAGTIME", "FO"), ("DIRECTEFFECT", "ZO"), ("METABOLITE", "ON")):
            m = re.search(r"(^|[;\n] *)" + kw + r" *\(", up)
            i = m.start() if m else -1
            if i >= 0:
                j = text.index(")", i)
                k = text.index("(", i)
                return text[:k + 1] + bad + text[j:]
        return None
    if kind == "keyword":
        import re

        m = re.search(r"(^|[;\n] *)(ABSORPTION|ELIMINATION|TRANSITS|PERIPHERALS|COVARIATE|LAGTIME) *[?(]", up)
        if m:
            i = m.start(2)
            return text[:i] + "X" + text[i:]
        return None
    if kind == "paren":
        i = text.rfind(")")
        return text[:i] + text[i + 1:]
    return None


# ------------------------------------------------------------------------------------------ family: pair
PAIR_INTENTS = [("A", 62), ("wild-eq", 5), ("kind-wild", 5), ("eq-struct", 5), ("eq-asym", 5), ("eq-metab", 5),
                ("sub-none", 5), ("contain-transits", 4), ("allometry", 2), ("refs", 2)]


def struct_of(S, info, cat):
    st = info["struct"][cat]
    if not st and cat == "peripherals" and mfl.has_pk(S):
        return [(frozenset({0}), frozenset({"DRUG"}))]
    return st


def pair_triggers(law, Sa, ia, Sb, ib):
    """Constructs with a listed finding that this operation on this pair touches (reference side only)."""
    t = set()
    wild = ia["wild"] | ib["wild"]
    pk_both = mfl.has_pk(Sa) and mfl.has_pk(Sb)
    if law in ("eq", "sub") and pk_both and wild & {"absorption", "elimination", "lagtime"}:
        t.add("wild-eq")
    if law == "sub" and "metabolite" in wild and Sa["metabolite"] and Sb["metabolite"]:
        t.add("wild-eq")
    if "kind" in wild:
        t.add("kind-wild")
    if law == "eq":
        for cat in ("peripherals", "indirect"):
            if mfl.norm(Sa, cat) == mfl.norm(Sb, cat) and struct_of(Sa, ia, cat) != struct_of(Sb, ib, cat):
                t.add("eq-struct")
        ca, cb = mfl.norm(Sa, "covariate"), mfl.norm(Sb, "covariate")
        if ca != cb and (ca < cb or cb < ca):
            t.add("eq-asym")
        if mfl.norm(Sa, "metabolite") != mfl.norm(Sb, "metabolite") or mfl.norm(Sa, "allometry") != mfl.norm(Sb, "allometry"):
            t.add("eq-metab")
    if law == "sub":
        for cat in ("direct", "effectcomp", "metabolite"):
            if Sa[cat] and Sb[cat] and Sa[cat] < Sb[cat]:
                t.add("sub-none")
    if law in ("add", "sub") and (Sa["allometry"] or (law == "add" and Sb["allometry"])):
        t.add("allometry")
    if law == "contain":
        ta, tb = mfl.norm(Sa, "transits"), mfl.norm(Sb, "transits")
        if not tb <= ta and {n for n, _ in tb} <= {n for n, _ in ta} and {d for _, d in tb} <= {d for _, d in ta}:
            t.add("contain-transits")
    return t


TRIGGER_KEY = {"wild-eq": K_WILD_EQ, "kind-wild": K_KIND_WILD, "eq-struct": K_EQ_STRUCT, "eq-asym": K_EQ_ASYM,
               "eq-metab": K_EQ_METAB, "sub-none": K_SUB_NONE, "contain-transits": K_CONTAIN_TRANSITS,
               "allometry": K_ALLO_LOST}


def delta(trigger, Sa, Sb, cfga, cfgb):
    """The same pair with the suspicious construct removed / spelled in its equivalent plain form."""
    Sa, Sb, cfga, cfgb = dict(Sa), dict(Sb), dict(cfga), dict(cfgb)
    if trigger == "wild-eq":
        cfga["wildcard"] = cfgb["wildcard"] = False
    elif trigger == "kind-wild":
        cfga["kind_wildcard"] = cfgb["kind_wildcard"] = False
    elif trigger == "eq-struct":
        cfga["canonical"] = cfgb["canonical"] = True
    elif trigger == "eq-asym":
        Sb["covariate"] = Sa["covariate"]  # no strict-subset relation between the covariate effects any more
    elif trigger == "eq-metab":
        Sb["metabolite"], Sb["allometry"] = Sa["metabolite"], Sa["allometry"]
    elif trigger == "sub-none":
        for cat in ("direct", "effectcomp", "metabolite"):
            if Sa[cat] and Sb[cat] and Sa[cat] < Sb[cat]:
                Sb[cat] = Sa[cat]
    elif trigger == "contain-transits":
        for S in (Sa, Sb):
            if S["transits"]:
                S["transits"] = frozenset((n, "DEPOT") for n, _ in S["transits"])
    elif trigger == "allometry":
        Sa["allometry"] = Sb["allometry"] = None
    if not any(Sa.values()) or not any(Sb.values()):
        return None
    return Sa, Sb, cfga, cfgb


def cov_conflict(A, B):
    fa = {t[:4]: set() for t in A | B}
    for t in A | B:
        fa[t[:4]].add(t[4])
    return any(len(v) > 1 for v in fa.values())


def forced_overlap(A, B):
    """A (param, cov) pair forced in both operands or forced with two operators: pharmpy's own parser refuses the
    union when it is written as text."""
    ops = {}
    for X in (A, B):
        for p, cv, fp, op, opt in X:
            if not opt:
                ops.setdefault((p, cv), []).append((id(X), op))
    for pc, lst in ops.items():
        if len({i for i, _ in lst}) > 1 or len({o for _, o in lst}) > 1:
            return True
    return False


def eval_pair_law(c, law, ta, tb):
    """Evaluate one law on one pair of texts.  Returns (status, msg): status 'ok' | 'viol' | 'refusal' | 'nj:<why>'."""
    try:
        a, b = P(ta), P(tb)
        Oa, Ob = mfl.observe(a), mfl.observe(b)
    except Exception as e:
        return "viol", f"operand does not parse: {type(e).__name__}: {str(e)[:100]}"
    if law in ("add", "sub"):
        try:
            r = a + b if law == "add" else a - b
        except Exception as e:
            return "viol", f"a {'+' if law == 'add' else '-'} b raised {type(e).__name__}: {str(e)[:120]}"
        try:
            Or = mfl.observe(r)
        except mfl.Malformed as e:
            return "viol", f"result of a {'+' if law == 'add' else '-'} b is not a well-formed space: {e}"
        for cat in mfl.ALL_CATS:
            A, B, R = mfl.norm(Oa, cat), mfl.norm(Ob, cat), mfl.norm(Or, cat)
            if cat == "covariate" and cov_conflict(A, B):
                if law == "sub":
                    # the docs are silent on the FLAG of what remains when optional and forced effects meet; which
                    # effects remain is not in doubt: those of a that b does not have (covsearch relies on it:
                    # search space minus the model's own, always structural, effects)
                    strip = lambda X: {t[:4] for t in X}  # noqa: E731
                    c.hit("L3_sub_flags_stripped")
                    if strip(R) != strip(A) - strip(B):
                        return "viol", (f"effects of a-b (optional flags ignored) = {srt(strip(R))} != effects(a) \\ effects(b) = "
                                        f"{srt(strip(A) - strip(B))}")
                else:
                    c.hit("not_judged:covariate-optional-conflict")
                continue
            if law == "add":
                c.hit("L2_add")
                if R != A | B:
                    return "viol", f"S(a+b)[{cat}] = {srt(R)} != S(a)[{cat}] | S(b)[{cat}] = {srt(A | B)}"
            else:
                exp = A - B
                if exp:
                    c.hit("L3_sub")
                    if R != exp:
                        return "viol", f"S(a-b)[{cat}] = {srt(R)} != S(a)[{cat}] \\ S(b)[{cat}] = {srt(exp)}"
                else:
                    c.hit("L3_sub_empty")
                    if Or[cat] and Or[cat] != mfl.DEFAULTS.get(cat):
                        return "viol", f"S(a)[{cat}] \\ S(b)[{cat}] is empty but a-b has {srt(Or[cat])} (neither absent nor the documented default)"
        # the result is a search space as well: its printed form must parse back to it
        if any(v for v in Or.values()):
            try:
                rr = repr(r)
                r2 = P(rr)
                O2 = mfl.observe(r2)
            except ValueError as e:
                if "forced by multiple" in str(e) and forced_overlap(mfl.norm(Oa, "covariate"), mfl.norm(Ob, "covariate")):
                    c.hit("not_judged:union-forces-pair-twice")
                    return "ok", ""
                return "viol", f"repr of the result does not parse back: ValueError: {str(e)[:120]}"
            except Exception as e:
                return "viol", f"repr of the result does not parse back: {type(e).__name__}: {str(e)[:120]}"
            c.hit("L1_roundtrip_result")
            d = mfl.diff_space(Or, O2)
            if d:
                return "viol", f"parse(repr(result)) denotes another space than the result: repr={rr!r} differs in {d}"
        else:
            c.hit("not_judged:empty-result-roundtrip")
        return "ok", ""
    if law == "eq":
        truth = mfl.same_space(Oa, Ob)
        try:
            e1 = a == b
            e2 = b == a
        except Exception as e:
            return "viol", f"a == b raised {type(e).__name__}: {str(e)[:120]}"
        c.hit("L4_eq", 2)
        c.hit("L4_eq_symmetry")
        if truth:
            c.hit("L4_eq_true")
        if bool(e1) != bool(e2):
            return "viol", f"== is not symmetric: a == b is {e1}, b == a is {e2} (S(a) == S(b) is {truth})"
        if bool(e1) != truth:
            return "viol", f"a == b is {e1} but S(a) == S(b) is {truth}; differing categories {sorted(mfl.diff_space(Oa, Ob))}"
        return "ok", ""
    if law == "contain":
        if any(Oa[x] or Ob[x] for x in ("covariate", "direct", "effectcomp", "indirect", "metabolite", "allometry")) or any(
                k == "MET" for _, k in (Oa["peripherals"] or ()) | (Ob["peripherals"] or ())) or not (mfl.has_pk(Oa) and mfl.has_pk(Ob)):
            return "nj:contain-non-pk", ""
        truth = all(mfl.norm(Ob, cat) <= mfl.norm(Oa, cat) for cat in mfl.PK_CATS)
        for tool in (None, "modelsearch"):
            try:
                got = a.contain_subset(b, tool=tool)
            except Exception as e:
                return "viol", f"contain_subset(tool={tool}) raised {type(e).__name__}: {str(e)[:120]}"
            c.hit("L5_contain_subset")
            if got is None:
                c.hit("contain_subset_returned_None")
            if bool(got) != truth:
                bad = [cat for cat in mfl.PK_CATS if not mfl.norm(Ob, cat) <= mfl.norm(Oa, cat)]
                return "viol", f"a.contain_subset(b, tool={tool}) is {got} but S(b) <= S(a) is {truth} (categories not contained: {bad})"
        if truth:
            c.hit("L5_contain_true")
        return "ok", ""
    raise KeyError(law)


def gen_pair(rng, intent):
    o = {"p_metabolite": 0.0}
    profile = rng.choice(["pk", "pk", "pkfull", "pd", "cov", "mix"])
    relation = rng.choice(["same", "same", "subset", "superset", "perturb", "independent"])
    cfga = {"canonical": False, "wildcard": False, "kind_wildcard": False, "depot_wildcard": True}
    cfgb = dict(cfga)
    canonical_pi = True  # peripherals / indirect spelled canonically (no finding on structure)
    if intent == "wild-eq":
        profile = rng.choice(["pk", "pkfull", "mix"])
        cfga["wildcard"] = cfgb["wildcard"] = True
        o["p_metabolite"] = 0.3
    elif intent == "kind-wild":
        profile = rng.choice(["pk", "pkfull"])
        cfga["wildcard"] = cfga["kind_wildcard"] = True
        cfgb["wildcard"] = cfgb["kind_wildcard"] = True
    elif intent == "eq-struct":
        profile = rng.choice(["pk", "pd", "mix", "pkfull"])
        relation = "same"
        canonical_pi = False
    elif intent == "eq-asym":
        profile = rng.choice(["cov", "mix"])
        relation = "cov-subset"
    elif intent == "eq-metab":
        profile = rng.choice(["pk", "pkfull"])
        o["p_metabolite"] = 1.0
        relation = rng.choice(["metab-drop", "metab-change"])
    elif intent == "sub-none":
        profile = rng.choice(["pd", "mix"])
        relation = "superset"
    elif intent == "contain-transits":
        profile = "pkfull"
        relation = "transits-cross"
    elif intent == "allometry":
        o["allometry"] = True
    elif intent == "refs":
        profile = "cov"
        o["refs"] = (("IIV", "ELIMINATION"), ("CONTINUOUS",))
    if intent in ("A", "sub-none", "eq-asym", "allometry", "contain-transits"):
        o["p_metabolite"] = 0.15
    Sa = mfl.gen_space(rng, profile, o)
    if relation == "independent":
        Sb = mfl.gen_space(rng, profile, dict(o, allometry=False))
    elif relation == "cov-subset":
        Sb = dict(Sa)
        cov = srt(Sa["covariate"])
        keep = rng.sample(cov, rng.randint(0, len(cov) - 1))
        Sb["covariate"] = frozenset(keep) or None
        if not any(Sb.values()):
            Sb["absorption"] = Sa["absorption"] = frozenset({"FO"})
    elif relation == "metab-drop":
        Sb = dict(Sa, metabolite=None)
    elif relation == "metab-change":
        Sb = dict(Sa, metabolite=frozenset(set(mfl.METABOLITE) - set(Sa["metabolite"])) or frozenset({"PSC"}))
        if Sb["metabolite"] == Sa["metabolite"]:
            Sb["metabolite"] = frozenset({"BASIC"})
    elif relation == "transits-cross":
        n1, n2 = rng.sample(range(0, 6), 2)
        Sa = dict(Sa, transits=frozenset({(n1, "DEPOT"), (n2, "NODEPOT")}) | frozenset((n, "DEPOT") for n in rng.sample(range(6, 9), rng.randint(0, 2))))
        Sb = mfl.mutate_space(rng, Sa, "subset")
        Sb["transits"] = frozenset({(n2, "DEPOT")} | ({(n1, "NODEPOT")} if rng.random() < 0.3 else set()))
    else:
        Sb = mfl.mutate_space(rng, Sa, relation, o)
        Sb["allometry"] = None if rng.random() < 0.7 else Sb["allometry"]
    if intent == "A":
        # stratum A: keep away from the listed constructs by construction
        for S in (Sa, Sb):
            if S["peripherals"] and rng.random() < 0.85:
                S["peripherals"] = frozenset((n, "DRUG") for n, _ in S["peripherals"])
        if Sa["metabolite"] != Sb["metabolite"] and rng.random() < 0.9:
            Sb["metabolite"] = Sa["metabolite"]
    seeds = (rng.getrandbits(48), rng.getrandbits(48))
    return Sa, Sb, cfga, cfgb, seeds, canonical_pi, relation


def render_pair(Sa, Sb, cfga, cfgb, seeds, canonical_pi):
    ta = _render_pi(Sa, cfga, seeds[0], canonical_pi)
    tb = _render_pi(Sb, cfgb, seeds[1], canonical_pi)
    return ta, tb


def _render_pi(S, cfg, seed, canonical_pi):
    if not canonical_pi or cfg.get("canonical"):
        return mfl.render(random.Random(seed), S, cfg)
    # peripherals and indirect effects in canonical spelling, the rest free
    S1 = dict(S, peripherals=None, indirect=None)
    S2 = {k: (S[k] if k in ("peripherals", "indirect") else None) for k in mfl.ALL_CATS}
    parts = []
    if any(S1.values()):
        parts.append(mfl.render(random.Random(seed), S1, cfg))
    if any(S2.values()):
        parts.append(mfl.render(random.Random(seed + 1), S2, dict(cfg, canonical=True, kind_wildcard=cfg.get("kind_wildcard", False))))
    return ";".join(parts)


def case_pair(rng, idx, tier):
    c = Case()
    intent = rng.choices([i for i, _ in PAIR_INTENTS], [w for _, w in PAIR_INTENTS])[0]
    Sa, Sb, cfga, cfgb, seeds, canonical_pi, relation = gen_pair(rng, intent)
    if intent == "kind-wild":
        # the wildcard spelling needs both kinds with the same counts in at least one operand
        S = Sa if rng.random() < 0.5 else Sb
        cnt = {n for n, _ in (S["peripherals"] or {(1, "DRUG")})}
        S["peripherals"] = frozenset((n, k) for n in cnt for k in mfl.PERIPH_KIND)
    for _ in range(4):
        ta, tb = render_pair(Sa, Sb, cfga, cfgb, seeds, canonical_pi)
        Sar, ia = ref_parse(ta)
        Sbr, ib = ref_parse(tb)
        if intent != "A":
            break
        # stratum A: spell / choose the pair so that no construct with a listed finding is touched
        trig_all = set()
        for law in ("add", "sub", "eq", "contain"):
            trig_all |= pair_triggers(law, mfl.with_defaults(Sar), ia, mfl.with_defaults(Sbr), ib)
        if not trig_all:
            break
        for t in sorted(trig_all):
            d = delta(t, Sa, Sb, cfga, cfgb)
            if d is not None:
                Sa, Sb, cfga, cfgb = d
    assert all((Sa[k] or None) == (Sar[k] or None) for k in mfl.ALL_CATS), ("generator/reader disagree", ta)
    assert all((Sb[k] or None) == (Sbr[k] or None) for k in mfl.ALL_CATS), ("generator/reader disagree", tb)
    c.sample = {"family": "pair", "intent": intent, "relation": relation, "a": ta, "b": tb}
    c.fp = fp_of("pair", ta, tb)
    c.nontrivial = nontrivial_text(ia, ta) or nontrivial_text(ib, tb)
    if ia["refs"] or ib["refs"]:
        # documented refusal: algebra with unresolved references asks for expand(model) first
        try:
            a, b = P(ta), P(tb)
        except Exception as e:
            c.violate(None, f"operand with references does not parse: {type(e).__name__}: {e}", c.sample)
            return c
        for name, f in (("+", lambda: a + b), ("-", lambda: a - b), ("==", lambda: a == b)):
            try:
                f()
                if (ia["refs"] and Sar["covariate"]) and (ib["refs"] and Sbr["covariate"]) or name != "+":
                    c.hit("not_judged:refs-not-refused")
            except ValueError as e:
                if "reference" in str(e):
                    c.hit("refs_refused")
                    c.refusal = "ValueError"
                else:
                    c.violate(None, f"a {name} b with references raised ValueError: {e}", c.sample)
            except Exception as e:
                c.violate(None, f"a {name} b with unresolved references raised {type(e).__name__}: {str(e)[:100]}", c.sample)
        return c
    Sad, Sbd = mfl.with_defaults(Sar), mfl.with_defaults(Sbr)
    for law in ("add", "sub", "eq", "contain"):
        trig = pair_triggers(law, Sad, ia, Sbd, ib)
        if len(trig) > 1:
            c.hit("not_judged:several-listed-constructs")
            continue
        status, msg = eval_pair_law(c, law, ta, tb)
        if status.startswith("nj:"):
            c.hit("not_judged:" + status[3:])
            continue
        if trig:
            c.hit(f"stratum_B:{next(iter(trig))}:{law}")
        if status != "viol":
            continue
        key = None
        if trig:
            t = next(iter(trig))
            d = delta(t, Sa, Sb, cfga, cfgb)
            if d is not None:
                ta2, tb2 = render_pair(d[0], d[1], d[2], d[3], seeds, canonical_pi or t == "eq-struct")
                S2a, i2a = ref_parse(ta2)
                S2b, i2b = ref_parse(tb2)
                if not pair_triggers(law, mfl.with_defaults(S2a), i2a, mfl.with_defaults(S2b), i2b):
                    st2, _ = eval_pair_law(Case(), law, ta2, tb2)
                    if st2 != "viol":
                        key = TRIGGER_KEY[t]
        c.violate(key, f"[{law}] {msg}", dict(c.sample, law=law))
    return c


# ------------------------------------------------------------------------------------------ family: lnt
def gen_model_features(rng, S=None, inside=None):
    """A single-model description: one option per PK category (None = category omitted -> default)."""
    M = mfl.new_space()
    for cat in mfl.PK_CATS:
        r = rng.random()
        if S is not None and S[cat] and r < (0.5 if inside is None else inside):
            M[cat] = frozenset({rng.choice(srt(S[cat]))})
        elif r < 0.85:
            u = srt(mfl.universe(cat, {"met": False}))
            M[cat] = frozenset({rng.choice(u)})
    if not any(M.values()):
        M["absorption"] = frozenset({"FO"})
    return M


def case_lnt(rng, idx, tier):
    c = Case()
    pd = rng.random() < 0.2
    if pd:
        S = mfl.gen_space(rng, "pd")
        M = mfl.new_space()
        for cat in ("direct", "effectcomp", "indirect"):
            if S[cat] and rng.random() < 0.85:
                pool = srt(S[cat]) if rng.random() < 0.5 else srt(mfl.universe(cat))
                M[cat] = frozenset({rng.choice(pool)})
        if not any(M.values()):
            cat = next(k for k in ("direct", "effectcomp", "indirect") if S[k])
            M[cat] = frozenset({rng.choice(srt(mfl.universe(cat)))})
    else:
        S = mfl.gen_space(rng, rng.choice(["pk", "pkfull"]), {"met": False})
        M = gen_model_features(rng, S)
    cfg = {"kind_wildcard": False, "wildcard": rng.random() < 0.5}
    ts = mfl.render(random.Random(rng.getrandbits(48)), S, cfg)
    tm = mfl.render(random.Random(rng.getrandbits(48)), M, {"canonical": True, "wildcard": False})
    Sr, info = ref_parse(ts)
    c.sample = {"family": "lnt", "model_features": tm, "space": ts}
    c.fp = fp_of("lnt", tm, ts)
    c.nontrivial = True
    try:
        m, s = P(tm), P(ts)
        Om, Os = mfl.observe(m), mfl.observe(s)
    except Exception as e:
        c.violate(None, f"operand does not parse: {type(e).__name__}: {e}", c.sample)
        return c
    for tool in (("modelsearch", None) if not pd else (None,)):
        cats = mfl.PK_CATS if tool == "modelsearch" or not pd else ("direct", "effectcomp", "indirect")
        if pd and any(bool(Om[k]) != bool(Os[k]) for k in ("direct", "effectcomp")):
            try:
                m.least_number_of_transformations(s, tool=tool)
                c.violate(None, "least_number_of_transformations did not refuse a category present in only one operand", c.sample)
            except ValueError:
                c.refusal = "ValueError"
                c.hit("lnt_refused_one_sided_category")
            except Exception as e:
                c.violate(None, f"least_number_of_transformations raised {type(e).__name__}: {e}", c.sample)
            continue
        try:
            lnt = m.least_number_of_transformations(s, tool=tool)
        except Exception as e:
            key = None
            if pd and Os["indirect"] and not ((Om["indirect"] or frozenset()) & Os["indirect"]):
                # delta check: the same pair with the model's indirect effect inside the space
                c.hit("stratum_B:lnt-indirect")
                M2 = dict(M, indirect=frozenset({srt(S["indirect"])[0]}))
                try:
                    P(mfl.render(random.Random(1), M2, {"canonical": True, "wildcard": False})).least_number_of_transformations(s, tool=tool)
                    key = K_LNT_INDIRECT
                except Exception:
                    pass
            c.violate(key, f"least_number_of_transformations(tool={tool}) raised {type(e).__name__}: {str(e)[:150]}", c.sample)
            continue
        Ks = mfl.feature_keys({k: (mfl.norm(Os, k) or None) for k in mfl.ALL_CATS})
        exp_cats = {cat for cat in cats if mfl.norm(Os, cat) and not (mfl.norm(Om, cat) & mfl.norm(Os, cat))}
        if pd:
            exp_cats = {cat for cat in exp_cats if mfl.norm(Om, cat) or cat == "indirect"}
        got_cats = {}
        bad = []
        for key in lnt:
            cat = next((k for k, v in Ks.items() if key in v), None)
            if cat is None:
                bad.append(key)
            else:
                got_cats.setdefault(cat, []).append(key)
        c.hit("L6_lnt")
        if exp_cats:
            c.hit("L6_lnt_nonempty")
        if bad:
            c.violate(None, f"[lnt tool={tool}] transformation(s) {bad} do not lead into the space", c.sample)
        elif set(got_cats) != exp_cats or any(len(v) != 1 for v in got_cats.values()):
            c.violate(None, f"[lnt tool={tool}] transformations {srt(lnt)}: categories {sorted(got_cats)} but exactly the categories "
                            f"with S(m)[c] & S(space)[c] empty are {sorted(exp_cats)}", c.sample)
    return c


# ------------------------------------------------------------------------------------------ family: enum
def key_name(key):
    return f"{key[0]}({', '.join(map(str, key[1:]))})"


def feature_ancestry(g, names):
    """For every feature task: the feature tasks upstream of it (networkx only)."""
    import networkx as nx

    out = []
    for t in g.nodes:
        if t.name in names:
            anc = [a for a in nx.ancestors(g, t) if a.name in names]
            out.append((t, anc))
    return out


class HashFn:
    """A feature function whose hash (hence position in a set) is chosen by the test."""

    def __init__(self, h, key):
        self.h, self.key = h, key
        self.keywords = {"n": key[1]} if key[0] == "PERIPHERALS" else {}

    def __hash__(self):
        return self.h

    def __eq__(self, other):
        return self is other

    def __call__(self, model):
        return model

    def __repr__(self):
        return f"fn{self.key}"


ENUM_INTENTS = [("A", 70), ("step-excl", 10), ("periph3", 10), ("set-order", 10)]


def gen_enum_space(rng, intent, algorithm):
    """PK space + base model -> feature keys as modelsearch.tool prepares them."""
    for _ in range(50):
        S = mfl.new_space()
        cats = rng.sample(mfl.PK_CATS, rng.randint(2, 4 if algorithm != "exhaustive" else 5))
        for cat in cats:
            if cat == "peripherals":
                a = rng.randint(0, 2)
                width = 3 if intent == "periph3" else rng.randint(0, 2)
                S[cat] = frozenset((n, "DRUG") for n in range(a, a + width + 1))
            elif cat == "transits":
                S[cat] = mfl.gen_category(rng, cat, {"max_count": 4, "nodepot": intent == "step-excl" or rng.random() < 0.4})
                if intent == "step-excl":
                    S[cat] = S[cat] | frozenset({rng.choice([(0, "NODEPOT"), (1, "NODEPOT")])})
            else:
                S[cat] = mfl.gen_category(rng, cat, {})
        if intent == "periph3" and "peripherals" not in cats:
            continue
        if intent == "step-excl":
            if not S["transits"]:
                continue
            if (0, "NODEPOT") not in S["transits"]:
                S["absorption"] = frozenset(S["absorption"] or ()) | {"FO"}
        Sd = mfl.with_defaults(S)
        base = {cat: rng.choice(srt(Sd[cat])) for cat in mfl.PK_CATS}
        if intent == "step-excl" and base["absorption"] == "FO":
            base["absorption"] = "INST" if "INST" in Sd["absorption"] else base["absorption"]
        K = mfl.feature_keys(Sd)
        base_keys = set().union(*mfl.feature_keys({**mfl.new_space(), **{k: frozenset({v}) for k, v in base.items()}}).values())
        keys = sorted(set().union(*K.values()) - base_keys, key=lambda k: (k[0], k[1]))
        if len(keys) < 2:
            continue
        if intent in ("A", "set-order", "periph3"):
            if ("TRANSITS", 0, "NODEPOT") in keys or (("ABSORPTION", "FO") in keys and ("TRANSITS", 1, "NODEPOT") in keys):
                continue
        if intent in ("A", "set-order", "step-excl") and sum(1 for k in keys if k[0] == "PERIPHERALS") > 2:
            continue
        if intent == "step-excl" and not (("TRANSITS", 0, "NODEPOT") in keys or (("ABSORPTION", "FO") in keys and ("TRANSITS", 1, "NODEPOT") in keys)):
            continue
        if intent == "periph3" and sum(1 for k in keys if k[0] == "PERIPHERALS") < 3:
            continue
        groups = Counter(k[0] for k in keys)
        ncomb = 1
        for v in groups.values():
            ncomb *= v + 1
        if algorithm == "exhaustive":
            if ncomb - 1 > 200:
                continue
        else:
            npaths = len(mfl.exhaustive_paths(keys)) if len(keys) <= 7 else 10 ** 6
            if algorithm == "exhaustive_stepwise" and npaths > 350:
                continue
            if algorithm == "reduced_stepwise" and (len(keys) > 8 or len(mfl.reduced_nodes(keys)) > 350):
                continue
        return S, base, keys
    return None


def case_enum(rng, idx, tier):
    from pharmpy.tools.modelsearch import algorithms as alg

    c = Case()
    algorithm = rng.choice(["exhaustive", "exhaustive_stepwise", "reduced_stepwise"])
    intent = rng.choices([i for i, _ in ENUM_INTENTS], [w for _, w in ENUM_INTENTS])[0]
    if algorithm == "exhaustive" and intent in ("step-excl", "periph3"):
        intent = "A"
    if algorithm != "exhaustive" and intent == "set-order":
        intent = "A"
    g = gen_enum_space(rng, intent, algorithm)
    if g is None:
        c.skipped = "no-small-space-drawn"
        return c
    S, base, keys = g
    text = mfl.render(random.Random(rng.getrandbits(48)), S, {"kind_wildcard": False})
    c.sample = {"family": "enum", "algorithm": algorithm, "intent": intent, "space": text, "base_model": base,
                "features": [list(k) for k in keys]}
    c.fp = fp_of("enum", algorithm, text, sorted(base.items()), intent)
    c.nontrivial = len(keys) >= 2
    try:
        all_funcs = P(text).convert_to_funcs()
    except Exception as e:
        c.violate(None, f"convert_to_funcs raised {type(e).__name__}: {e}", c.sample)
        return c
    if not set(keys) <= set(all_funcs):
        c.violate(None, f"convert_to_funcs lacks features {srt(set(keys) - set(all_funcs))}", c.sample)
        return c
    funcs = {k: all_funcs[k] for k in keys}  # sorted as modelsearch.tool.filter_mfl_statements does
    names = {key_name(k): k for k in keys}
    iiv_strategy = rng.choice(["no_add", "absorption_delay", "add_diagonal"])

    if algorithm == "exhaustive":
        if intent == "set-order":
            return enum_set_order(c, rng, keys, iiv_strategy)
        wf, model_tasks = alg.exhaustive(funcs, iiv_strategy)
        cands = [t for t in wf._g.nodes if t.name == "create_candidate"]
        K = {}
        for k in keys:
            K.setdefault(k[0], set()).add(k)
        exp = mfl.cartesian_combinations(K)
        got = Counter(frozenset(t.task_input[1]) for t in cands)
        c.hit("exhaustive")
        if set(got) != exp or any(v > 1 for v in got.values()) or len(model_tasks) != len(exp):
            c.violate(None, f"[exhaustive] {len(cands)} candidates / {len(model_tasks)} model tasks for {len(exp)} combinations; missing "
                            f"{[srt(x) for x in srt(exp - set(got))[:3]]} extra {[srt(x) for x in srt(set(got) - exp)[:3]]} "
                            f"duplicated {[srt(k) for k, v in got.items() if v > 1][:3]}", c.sample)
        for t in cands:
            if any(len(list(wf._g.successors(t))) != 1 for _ in (0,)):
                c.violate(None, "[exhaustive] a candidate is not followed by exactly one fit workflow", c.sample)
                break
        check_names(c, [t.task_input[0] for t in cands], "modelsearch_run")
        mism = sum(1 for t in cands if len(t.task_input[1]) > 1 and [funcs[k] for k in t.task_input[1]] != list(t.task_input[2]))
        if mism:
            c.hit("exhaustive_real_funcs_zip_misaligned", mism)
        return c

    if algorithm == "exhaustive_stepwise":
        wf, model_tasks = alg.exhaustive_stepwise(funcs, iiv_strategy)
        import networkx as nx

        g = wf._g
        got = []
        for t, anc in feature_ancestry(g, names):
            chain = sorted(anc, key=lambda a: len(nx.ancestors(g, a)))
            got.append(tuple(names[a.name] for a in chain) + (names[t.name],))
        exp = mfl.exhaustive_paths(keys)
        c.hit("exhaustive_stepwise")
        judge_paths(c, "exhaustive_stepwise", Counter(got), Counter(exp), keys, intent, lambda ks: _rerun_stepwise(alg, all_funcs, ks, iiv_strategy))
        cand_tasks = [t for t, _ in feature_ancestry(g, names)]
        check_names(c, [t.task_input[0] for t in cand_tasks], "modelsearch_run")
        if len(model_tasks) != len(cand_tasks):
            c.violate(None, f"[exhaustive_stepwise] {len(model_tasks)} model tasks for {len(cand_tasks)} candidates", c.sample)
        return c

    wf, model_tasks = alg.reduced_stepwise(funcs, iiv_strategy)
    got = Counter((frozenset(names[a.name] for a in anc), names[t.name]) for t, anc in feature_ancestry(wf._g, names))
    exp = Counter(mfl.reduced_nodes(keys))
    c.hit("reduced_stepwise")
    if got != exp:
        key = None
        bugmodel = Counter(mfl.reduced_nodes_merge_only_if_several_groups(keys))
        trig = enum_triggers(keys)
        if not trig and got == bugmodel:
            key = K_SINGLE_GROUP
        elif len(trig) == 1:
            ks = enum_delta(next(iter(trig)), keys)
            if ks is not None and len(ks) >= 1:
                wf2, _ = alg.reduced_stepwise({k: _func_for(all_funcs, k) for k in ks}, iiv_strategy)
                n2 = {key_name(k): k for k in ks}
                got2 = Counter((frozenset(n2[a.name] for a in anc), n2[t.name]) for t, anc in feature_ancestry(wf2._g, n2))
                if got2 == Counter(mfl.reduced_nodes(ks)) or got2 == Counter(mfl.reduced_nodes_merge_only_if_several_groups(ks)):
                    key = {"step-excl": K_STEP_EXCL, "periph3": K_PERIPH_SKIP}[next(iter(trig))]
        dup = [(srt(F), f) for (F, f), v in got.items() if v > exp.get((F, f), 0)][:3]
        miss = [(srt(F), f) for (F, f), v in exp.items() if v > got.get((F, f), 0)][:3]
        c.violate(key, f"[reduced_stepwise] {sum(got.values())} candidates, the documented rules give {sum(exp.values())}: "
                       f"surplus (features before, new feature) {dup}; missing {miss}", c.sample)
    cand_tasks = [t for t, _ in feature_ancestry(wf._g, names)]
    check_names(c, [t.task_input[0] for t in cand_tasks], "modelsearch_run")
    return c


def _func_for(all_funcs, k):
    return all_funcs[k] if k in all_funcs else HashFn(1, k)


def _rerun_stepwise(alg, all_funcs, ks, iiv_strategy):
    import networkx as nx

    wf, _ = alg.exhaustive_stepwise({k: _func_for(all_funcs, k) for k in ks}, iiv_strategy)
    n2 = {key_name(k): k for k in ks}
    g = wf._g
    got = []
    for t, anc in feature_ancestry(g, n2):
        chain = sorted(anc, key=lambda a: len(nx.ancestors(g, a)))
        got.append(tuple(n2[a.name] for a in chain) + (n2[t.name],))
    return Counter(got)


def enum_triggers(keys):
    t = set()
    if ("TRANSITS", 0, "NODEPOT") in keys or (("ABSORPTION", "FO") in keys and ("TRANSITS", 1, "NODEPOT") in keys):
        t.add("step-excl")
    if sum(1 for k in keys if k[0] == "PERIPHERALS") > 2:
        t.add("periph3")
    return t


def enum_delta(trigger, keys):
    if trigger == "step-excl":
        # the same search with the depot kept (DEPOT spelling of the same transit counts)
        ks = []
        for k in keys:
            if k[0] == "TRANSITS" and k[2] == "NODEPOT":
                k = ("TRANSITS", k[1], "DEPOT")
            if k not in ks:
                ks.append(k)
        return ks
    if trigger == "periph3":
        per = sorted(k for k in keys if k[0] == "PERIPHERALS")
        return [k for k in keys if k[0] != "PERIPHERALS" or k in per[:2]]
    return None


def judge_paths(c, label, got, exp, keys, intent, rerun):
    if got == exp:
        return
    trig = enum_triggers(keys)
    key = None
    if len(trig) == 1:
        t = next(iter(trig))
        ks = enum_delta(t, keys)
        if ks is not None and len(ks) >= 1 and rerun(ks) == Counter(mfl.exhaustive_paths(ks)):
            key = {"step-excl": K_STEP_EXCL, "periph3": K_PERIPH_SKIP}[t]
    surplus = [p for p, v in got.items() if v > exp.get(p, 0)]
    missing = [p for p, v in exp.items() if v > got.get(p, 0)]
    c.violate(key, f"[{label}] {sum(got.values())} candidate paths, the documented rules allow {sum(exp.values())}; "
                   f"not allowed / duplicated: {sorted(surplus, key=len)[:2]}; missing: {sorted(missing, key=len)[:2]}", c.sample)


def check_names(c, names, prefix):
    c.hit("candidate_names_unique")
    if len(set(names)) != len(names):
        c.violate(None, f"candidate names are not unique: {[n for n, v in Counter(names).items() if v > 1][:5]}", c.sample)
    elif sorted(names) != sorted(f"{prefix}{i}" for i in range(1, len(names) + 1)) and prefix == "modelsearch_run":
        c.violate(None, f"candidate names are not {prefix}1..{len(names)}: {names[:5]}", c.sample)


def enum_set_order(c, rng, keys, iiv_strategy):
    """exhaustive(): the functions of a combination are handed over as a set next to the ordered combination and
    zipped later.  With feature functions whose hashes are chosen, the pairing is checked deterministically."""
    from pharmpy.tools.modelsearch import algorithms as alg

    def run(hashes):
        funcs = {k: HashFn(h, k) for k, h in zip(keys, hashes)}
        wf, _ = alg.exhaustive(funcs, iiv_strategy)
        bad = []
        for t in wf._g.nodes:
            if t.name != "create_candidate":
                continue
            _, combo, fs, _, _ = t.task_input
            if len(combo) > 1 and [f.key for f in fs] != list(combo):
                bad.append((combo, [f.key for f in fs]))
        return bad

    # one hash per category (features of a category never meet in a combination): small ints iterate in a set in
    # numeric order, so `asc` reproduces the order of the combination and `desc` the opposite one
    cats = list(dict.fromkeys(k[0] for k in keys))
    asc = [cats.index(k[0]) + 1 for k in keys]
    desc = [len(cats) - cats.index(k[0]) for k in keys]
    c.sample["hashes"] = desc
    bad = run(desc)
    c.hit("exhaustive")
    c.hit("exhaustive_zip_alignment")
    if bad:
        key = K_SET_ORDER if not run(asc) else None
        combo, fs = bad[0]
        c.violate(key, f"[exhaustive] candidate task pairs features {list(combo)} with functions for {fs} when zipped "
                       f"({len(bad)} misaligned candidates): the functions travel as a set", c.sample)
    return c


# ------------------------------------------------------------------------------------------ family: iiv
def case_iiv(rng, idx, tier):
    import pharmpy.modeling as pm
    from pharmpy.internals.set.partitions import partitions
    from pharmpy.internals.set.subsets import non_empty_subsets
    from pharmpy.tools.iivsearch import algorithms as ia

    c = Case()
    # exhaustive for n <= 6, with element names that sort differently as strings / numbers / tuples
    style = rng.choice(["eta", "int", "num-names", "tuple", "shuffled"])
    pool = {"eta": [f"ETA_{x}" for x in "ABCDEF"], "int": [3, 1, 2, 10, 0, 7], "num-names": ["ETA_10", "ETA_9", "ETA_1", "ETA_2", "ETA_11", "ETA_3"],
            "tuple": [("a", 1), ("a", 0), ("b", 2), ("b", 1), ("c", 0), ("a", 2)], "shuffled": rng.sample([f"E{x}" for x in range(6)], 6)}[style]
    for n in range(0, 7):
        elems = pool[:n]
        try:
            parts = list(partitions(elems))
            subs = list(non_empty_subsets(elems))
        except Exception as e:
            c.violate(None, f"partitions / non_empty_subsets raised {type(e).__name__} for {elems}: {e}", {"elements": elems})
            continue
        c.hit("partitions")
        as_sets = [frozenset(frozenset(b) for b in p) for p in parts]
        ok_shape = all(sorted((e for b in p for e in b), key=repr) == sorted(elems, key=repr) and all(len(b) > 0 for b in p) for p in parts)
        if len(parts) != mfl.bell(n) or len(set(as_sets)) != len(parts) or set(as_sets) != mfl.ref_partitions(elems) or not ok_shape:
            c.violate(None, f"partitions({elems}): {len(parts)} partitions ({len(set(as_sets))} distinct), Bell({n}) = {mfl.bell(n)}", {"elements": elems})
        c.hit("non_empty_subsets")
        ss = [frozenset(s) for s in subs]
        if len(subs) != 2 ** n - 1 or len(set(ss)) != len(ss) or set(ss) != mfl.ref_nonempty_subsets(elems) or any(len(set(s)) != len(s) for s in subs):
            c.violate(None, f"non_empty_subsets({elems}): {len(subs)} subsets ({len(set(ss))} distinct), expected {2 ** n - 1}", {"elements": elems})

    # iivsearch brute force on a model with chosen etas, block structure and keep list
    base = _MODELS["iiv6"]
    k = rng.choice([1, 2, 2, 3, 3, 3, 4, 4, 4, 5, 5, 6])
    chosen = set(rng.sample(IIV_ETAS, k))
    etas = [e for e in IIV_ETAS if e in chosen]
    model = pm.remove_iiv(base, [e for e in IIV_ETAS if e not in etas]) if k < 6 else base
    blocks = rng.choice(srt(mfl.ref_partitions(etas)))
    blocks = [[e for e in etas if e in b] for b in blocks]
    for b in blocks:
        if len(b) > 1:
            model = pm.create_joint_distribution(model, b)
    current = frozenset(frozenset(d.names) for d in model.random_variables.iiv)
    assert current == frozenset(frozenset(b) for b in blocks), (current, blocks)
    etas_now = list(model.random_variables.iiv.names)
    keep_mode = rng.choice(["none", "none", "param", "eta", "mixed", "default-CL"])
    keep = None
    if keep_mode == "param":
        keep = [ETA_PARAM[e] for e in rng.sample(etas, rng.randint(1, max(1, k - 1)))]
    elif keep_mode == "eta":
        keep = rng.sample(etas, rng.randint(1, max(1, k - 1)))
    elif keep_mode == "mixed":
        ch = rng.sample(etas, min(k, 2))
        keep = [ETA_PARAM[ch[0]]] + ch[1:]
    elif keep_mode == "default-CL":
        keep = ["CL"]
    kept = {e for e in etas if keep and (e in keep or ETA_PARAM[e] in keep)}
    offset = rng.choice([0, 0, 3, 17])
    c.sample = {"family": "iiv", "etas": etas, "blocks": blocks, "keep": keep, "index_offset": offset, "elements": style}
    c.fp = fp_of("iiv", etas, blocks, keep, offset, style)
    c.nontrivial = k >= 2
    # a linearized-model style mapping eta -> parameter is accepted in place of deriving it from the model
    mapping = {e: ETA_PARAM[e] for e in etas_now} if rng.random() < 0.5 else None
    c.sample["param_mapping"] = bool(mapping)
    try:
        wf = ia.td_exhaustive_no_of_etas(model, index_offset=offset, keep=keep, param_mapping=mapping)
    except Exception as e:
        c.violate(None, f"td_exhaustive_no_of_etas raised {type(e).__name__}: {str(e)[:200]}", c.sample)
    else:
        cands = [t for t in wf._g.nodes if t.name == "candidate_entry"]
        got = [frozenset(t.task_input[1]) for t in cands]
        exp = mfl.ref_nonempty_subsets([e for e in etas_now if e not in kept])
        c.hit("iiv_no_of_etas")
        if set(got) != exp or len(got) != len(exp) or any(len(t.task_input[1]) != len(set(t.task_input[1])) for t in cands):
            c.violate(None, f"[td_exhaustive_no_of_etas] {len(got)} candidates ({len(set(got))} distinct) for {len(exp)} non-empty subsets of "
                            f"the removable etas {[e for e in etas_now if e not in kept]}; missing {[srt(x) for x in srt(exp - set(got))[:3]]} "
                            f"extra {[srt(x) for x in srt(set(got) - exp)[:3]]}", c.sample)
        names = [t.task_input[0] for t in cands]
        c.hit("candidate_names_unique")
        if sorted(names) != sorted(f"iivsearch_run{i + offset}" for i in range(1, len(cands) + 1)):
            c.violate(None, f"[td_exhaustive_no_of_etas] candidate names not unique / not iivsearch_run{1 + offset}..: {names[:4]}", c.sample)
    try:
        wf = ia.td_exhaustive_block_structure(model, index_offset=offset, param_mapping=mapping)
    except Exception as e:
        c.violate(None, f"td_exhaustive_block_structure raised {type(e).__name__}: {str(e)[:200]}", c.sample)
    else:
        cands = [t for t in wf._g.nodes if t.name == "candidate_entry"]
        got = [frozenset(frozenset(b) for b in t.task_input[1]) for t in cands]
        allp = mfl.ref_partitions(etas_now)
        c.hit("iiv_block_structure")
        if len(set(got)) != len(got) or not set(got) <= allp or not (allp - {current}) <= set(got):
            c.violate(None, f"[td_exhaustive_block_structure] {len(got)} candidates ({len(set(got))} distinct); all partitions of the etas: "
                            f"{len(allp)} (the current structure may be left out); missing {[srt(map(srt, x)) for x in srt(allp - {current} - set(got))[:3]]}", c.sample)
        names = [t.task_input[0] for t in cands]
        c.hit("candidate_names_unique")
        if sorted(names) != sorted(f"iivsearch_run{i + offset}" for i in range(1, len(cands) + 1)):
            c.violate(None, f"[td_exhaustive_block_structure] candidate names not unique / consecutive: {names[:4]}", c.sample)
    return c


# ------------------------------------------------------------------------------------------ family: expand
def case_expand(rng, idx, tier):
    c = Case()
    model = _MODELS["cov"]
    o = {"refs": (("IIV", "PK_IIV", "ELIMINATION", "DISTRIBUTION"), ("CONTINUOUS", "CATEGORICAL")),
         "param_pool": ("CL", "VC", "MAT", "QP1"), "cov_pool": ("WGT", "AGE", "SEX"), "p_optional": 0.8}
    S = mfl.gen_space(rng, rng.choice(["cov", "cov", "mix"]), o)
    text = mfl.render(random.Random(rng.getrandbits(48)), S, {"let": False})
    Sr, info = ref_parse(text)
    c.sample = {"family": "expand", "text": text}
    c.fp = fp_of("expand", text)
    c.nontrivial = bool(info["refs"])
    # expected: every reference replaced by its meaning
    exp = set()
    for p, cv, fp, op, opt in Sr["covariate"]:
        ps = REF_MEANING[p[1]] if isinstance(p, tuple) else (p,)
        cs = REF_MEANING[cv[1]] if isinstance(cv, tuple) else (cv,)
        exp |= set(itertools.product(ps, cs, (fp,), (op,), (opt,)))
    # docs are silent about how explicit statements interact with references on the same (parameter, covariate)
    # and about the same effect being both forced and optional: such texts are not judged
    seen = {}
    overlap = False
    for st in [s for s in mfl.read_statements(text) if s[0] == "covariate"]:
        ps = REF_MEANING[st[1][1]] if st[1][0] == "@" else st[1][1]
        cs = REF_MEANING[st[2][1]] if st[2][0] == "@" else st[2][1]
        for pc in itertools.product(ps, cs):
            if pc in seen and seen[pc] != (st[1][0], st[2][0], st[5]):
                overlap = True
            seen.setdefault(pc, (st[1][0], st[2][0], st[5]))
    try:
        mf = P(text)
        ex = mf.expand(model)
        O = mfl.observe(ex)
    except ValueError as e:
        if "forced by multiple" in str(e) or overlap:
            c.refusal = "ValueError"
            c.hit("expand_refused")
            return c
        c.violate(None, f"expand(model) raised ValueError: {e}", c.sample)
        return c
    except Exception as e:
        c.violate(None, f"expand(model) raised {type(e).__name__}: {str(e)[:200]}", c.sample)
        return c
    if overlap:
        c.hit("not_judged:explicit-and-reference-overlap")
        return c
    c.hit("expand_refs")
    got = O["covariate"] or frozenset()
    if got != exp:
        c.violate(None, f"expand(model): covariate effects differ from the documented meaning of the symbols: missing "
                        f"{srt(exp - got)[:4]} extra {srt(got - exp)[:4]}", c.sample)
    for cat in mfl.ALL_CATS:
        if cat not in ("covariate", "allometry") and mfl.norm(O, cat) != mfl.norm(mfl.with_defaults(Sr), cat):
            c.violate(None, f"expand(model) changed category {cat}", c.sample)
    return c


# ------------------------------------------------------------------------------------------ family: docs
DOC_CASES = [
    # (texts that docs/mfl.rst declares equivalent, finding key if known)
    (["ABSORPTION(FO);ELIMINATION(ZO)", "ABSORPTION(FO)\nELIMINATION(ZO)"], None),
    (["TRANSITS(0)\nTRANSITS(1)\nTRANSITS(2)\nTRANSITS(3)", "TRANSITS(0..3)", "TRANSITS([0, 1, 2, 3])"], None),
    (["ABSORPTION(FO)\nABSORPTION([FO, ZO])", "ABSORPTION([FO, ZO])"], None),
    (["PERIPHERALS(0..2)\nPERIPHERALS(1)", "PERIPHERALS(0..2)"], K_EQ_STRUCT),
    (["ABSORPTION([ZO,SEQ-ZO-FO])\nELIMINATION([MM,MIX-FO-MM])\nLAGTIME(ON)\nTRANSITS([0, 1, 3, 10],*)\nPERIPHERALS(0..1)"], None),
    (["ELIMINATION([FO,MM,MIX-FO-MM])\nPERIPHERALS([0..2])", "ELIMINATION([FO,MM,MIX-FO-MM])\nPERIPHERALS(0..2)"], K_DOCS_RANGE),
    (["ABSORPTION(*)", "ABSORPTION([INST,FO,ZO,SEQ-ZO-FO])"], K_WILD_EQ),
    (["ABSORPTION(*)\nELIMINATION(*)", "ABSORPTION([INST,FO,ZO,SEQ-ZO-FO]);ELIMINATION([FO,ZO,MM,MIX-FO-MM])"], K_WILD_EQ),
    (["COVARIATE?(@IIV, @CONTINUOUS, *)\nCOVARIATE?(@IIV, @CATEGORICAL, CAT)"], None),
    (["LET(CONTINUOUS, [AGE, WGT])\nLET(CATEGORICAL, SEX)\nCOVARIATE?(@IIV, @CONTINUOUS, *)\nCOVARIATE?(@IIV, @CATEGORICAL, CAT)"], None),
    (["COVARIATE?(@DISTRIBUTION, WGT, *)"], None),
    (["DIRECTEFFECT([linear, emax])\nEFFECTCOMP(*)", "DIRECTEFFECT([LINEAR,EMAX]);EFFECTCOMP([LINEAR,EMAX,SIGMOID])"], None),
    (["ABSORPTION([FO,ZO]);PERIPHERALS([0,1]);LAGTIME(ON)"], None),
    (["METABOLITE([BASIC,PSC]);PERIPHERALS(0..1,MET)"], None),
    (["ABSORPTION(FO);PERIPHERALS(1..2);METABOLITE(BASIC);PERIPHERALS(0..1,MET)"], None),
]


def case_docs(rng, idx):
    c = Case()
    texts, known = DOC_CASES[idx]
    c.sample = {"family": "docs", "texts": texts}
    c.fp = fp_of("docs", texts)
    c.nontrivial = True
    parsed = []
    for t in texts:
        try:
            Sr, info = ref_parse(t)
        except mfl.MFLSyntaxError:
            Sr, info = None, None
        try:
            mf = P(t)
            O = mfl.observe(mf)
        except Exception as e:
            key = K_DOCS_RANGE if known == K_DOCS_RANGE and "[0..2]" in t else None
            c.violate(key, f"[docs] a literal example of the documentation does not parse: {t!r}: {type(e).__name__}: {str(e)[:100]}", c.sample)
            continue
        c.hit("docs_examples")
        if Sr is not None:
            d = l0_compare(Sr, O)
            if d:
                c.violate(None, f"[docs] example {t!r} differs from the reference expansion: {d}", c.sample)
        parsed.append((t, mf, O, info))
    for (t1, m1, O1, i1), (t2, m2, O2, i2) in itertools.combinations(parsed, 2):
        c.hit("docs_examples")
        if mfl.diff_space(O1, O2):
            c.violate(None, f"[docs] {t1!r} and {t2!r} are documented as equivalent but denote different spaces: {mfl.diff_space(O1, O2)}", c.sample)
        if i1 is not None and (i1["refs"] or i2["refs"]):
            continue
        try:
            e = (m1 == m2, m2 == m1)
        except Exception as ex:
            key = known if known == K_WILD_EQ and (i1["wild"] or i2["wild"]) else None
            c.violate(key, f"[docs] {t1!r} == {t2!r} raised {type(ex).__name__}: {str(ex)[:100]}", c.sample)
            continue
        if not all(e):
            key = None
            if known == K_EQ_STRUCT and struct_of(mfl.with_defaults(mfl.expand(t1)[0]), i1, "peripherals") != struct_of(mfl.with_defaults(mfl.expand(t2)[0]), i2, "peripherals"):
                key = K_EQ_STRUCT
            c.violate(key, f"[docs] {t1!r} and {t2!r} are documented as equivalent but == gives {e}", c.sample)
    return c
