"""C01 Reading a NONMEM model preserves its meaning (NM-TRAN -> model IR).

Oracle: vp.nmtran_ref (independent interpreter of the text) vs vp.ir_eval over the Model that pharmpy's reader
returns, compared by vp.denote on parameters, random-effect structure, $PK variables, vector field, dose events,
F and every $ERROR variable at sampled environments.
"""
from __future__ import annotations

import os
import shutil
from pathlib import Path

from vp.farm import Case, fp_of

PROP = "C01"
LEVEL = "exploration"
RULE = (
    "grammar-generated control streams ($PRED; ADVAN1-4,10-12 x legal TRANS; ADVAN5/7 with $MODEL and Kij/KiTj; "
    "ADVAN6/8/9/13 with $DES) with generated $THETA/$OMEGA/$SIGMA layouts and an event dataset; distinct by text "
    "hash; non-trivial when at least one sampled environment was judged on all of: parameters, rv structure, and "
    "($PRED variables | vector field + events + $ERROR variables)"
)
ASSUMPTIONS = [
    "NM-TRAN semantics = vp.nmtran_ref (my executable reading of the NONMEM documentation; NONMEM is not installed)",
    "numeric literals are reals; constructs with unclear NM-TRAN meaning are not generated (DESIGN.md 2.3)",
    "agreement 1e-9 relative (1e-8 for vector fields); singular sample points are redrawn",
    "stratum A block IFs: no nesting, every branch assigns the same symbols once, conditions do not read symbols the block assigns",
]
MIN_NONTRIVIAL = {"quick": 400, "thorough": 5000}
REQUIRED_MONITORS = ["params", "rv_structure", "field", "error_vars", "vars"]

B_STRATA = ["nested_if", "double_assign", "cond_var_modified", "else_only", "elseif_only", "neg_literal_pow", "mod_negative"]
A_EXTRA = ("trans56",)  # constructs whose finding was fixed: merged into stratum A
KEYS = {
    "nested_if": "C01/nested-if-in-block",
    "double_assign": "C01/reassign-within-block",
    "cond_var_modified": "C01/block-condition-var-modified",
    "else_only": "C01/else-only-symbol",
    "elseif_only": "C01/elseif-only-symbol",
    "trans56": "C01/advan-trans5-6-undefined-K",
    "neg_literal_pow": "C01/signed-literal-power",
    "mod_negative": "C01/mod-negative-dividend",
}


def n_cases(tier):
    return 1600 if tier == "quick" else 25000


def setup(tier):
    import pharmpy.modeling  # noqa
    import pharmpy.model.external.nonmem  # noqa


def judge(text, data, rows, meta, rng, K, c, workdir, prefix=""):
    """Returns None if held, 'refusal:<type>' / 'skipped:<why>', or raises denote.Mismatch."""
    from pharmpy.modeling import read_model

    from vp import denote
    from vp import nmtran_ref as R

    workdir.mkdir(parents=True, exist_ok=True)
    (workdir / "data.csv").write_text(data)
    path = workdir / "model.mod"
    path.write_text(text.replace("DATAFILE", "data.csv"))
    try:
        model = read_model(path)
        _ = model.statements
    except Exception as e:  # pharmpy refuses the generated text
        return f"refusal:{type(e).__name__}:{str(e)[:80]}"
    try:
        td = denote.TextDen(text)
    except R.Unsupported as e:
        return f"skipped:ref-unsupported:{e}"
    ird = denote.IRDen(model)
    denote.compare_parameters(td, ird, c, prefix)
    dose_info = None
    if meta.get("kind") != "pred":
        dose_info = {int(k): {v} for k, v in meta["dose_kinds"].items()}
    j = denote.compare_dynamic(td, ird, rows, rng, K, c, prefix, dose_info=dose_info)
    if j == 0:
        return "skipped:no-point-judged"
    return None


def run_case(rng, idx, tier):
    import random

    from vp import denote
    from vp.gen import nmtran as G

    c = Case()
    K = 5 if tier == "quick" else 12
    stratum = "A" if idx % 10 < 7 else B_STRATA[(idx // 10) % len(B_STRATA)]
    strata = A_EXTRA if stratum == "A" else A_EXTRA + (stratum,)
    m = G.gen_model(rng, strata)
    text, meta = m["text"], m["meta"]
    used = [u for u in meta["used"] if u in KEYS and u not in A_EXTRA]
    c.sample = {"stratum": stratum, "used": meta["used"], "text": text.splitlines(), "kind": meta["kind"],
                "advan": meta.get("advan"), "trans": meta.get("trans")}
    c.fp = fp_of(text)
    wd = Path(os.environ["VERIF_SCRATCH"]) / f"c{idx}"
    seed2 = rng.random()
    try:
        try:
            res = judge(text, m["data"], m["rows"], meta, random.Random(seed2), K, c, wd)
        except denote.Mismatch as mm:
            key = None
            if used:
                # delta check: the same program with the special construct removed / neutralised
                if True:
                    dtext = G.delta_text(text)
                    c2 = Case()
                    try:
                        r2 = judge(dtext, m["data"], m["rows"], meta, random.Random(seed2), K, c2, wd, prefix="delta_")
                        if r2 is not None:
                            # the repaired program could not be judged (no regular sample point / refused): the
                            # mismatch of this stratum-B case can neither be attributed nor shown to be new
                            c.hit("delta_inconclusive")
                            c.skipped = "delta-inconclusive"
                            return c
                        if r2 is None:
                            non56 = [u for u in used if u != "trans56"]
                            key = KEYS[non56[0]] if len(non56) == 1 else None
                            if key is None and len(non56) > 1:
                                key = KEYS[sorted(non56)[0]]
                    except denote.Mismatch:
                        key = None
                    c.hit("delta_checks")
            c.violate(key, mm.what, {"detail": mm.detail, "text": text})
            c.nontrivial = True
            return c
        if res is None:
            c.nontrivial = True
            c.hit("held_" + ("A" if not used else "B"))
        elif res.startswith("refusal:"):
            c.refusal = res[8:].split(":")[0]
            c.hit("refused:" + res[8:60])
        else:
            c.skipped = res[8:40]
    finally:
        shutil.rmtree(wd, ignore_errors=True)
    return c
