"""C15 Path locks give reader-writer exclusion without deadlock in every schedule.

The real lock.py runs on instrumented primitives under the controlled scheduler of vp.sched; one farm case = one
lock program executed under many seeded schedules.  Safety monitors S1-S5 are evaluated at every enter / exit event,
deadlock is decided on logical state and classified with an ideal reader-writer lock (DESIGN.md C15, Appendix A.4).
"""
from __future__ import annotations

import random
from collections import Counter

from vp.farm import Case, fp_of

PROP = "C15"
LEVEL = "exploration"
RULE = (
    "lock programs: <= 3 virtual threads in <= 2 virtual processes, each <= 3 nested or sequential path_lock "
    "requests with arbitrary (shared, blocking, reentrant) on <= 2 paths, plus targeted families (reader + "
    "upgrader, nested exclusive/shared, non-blocking probes); each program runs under 40 (quick) / 250 (thorough) "
    "schedules (uniform random and PCT-style priority schedules); a case is distinct by the program and non-trivial "
    "when >= 2 threads contend for one path and >= 5 distinct interleavings (choice lists) were executed; "
    "real-kernel stress cases (36 quick / 600 thorough): 2-3 REAL processes x 1-4 REAL threads run the real lock.py with real "
    "fcntl on real files for 20 / 40 rounds of a deadlock-free-by-construction program (paths nested in one order, at most one "
    "upgrader, non-blocking probes, pool churn, reentrant stacks that start exclusive) with sys.monitoring yield injection at "
    "every statement of lock.py; in-body enter/exit events with CLOCK_MONOTONIC stamps are merged and checked offline for "
    "overlap (S1), /proc/locks is read inside bodies (S2), bookkeeping, descriptors and kernel locks at the end (S5); such a "
    "case is non-trivial when a request was granted after a conflicting holder was seen or holders of two processes overlapped"
)
ASSUMPTIONS = [
    "the simulated kernel of vp.sched (POSIX record locks: atomic SH<->EX conversion, close of any descriptor drops "
    "the process's locks on the file, EDEADLK on a cross-process wait cycle) stands for fcntl.lockf",
    "scheduling points are the operations on Lock/RLock/Condition, lockf, os.open/close and one point in every lock body",
    "a deadlock is a violation only if the ideal reader-writer lock (per-thread reentrancy) would grant a blocked request",
    "a non-blocking request may fail spuriously while another thread is inside lock code (try-lock), not at quiescence",
    "real-kernel cases: recorded in-body intervals are contained in the true hold intervals, so overlap of recorded intervals is "
    "real overlap; a run that does not finish is inconclusive (wall clock is no verdict) - lost wake-ups are decided by the "
    "controlled scheduler; EDEADLK raised by the real kernel (process-granular cycle detection) is counted, not judged",
]
MIN_NONTRIVIAL = {"quick": 150, "thorough": 1500}
REQUIRED_MONITORS = ["runs", "S1_checks", "S2_checks", "S5_checks", "enter_events", "real_runs", "real_S1_checks", "real_S5_checks"]
# (real_S2_checks and real_yields_injected are reported in the evidence but not required: /proc/locks may be unreadable and
# sys.monitoring absent on another interpreter - the S1 / S5 verdicts of the real tier do not depend on them)

PATHS = ["/locks/a", "/locks/b"]


N_SCHED = {"quick": 420, "thorough": 5000}
N_REAL = {"quick": 36, "thorough": 600}


def n_cases(tier):
    return N_SCHED[tier] + N_REAL[tier]


def setup(tier):
    from vp import sched  # noqa


# ---------------------------------------------------------------------------------------------- programs
def gen_node(rng, depth, paths):
    node = {"path": rng.choice(paths), "shared": rng.random() < 0.55, "blocking": rng.random() < 0.75,
            "reentrant": rng.random() < 0.5, "body": []}
    if depth < 2 and rng.random() < 0.45:
        node["body"] = [gen_node(rng, depth + 1, paths) for _ in range(rng.randint(1, 2 if depth == 0 else 1))]
    return node


def count_nodes(ops):
    return sum(1 + count_nodes(n["body"]) for n in ops)


def gen_program(rng, idx):
    fam = idx % 8
    N = lambda path, sh, bl=True, re=False, body=None: {"path": path, "shared": sh, "blocking": bl, "reentrant": re, "body": body or []}  # noqa: E731
    a, b = PATHS
    if fam == 0:  # reader + reentrant upgrader (+ optional second reader / second process)
        prog = [(0, [N(a, True, True, True, [N(a, False, True, True)])]), (0, [N(a, True)])]
        if rng.random() < 0.5:
            prog.append((rng.choice([0, 1]), [N(a, True, rng.random() < 0.7)]))
        return prog
    if fam == 1:  # exclusive then nested shared (reentrant), against a reader/writer elsewhere
        prog = [(0, [N(a, False, True, True, [N(a, True, True, True)])]), (rng.choice([0, 1]), [N(a, rng.random() < 0.5)])]
        return prog
    if fam == 2:  # non-blocking probes against each kind of holder
        prog = [(0, [N(a, rng.random() < 0.5)]), (rng.choice([0, 1]), [N(a, rng.random() < 0.5, False)]),
                (rng.choice([0, 1]), [N(a, rng.random() < 0.5, False, rng.random() < 0.5)])]
        return prog
    if fam == 3:  # same file through both virtual processes, mixed modes
        return [(0, [N(a, rng.random() < 0.5), N(a, rng.random() < 0.5)]), (1, [N(a, rng.random() < 0.5), N(a, rng.random() < 0.5)]),
                (rng.choice([0, 1]), [N(a, True)])]
    if fam == 4:  # non-reentrant recursion
        return [(0, [N(a, rng.random() < 0.5, True, False, [N(a, rng.random() < 0.5, rng.random() < 0.5, False)])]),
                (rng.choice([0, 1]), [N(a, True)])]
    if fam == 5:  # pool churn: readers of one process come and go (descriptor closed / reopened) against a foreign writer
        seq = lambda: [N(a, True) for _ in range(rng.randint(1, 2))]  # noqa: E731
        return [(0, seq()), (0, seq()), (1, [N(a, rng.random() < 0.3, rng.random() < 0.6)])]
    # random programs
    nthreads = rng.randint(2, 3)
    nproc = rng.randint(1, 2)
    paths = PATHS[: rng.randint(1, 2)]
    prog = []
    for t in range(nthreads):
        ops = []
        budget = 3
        while budget > 0 and (not ops or rng.random() < 0.5):
            n = gen_node(rng, 0, paths)
            while count_nodes([n]) > budget:
                n = gen_node(rng, 1, paths)
            budget -= count_nodes([n])
            ops.append(n)
        prog.append((t % nproc, ops))
    return prog


def render(prog):
    def r(n):
        s = f"{'sh' if n['shared'] else 'ex'}({n['path'][-1]}{'' if n['blocking'] else ',nb'}{',re' if n['reentrant'] else ''})"
        if n["body"]:
            s += "{" + " ".join(r(x) for x in n["body"]) + "}"
        return s

    return [f"P{vpid}.T{i}: " + " ; ".join(r(n) for n in ops) for i, (vpid, ops) in enumerate(prog)]


# ---------------------------------------------------------------------------------------------- one run
class Monitor:
    def __init__(self, run):
        self.run = run
        self.holders = []  # (owner=(vpid, vt), path, mode, node id)
        self.pending = {}  # vt -> ('acquire'|'release', node)
        self.violations = []
        self.contention = {}
        self.counts = {"S1_checks": 0, "S2_checks": 0, "enter_events": 0}
        self.states = set()

    def owner(self, vt):
        return (self.run.vpid_of[vt], vt)

    def v(self, msg):
        self.violations.append(msg)

    def request(self, vt, node):
        self.pending[vt] = ("acquire", node)
        self.contention[vt] = False
        self.touch()

    def touch(self):
        """Called at every event: remember for every pending acquire whether, at any instant since it was issued, a
        conflicting holder existed or another thread was inside lock code (a try-lock may fail spuriously then)."""
        busy = {t for t, v in self.run.in_lock_code.items() if v}
        for vt, (what, node) in list(self.pending.items()):
            if what != "acquire":
                continue
            if self.conflicting_holder(vt, node) or (busy - {vt}):
                self.contention[vt] = True

    def enter(self, vt, node):
        run = self.run
        o = self.owner(vt)
        mode = "SH" if node["shared"] else "EX"
        self.pending.pop(vt, None)
        self.counts["enter_events"] += 1
        # S3: a non-reentrant recursive request must not be granted
        if not node["reentrant"] and any(h[0] == o and h[1] == node["path"] for h in self.holders):
            self.v(f"S3: non-reentrant request {mode} on {node['path']} was granted to T{vt} which already holds the path")
        # S1
        self.counts["S1_checks"] += 1
        for h in self.holders:
            if h[1] == node["path"] and h[0] != o and (mode == "EX" or h[2] == "EX"):
                self.v(f"S1: T{vt} (P{o[0]}) entered {mode} on {node['path']} while T{h[0][1]} (P{h[0][0]}) holds it {h[2]}")
        self.holders.append((o, node["path"], mode, id(node)))
        self.touch()
        self.check_kernel(vt, "enter")
        self.states.add(self.state_fp())

    def exit(self, vt, node):
        self.check_kernel(vt, "exit")
        o = self.owner(vt)
        for i in range(len(self.holders) - 1, -1, -1):
            if self.holders[i][0] == o and self.holders[i][3] == id(node):
                del self.holders[i]
                break
        self.pending[vt] = ("release", node)
        self.touch()

    def released(self, vt):
        self.pending.pop(vt, None)
        self.touch()
        self.states.add(self.state_fp())

    def check_kernel(self, vt, where):
        """S2: the kernel lock of each process on each path covers what its current holders need."""
        self.counts["S2_checks"] += 1
        need = {}
        for (vpid, _), path, mode, _ in self.holders:
            k = (vpid, path)
            need[k] = "EX" if mode == "EX" or need.get(k) == "EX" else "SH"
        for (vpid, path), m in need.items():
            have = self.run.kernel.locks.get(path, {}).get(vpid)
            if have is None:
                self.v(f"S2: at {where} of T{vt}: process P{vpid} has holders on {path} (need {m}) but holds no kernel lock "
                       f"(dropped by a close or never taken)")
            elif m == "EX" and have != "EX":
                self.v(f"S2: at {where} of T{vt}: process P{vpid} has an exclusive holder on {path} but its kernel lock is {have}")

    def state_fp(self):
        return (tuple(sorted((o, p, m) for o, p, m, _ in self.holders)),
                tuple(sorted((p, tuple(sorted(d.items()))) for p, d in self.run.kernel.locks.items() if d)))

    # ideal reader-writer lock
    def grantable(self, vt, node):
        o = self.owner(vt)
        mode = "SH" if node["shared"] else "EX"
        for h in self.holders:
            if h[1] == node["path"] and h[0] != o and (mode == "EX" or h[2] == "EX"):
                return False
        return True

    def conflicting_holder(self, vt, node):
        return not self.grantable(vt, node)


def execute(prog, chooser, max_steps=3000):
    from vp import sched

    run = sched.Run(chooser, max_steps)
    mon = Monitor(run)
    mods = {}
    for vpid in sorted({vpid for vpid, _ in prog}):
        mods[vpid] = sched.load_lock_instance(run, vpid)
    outcomes = {}

    def make(vt, vpid, ops):
        mod = mods[vpid]

        def run_ops(ops):
            for node in ops:
                run.in_lock_code[vt] = True
                mon.request(vt, node)
                entered = False
                try:
                    with mod.path_lock(node["path"], shared=node["shared"], blocking=node["blocking"], reentrant=node["reentrant"]):
                        run.in_lock_code[vt] = False
                        mon.enter(vt, node)
                        entered = True
                        try:
                            run.point("body")
                            run_ops(node["body"])
                            run.point("body-end")
                        finally:
                            if not run.abort:  # the unwinding at the end of a run is not a release
                                run.in_lock_code[vt] = True
                                mon.exit(vt, node)
                    run.in_lock_code[vt] = False
                    mon.released(vt)
                except mod.AcquiringLockWouldBlockError as e:
                    if not entered:
                        if node["blocking"]:
                            mon.v(f"S4: blocking request of T{vt} raised {type(e).__name__}")
                        elif not mon.contention.get(vt, False):
                            mon.v(f"S4: non-blocking request of T{vt} on {node['path']} raised {type(e).__name__} although at no "
                                  f"instant of the request a conflicting holder existed or another thread was inside lock code")
                    run.in_lock_code[vt] = False
                    mon.pending.pop(vt, None)
                    mon.touch()
                    outcomes.setdefault(vt, []).append("wouldblock")
                    if entered:
                        raise
                except mod.RecursiveDeadlockError:
                    if not entered:
                        o = mon.owner(vt)
                        if node["reentrant"] or not any(h[0] == o and h[1] == node["path"] for h in mon.holders):
                            mon.v(f"S3: RecursiveDeadlockError for T{vt} on {node['path']} although the request is reentrant or the thread does not hold the path")
                    run.in_lock_code[vt] = False
                    mon.pending.pop(vt, None)
                    mon.touch()
                    outcomes.setdefault(vt, []).append("recursive")
                    if entered:
                        raise
                except OSError as e:
                    # EDEADLK from the (simulated) kernel: a cross-process wait cycle, inherent to the program
                    run.in_lock_code[vt] = False
                    mon.pending.pop(vt, None)
                    mon.touch()
                    if getattr(e, "errno", None) != 35:
                        raise
                    outcomes.setdefault(vt, []).append("edeadlk")
                    mon.counts["kernel_EDEADLK_raised"] = mon.counts.get("kernel_EDEADLK_raised", 0) + 1

        return lambda: run_ops(ops)

    for vt, (vpid, ops) in enumerate(prog):
        run.spawn(vt, vpid, make(vt, vpid, ops))
    outcome = run.run()
    res = {"outcome": outcome, "violations": list(mon.violations), "choices": list(run.choices), "switches": run.switches,
           "states": mon.states, "counts": mon.counts, "inherent_deadlock": False, "errors": [], "run": run, "mon": mon}
    for vt, e in run.errors:
        if isinstance(e, OSError) and getattr(e, "errno", None) == 35:  # EDEADLK from the (simulated) kernel
            res["errors"].append("EDEADLK")
        else:
            res["violations"].append(f"T{vt} died with {type(e).__name__}: {e}")
    if outcome == "deadlock":
        blocked = run.blocked_at_end
        grant = []
        hang_recursive = []
        for vt in blocked:
            p = mon.pending.get(vt)
            if p and p[0] == "acquire":
                node = p[1]
                o = mon.owner(vt)
                holds = any(h[0] == o and h[1] == node["path"] for h in mon.holders)
                if holds and not node["reentrant"]:
                    hang_recursive.append(vt)
                elif mon.grantable(vt, node):
                    grant.append((vt, node))
        acquirers = [vt for vt in blocked if mon.pending.get(vt, ("", 0))[0] == "acquire"]
        if hang_recursive:
            res["violations"].append(f"S3: non-reentrant recursive request of T{hang_recursive[0]} hangs instead of raising")
        elif grant:
            vt, node = grant[0]
            res["violations"].append(
                f"deadlock: T{vt} is blocked requesting {'SH' if node['shared'] else 'EX'} on {node['path']} although every conflicting "
                f"holder has released (holders now: {sorted((o, p, m) for o, p, m, _ in mon.holders)}) - lost wake-up")
            res["lost_wakeup_upgrader"] = any(h[0] == mon.owner(vt) and h[1] == node["path"] and h[2] == "SH" for h in mon.holders) and not node["shared"]
        elif not acquirers:
            res["violations"].append(f"deadlock with no blocked acquire: threads {sorted(blocked)} are stuck while releasing")
        else:
            res["inherent_deadlock"] = True
    elif outcome == "done":
        # S5
        res["counts"]["S5_checks"] = 1
        for vpid, mod in mods.items():
            for poolname in ("_thread_level_lock_ref", "_process_level_lock_ref", "_fd_ref"):
                refs = getattr(mod, poolname)._refs
                if refs:
                    res["violations"].append(f"S5: {poolname} of P{vpid} not empty at the end: {list(refs)}")
        if run.kernel.fds:
            res["violations"].append(f"S5: descriptors left open: {sorted(run.kernel.fds)}")
        if any(run.kernel.locks.values()):
            res["violations"].append(f"S5: kernel locks left: {run.kernel.locks}")
        if mon.holders:
            res["violations"].append(f"S5: holders left: {mon.holders}")
    elif outcome in ("steplimit", "watchdog"):
        res["inconclusive"] = outcome
    return res


def chooser_random(seed):
    r = random.Random(seed)
    return lambda ready, step: r.randrange(len(ready))


def chooser_pct(seed, nthreads, d=3, k=300):
    """PCT-style: random thread priorities, d-1 priority change points."""
    r = random.Random(seed)
    prio = list(range(nthreads))
    r.shuffle(prio)
    change = sorted(r.randrange(k) for _ in range(d - 1))

    def ch(ready, step):
        if step in change:
            v = r.choice(ready)
            prio[v] = min(prio) - 1
        best = max(ready, key=lambda v: prio[v])
        return ready.index(best)

    return ch


def chooser_replay(choices):
    return lambda ready, step: choices[step] if step < len(choices) else 0


def run_case(rng, idx, tier):
    if idx >= N_SCHED[tier]:
        return run_real_case(rng, idx - N_SCHED[tier], tier)
    c = Case()
    prog = gen_program(rng, idx)
    text = render(prog)
    c.sample = {"program": text}
    c.fp = fp_of(text)
    S = (150 if idx % 8 == 5 else 60 if idx % 8 <= 4 else 40) if tier == "quick" else (400 if idx % 8 == 5 else 250)
    contended = {}
    for vpid, ops in prog:
        def paths(ops, acc):
            for n in ops:
                acc.add(n["path"])
                paths(n["body"], acc)
        acc = set()
        paths(ops, acc)
        for p in acc:
            contended[p] = contended.get(p, 0) + 1
    interleavings = set()
    inherent = 0
    for s in range(S):
        seed = rng.getrandbits(48)
        ch = chooser_random(seed) if s % 3 else chooser_pct(seed, len(prog))
        res = execute(prog, ch)
        c.hit("runs")
        for k, v in res["counts"].items():
            c.hit(k, v)
        interleavings.add(tuple(res["choices"]))
        for st in res["states"]:
            c.states.append(fp_of(st))
        if res["errors"]:
            c.hit("kernel_EDEADLK_raised")
        if res.get("inconclusive"):
            c.hit("run_inconclusive:" + res["inconclusive"])
        if res["inherent_deadlock"]:
            inherent += 1
            c.hit("inherent_deadlocks")
        if res["violations"]:
            key = None
            if res.get("lost_wakeup_upgrader") and all("lost wake-up" in v for v in res["violations"]):
                key = "C15/upgrader-lost-wakeup"
            c.violate(key, res["violations"][0], {"program": text, "choices": res["choices"], "all": res["violations"][:5]})
            break
    c.hit("distinct_interleavings", len(interleavings))
    c.nontrivial = max(contended.values()) >= 2 and len(interleavings) >= 5
    c.states = list(set(c.states))[:500]
    return c


# ---------------------------------------------------------------------------------------------- real-kernel stress tier
# Real processes and threads run the real lock.py (real threading / fcntl / os) on real files.  The programs are drawn
# from families that are deadlock-free by construction under ANY correct reader-writer lock (paths nested in the order
# a < b only, same-path nesting never upgrades except for at most ONE upgrader thread in the whole program), so the
# tier decides the safety monitors (S1 exclusion on recorded in-body intervals, S2 kernel lock present / exclusive as
# listed by /proc/locks while a holder is inside, S3, S4 blocking-raises, S5 bookkeeping + descriptors + kernel locks
# at the end).  A run that does not finish is INCONCLUSIVE here (wall clock is no verdict); lost wake-ups are decided by
# the controlled scheduler above, on logical state.
def gen_real_program(rng, ridx):
    fam = ridx % 6
    a, b = "a", "b"
    ids = [0]

    def N(path, sh, bl=True, re=False, body=None):
        ids[0] += 1
        return {"path": path, "shared": sh, "blocking": bl, "reentrant": re, "body": body or [], "id": ids[0]}

    def simple(path=None, p_sh=0.6):
        return N(path or a, rng.random() < p_sh)

    procs = []
    if fam == 0:  # readers and writers of one file in two or three processes
        for _ in range(rng.randint(2, 3)):
            procs.append([[simple() for _ in range(rng.randint(1, 3))] for _ in range(rng.randint(1, 3))])
    elif fam == 1:  # ordered nesting a -> b and same-path reentrant nesting without upgrade
        def nest():
            k = rng.randrange(4)
            if k == 0:
                return N(a, rng.random() < 0.5, True, False, [N(b, rng.random() < 0.5)])
            if k == 1:
                return N(a, False, True, True, [N(a, rng.random() < 0.5, True, True)])
            if k == 2:
                return N(a, True, True, True, [N(a, True, True, True)])
            return N(b, rng.random() < 0.5)
        for _ in range(2):
            procs.append([[nest() for _ in range(rng.randint(1, 2))] for _ in range(rng.randint(1, 3))])
    elif fam == 2:  # exactly one upgrader against readers / writers everywhere
        procs.append([[N(a, True, True, True, [N(a, False, True, True)])], [simple()], [simple()][: rng.randint(0, 1)]])
        procs.append([[simple() for _ in range(rng.randint(1, 2))] for _ in range(rng.randint(1, 2))])
        procs[0] = [t for t in procs[0] if t]
    elif fam == 3:  # non-blocking probes (never wait, so any nesting is deadlock-free) against blocking holders
        def probe():
            k = rng.randrange(3)
            if k == 0:
                return N(a, rng.random() < 0.5, False, rng.random() < 0.5)
            if k == 1:
                return N(a, True, True, True, [N(a, False, False, True)])
            return N(a, rng.random() < 0.5, True, False, [N(a, rng.random() < 0.5, False, False)])
        for _ in range(2):
            procs.append([[probe() if rng.random() < 0.7 else simple() for _ in range(rng.randint(1, 2))] for _ in range(rng.randint(1, 3))])
    elif fam == 4:  # pool churn: readers of one process come and go against a foreign writer / reader
        procs.append([[N(a, True) for _ in range(rng.randint(1, 2))] for _ in range(rng.randint(2, 4))])
        procs.append([[N(a, rng.random() < 0.3, rng.random() < 0.7)]])
    else:  # exclusive with a reentrant stack below it (upgrade / downgrade paths of the process lock), two files
        def stack(path, depth):
            # a stack that STARTS exclusive never waits below its first request, whatever follows
            if depth == 0:
                return []
            return [N(path, rng.random() < 0.5, True, True, stack(path, depth - 1))] + ([N(path, rng.random() < 0.5, True, True)] if rng.random() < 0.3 else [])

        def t():
            k = rng.randrange(4)
            if k == 0:
                return N(a, False, True, True, [N(a, True, True, True), N(b, rng.random() < 0.5)])
            if k == 1:
                return N(b, False, True, True, [N(b, True, True, True)])
            if k == 2:
                return N(a, False, True, True, stack(a, rng.randint(1, 3)))
            return simple(rng.choice([a, b]))
        for _ in range(rng.randint(2, 3)):
            procs.append([[t()] for _ in range(rng.randint(1, 3))])
    return procs


def render_real(procs):
    def r(n):
        s = f"{'sh' if n['shared'] else 'ex'}({n['path']}{'' if n['blocking'] else ',nb'}{',re' if n['reentrant'] else ''})"
        if n["body"]:
            s += "{" + " ".join(r(x) for x in n["body"]) + "}"
        return s
    return [f"P{pi}.T{ti}: " + " ; ".join(r(n) for n in ops) for pi, thr in enumerate(procs) for ti, ops in enumerate(thr)]


def analyse_real(outs):
    """Offline checker over the merged event log of all processes."""
    ev = []
    for o in outs:
        ev.extend(tuple(e) for e in o["events"])
    # exits before enters at equal time stamps (conservative for overlap)
    order = {"exit": 0, "request": 1, "wouldblock": 1, "recursive": 1, "edeadlk": 1, "enter": 2}
    ev.sort(key=lambda e: (e[0], order[e[3]]))
    active = []  # (owner, path, mode, node, round)
    viol = []
    states = set()
    stats = Counter()
    pending = {}
    for t, proc, ti, kind, path, mode, node, rnd in ev:
        owner = (proc, ti)
        if kind == "request":
            pending[(owner, node, rnd)] = any(h[1] == path and h[0] != owner and (mode == "EX" or h[2] == "EX") for h in active)
        elif kind == "enter":
            stats["S1_checks"] += 1
            for h in active:
                if h[1] == path and h[0] != owner and (mode == "EX" or h[2] == "EX"):
                    viol.append(f"S1: P{proc}.T{ti} was inside {mode} on {path} while P{h[0][0]}.T{h[0][1]} was inside {h[2]} "
                                f"(recorded in-body intervals overlap)")
            others = [h for h in active if h[1] == path and h[0] != owner]
            if others:
                stats["shared_overlaps_cross_process" if any(h[0][0] != proc for h in others) else "shared_overlaps_same_process"] += 1
            if pending.pop((owner, node, rnd), False):
                stats["granted_after_conflicting_holder_seen"] += 1
            active.append((owner, path, mode, node, rnd))
            states.add(tuple(sorted((h[0][0], h[1], h[2]) for h in active)))
        elif kind == "exit":
            for i in range(len(active) - 1, -1, -1):
                if active[i][0] == owner and active[i][3] == node and active[i][4] == rnd:
                    del active[i]
                    break
        else:
            pending.pop((owner, node, rnd), None)
            stats["real_" + kind] += 1
    return viol, states, stats


def run_real_case(rng, ridx, tier):
    import json as _json
    import os
    import shutil
    import subprocess
    import sys
    import tempfile
    import time

    from vp import sched

    c = Case()
    procs = gen_real_program(rng, ridx)
    text = render_real(procs)
    c.sample = {"real_program": text}
    c.fp = fp_of("real", text)
    wd = tempfile.mkdtemp(prefix="vp-c15-real-")
    try:
        names = {"a": os.path.join(wd, "a.lock"), "b": os.path.join(wd, "b.lock")}
        for p in names.values():
            open(p, "w").close()

        def conc(ops):
            return [dict(n, path=names[n["path"]], body=conc(n["body"])) for n in ops]

        seed = rng.getrandbits(48)
        rounds = 20 if tier == "quick" else 40
        start = time.monotonic_ns() + int(0.6e9)
        child = os.path.join(os.path.dirname(os.path.dirname(os.path.abspath(__file__))), "realrun_child.py")
        ps = []
        for pi, thr in enumerate(procs):
            spec = {"lock_py": sched._lock_py(), "proc": pi, "threads": [conc(ops) for ops in thr], "rounds": rounds, "seed": seed,
                    "start_at_ns": start, "p_yield": rng.choice([0.0, 0.02, 0.08, 0.2]), "deadline_s": 40}
            p = subprocess.Popen([sys.executable, "-W", "ignore", child], stdin=subprocess.PIPE, stdout=subprocess.PIPE,
                                 stderr=subprocess.PIPE, text=True, env=dict(os.environ, PYTHONPATH=""))
            p.stdin.write(_json.dumps(spec))
            p.stdin.close()
            p.stdin = None
            ps.append(p)
        outs = []
        bad = None
        for p in ps:
            try:
                txt, err = p.communicate(timeout=120)
                outs.append(_json.loads(txt))
            except Exception as e:  # noqa
                bad = f"{type(e).__name__}: {str(e)[:100]}"
                for q in ps:
                    if q.poll() is None:
                        q.kill()
                break
        if bad:
            c.skipped = "real-run-child-failed"
            c.sample["child_error"] = bad
            return c
        c.hit("real_runs")
        hung = [(o_i, o["hung"], o["state"]) for o_i, o in enumerate(outs) if o["hung"]]
        viol, states, stats = analyse_real(outs)
        for k, v in stats.items():
            c.hit("real_" + k if not k.startswith("real_") else k, v)
        for o in outs:
            c.hit("real_S2_checks", o["s2"]["checks"])
            c.hit("real_S2_unreadable", o["s2"]["unreadable"])
            c.hit("real_S2_rereads", o["s2"].get("rereads", 0))
            c.hit("real_yields_injected", o["counters"].get("yields", 0))
            c.hit("real_line_events", o["counters"].get("line_events", 0))
            c.hit("real_enter_events", o["counters"].get("entered", 0))
            viol.extend(o["s2"]["violations"][:3])
            viol.extend(o["errors"][:3])
            if not hung:
                c.hit("real_S5_checks")
                viol.extend(o["s5"])
        for st in states:
            c.states.append(fp_of("real", st))
        if viol:
            c.violate(None, "real kernel: " + viol[0], {"real_program": text, "all": viol[:6], "seed": seed})
        elif hung:
            c.skipped = "real-run-did-not-finish"
            c.sample["hung"] = hung
            c.hit("real_run_hung")
        c.nontrivial = stats.get("granted_after_conflicting_holder_seen", 0) > 0 or stats.get("shared_overlaps_cross_process", 0) > 0
    finally:
        shutil.rmtree(wd, ignore_errors=True)
    return c
