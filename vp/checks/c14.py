"""C14 Dataset derivations agree with record-by-record event semantics.

Every case is one small generated event dataset (vp.gen.datasets) attached to a real pharmpy Model.  Each data
derivation of pharmpy.modeling is called on the real model and judged against explicit per-individual loops over
the generated records (the generator's own record kinds are the ground truth).  Column-adding functions are
additionally judged by a frame-preservation monitor, and every call by an input-unchanged monitor (deep snapshot
of the input model's DataFrame before/after).
"""
from __future__ import annotations

from collections import Counter

from vp.farm import Case, fp_of
from vp.gen import datasets as D

PROP = "C14"
LEVEL = "exploration"
RULE = (
    "generated event datasets: 1-6 individuals (non-contiguous, optionally unsorted ids), 1-8 records each (5% of the "
    "datasets: one individual with 18-30 records) on a 0.5 h "
    "grid with dose/observation ties in both orders, ADDL/II (overlapping later doses), SS, EVID 0-4 incl. resets with "
    "restarting clock, one or two routes (CMT / admid column), optional MDV/EVID/CMT/RATE/ADDL/II/SS columns, renamed "
    "id/idv/dv/dose columns, integer or float columns, dropped decoy columns, shuffled column order; attached to "
    "create_basic_pk_model iv/oral/ivoral(+transits). Stratified: 40% clean, 45% clean + one construct with a "
    "(suspected) finding, 15% several. Distinct by (structural model, columns, record kinds, times, ADDL/II/SS/CMT); "
    "non-trivial = has >= 1 dose and >= 1 observation, >= 4 records, and at least one of: dose/obs tie, ADDL, SS, "
    "reset, two routes, EVID 2, renamed id column, unsorted ids, >= 3 individuals"
)
ASSUMPTIONS = [
    "records are written by NM-TRAN conventions: EVID 0 obs/1 dose/2 other/3 reset/4 reset+dose, MDV=1 on every "
    "non-observation, AMT>0 exactly on dose records; the generator's record kind is the ground truth",
    "observation = MDV==0 if an mdv column exists, else EVID==0, else AMT==0 (datainfo type table)",
    "get_doseid tie rule from its docstring (observation at the time of a dose -> previous dose; a steady-state dose "
    "keeps the group, per the code comment and DESIGN guard); ties with several doses, with the first dose of an "
    "individual, of non-observation records, and clock values that coincide with a dose on the other side of a reset "
    "are not judged (docs silent) - only that the answer for an individual does not depend on where the individual "
    "stands in the file",
    "time after dose = time since the most recent explicit or implied (ADDL/II) dose in the same reset segment; records "
    "before the first dose / after a reset without dose are only judged for TAD >= 0",
    "'the modeling functions always return a copy of the model object' (docs/modeling.rst) => the input model's "
    "DataFrame must be unchanged after every call",
    "order of ids in get_ids, order of rows in get_baselines, dtypes/names of returned series are not judged",
    "compartment numbers and admids of the structural models are read once in setup() and cross-checked",
]
MIN_NONTRIVIAL = {"quick": 1500, "thorough": 30000}
REQUIRED_MONITORS = [
    "ids", "observations", "observations_keep_index", "n_observations", "n_observations_per_individual", "doses",
    "mdv", "evid", "doseid", "doseid_tie_rule", "tad_values", "tad_nonneg", "tad_zero_at_dose", "tad_frame",
    "tad_addl", "expand_frame", "expand_amount", "expand_records", "admid", "cmt", "add_admid_frame",
    "add_cmt_frame", "baselines", "covariate_baselines", "time_varying", "input_unchanged", "convert_nonmem_input",
    "doseid_position_independence", "expand_chronology", "admid_extracted", "cmt_extracted",
]

BASES = {}


def n_cases(tier):
    return 3000 if tier == "quick" else 60000


def setup(tier):
    import pharmpy.model  # noqa
    import pharmpy.modeling as pm

    BASES["iv"] = pm.create_basic_pk_model("iv")
    BASES["oral"] = pm.create_basic_pk_model("oral")
    BASES["ivoral"] = pm.create_basic_pk_model("ivoral")
    BASES["ivoral_transit"] = pm.set_transit_compartments(BASES["ivoral"], 2)
    for k, info in D.BASE_INFO.items():
        cs = BASES[k].statements.ode_system
        names = list(cs.compartment_names)
        dosing = {names.index(c.name) + 1: c.doses[0].admid for c in cs.dosing_compartments}
        central = names.index(cs.central_compartment.name) + 1
        if names != info["names"] or dosing != info["dosing"] or central != info["central"]:
            raise RuntimeError(f"BASE_INFO[{k}] does not describe the structural model: {names} {dosing} {central}")


# ------------------------------------------------------------------------------------------------------------
class Collector:
    def __init__(self):
        self.hits = Counter()
        self.viol = []  # (derivation, tag, message, detail)

    def hit(self, name, n=1):
        self.hits[name] += n

    def v(self, deriv, tag, msg, detail=None):
        self.viol.append((deriv, tag, msg, detail))

    def has(self, deriv, tagprefix):
        return any(d == deriv and t.startswith(tagprefix) for d, t, _, _ in self.viol)


def _same(a, b):
    """Cell equality with NaN == NaN; numeric 1 == 1.0."""
    if a is None or b is None:
        return a is b
    try:
        if a != a and b != b:
            return True
    except Exception:
        pass
    try:
        return bool(a == b)
    except Exception:
        return False


def _close(a, b):
    try:
        return abs(float(a) - float(b)) <= 1e-9 * max(1.0, abs(float(a)), abs(float(b)))
    except Exception:
        return False


def _lst(x):
    return [y.item() if hasattr(y, "item") else y for y in list(x)]


def _order_tags(ids0, rec0, rec2_orig):
    """Which kind of reordering happened: the blocks of individuals and/or the records inside an individual.
    ids0/rec0: id and record key of the input rows; rec2_orig: record keys of the same records in output order."""
    id_of = dict(zip(rec0, ids0))
    blocks0, blocks2 = [], []
    for r in rec0:
        if id_of[r] not in blocks0:
            blocks0.append(id_of[r])
    for r in rec2_orig:
        if id_of[r] not in blocks2:
            blocks2.append(id_of[r])
    tags = []
    if blocks0 != blocks2:
        tags.append("order:individuals")
    for subj in blocks0:
        if [r for r in rec0 if id_of[r] == subj] != [r for r in rec2_orig if id_of[r] == subj]:
            tags.append("order:within-individual")
            break
    return tags or ["order:interleaved"]


class Evaluator:
    """Runs the derivations of one spec and records hits / violations in a Collector."""

    def __init__(self, spec, col: Collector):
        self.spec = spec
        self.v = D.View(spec)
        self.c = col
        self.df0 = D.build_frame(spec)
        self.di = D.build_datainfo(spec)
        self.base = BASES[spec["base"]]

    # -------------------------------------------------------------- plumbing
    def model(self):
        d = self.df0.copy(deep=True)
        return self.base.replace(dataset=d, datainfo=self.di), d

    def frame_diff(self, d):
        """Differences between frame d and the pristine frame (None if identical)."""
        import numpy as np

        df0 = self.df0
        if list(d.columns) != list(df0.columns):
            added = [x for x in d.columns if x not in df0.columns]
            removed = [x for x in df0.columns if x not in d.columns]
            return {"columns": list(map(str, d.columns)), "added": added, "removed": removed}
        if len(d) != len(df0) or list(d.index) != list(df0.index):
            return {"index": _lst(d.index)}
        for name in df0.columns:
            if d[name].dtype != df0[name].dtype:
                return {"dtype": {name: str(d[name].dtype)}}
            if not np.array_equal(d[name].to_numpy(), df0[name].to_numpy(), equal_nan=True):
                return {"values": {name: _lst(d[name])}}
        return None

    def call(self, deriv, fn, refusal=None):
        """Returns (result, exception, input model).  Judges the input-unchanged monitor."""
        m, d = self.model()
        res = exc = None
        try:
            res = fn(m)
        except Exception as e:  # judged by the caller
            exc = e
        self.c.hit("input_unchanged")
        diff = self.frame_diff(d)
        if diff is not None:
            only_added = bool(diff.get("added")) and not diff.get("removed")
            if only_added:
                # everything else identical?
                sub = d[list(self.df0.columns)]
                only_added = self.frame_diff(sub) is None
            self.c.v(deriv, "inplace:added-column" if only_added else "inplace:other",
                     f"{deriv}: the input model's DataFrame was modified in place: {diff}", diff)
        if exc is not None and refusal is not None and type(exc).__name__ == refusal:
            return None, exc, m
        if exc is not None:
            self.c.v(deriv, "raised:" + type(exc).__name__, f"{deriv} raised {type(exc).__name__}: {str(exc)[:200]}")
        return res, exc, m

    # -------------------------------------------------------------- derivations
    def run(self, only=None):
        for name in DERIVATIONS:
            if only is None or name in only:
                getattr(self, "d_" + name)()

    def d_ids(self):
        import pharmpy.modeling as pm

        v, c = self.v, self.c
        exp = [i for i, _ in v.individuals()]
        res, exc, _ = self.call("ids", pm.get_ids)
        if exc is None:
            c.hit("ids")
            if not isinstance(res, list) or any(type(x) is not int for x in res):
                c.v("ids", "type", f"get_ids returned {res!r}, documented list[int]")
            elif sorted(res) != sorted(int(x) for x in exp):
                c.v("ids", "value", f"get_ids = {res}, the records have ids {exp}")
        res, exc, _ = self.call("ids", pm.get_number_of_individuals)
        if exc is None:
            c.hit("n_individuals")
            if res != len(exp):
                c.v("ids", "value", f"get_number_of_individuals = {res}, the records have {len(exp)} individuals")

    def d_observations(self):
        import pandas as pd
        import pharmpy.modeling as pm

        v, c = self.v, self.c
        ids, times, dv = v.ids(), v.times(), v.rolecol("dv")
        obs = [i for i in range(v.n) if v.is_obs(i)]
        exp = [(ids[i], times[i], dv[i]) for i in obs]

        res, exc, _ = self.call("observations", pm.get_observations)
        if exc is None:
            c.hit("observations")
            if not isinstance(res, pd.Series):
                c.v("observations", "scalar" if len(obs) == 1 else "type",
                    f"get_observations returned {type(res).__name__} ({res!r}) for {len(obs)} observation(s), "
                    f"documented pd.Series")
            else:
                got = [(k[0], k[1], x) if isinstance(k, tuple) else (k, None, x)
                       for k, x in zip(_lst(res.index), _lst(res))]
                if len(got) != len(exp) or any(not (_same(a[0], b[0]) and _same(a[1], b[1]) and _same(a[2], b[2]))
                                               for a, b in zip(got, exp)):
                    c.v("observations", "value", f"get_observations = {got}, record walk gives {exp}")
        res, exc, _ = self.call("observations", lambda m: pm.get_observations(m, keep_index=True))
        if exc is None:
            c.hit("observations_keep_index")
            if not isinstance(res, pd.Series):
                c.v("observations", "type", f"get_observations(keep_index=True) returned {type(res).__name__}")
            else:
                got = list(zip(_lst(res.index), _lst(res)))
                e2 = [(i, dv[i]) for i in obs]
                if len(got) != len(e2) or any(not (_same(a[0], b[0]) and _same(a[1], b[1])) for a, b in zip(got, e2)):
                    c.v("observations", "value", f"get_observations(keep_index=True) = {got}, record walk gives {e2}")
        res, exc, _ = self.call("nobs", pm.get_number_of_observations)
        if exc is None:
            c.hit("n_observations")
            if res != len(obs):
                c.v("nobs", "value", f"get_number_of_observations = {res}, record walk counts {len(obs)}")
        res, exc, _ = self.call("nobs", pm.get_number_of_observations_per_individual)
        if exc is None:
            c.hit("n_observations_per_individual")
            cnt = {}
            for i in obs:
                cnt[ids[i]] = cnt.get(ids[i], 0) + 1
            if not isinstance(res, pd.Series):
                c.v("nobs", "type", f"get_number_of_observations_per_individual returned {type(res).__name__}")
            else:
                got = dict(zip(_lst(res.index), _lst(res)))
                bad = [k for k in cnt if not _same(got.get(k), cnt[k])]
                bad += [k for k in got if k not in cnt and got[k] != 0]
                if bad or len(got) != len(res):
                    c.v("nobs", "value", f"observations per individual = {got}, record walk counts {cnt}")
                if any(i not in cnt for i, _ in v.individuals()):
                    c.hit("not_judged:individual-without-observations")

    def d_doses(self):
        import pandas as pd
        import pharmpy.modeling as pm

        v, c = self.v, self.c
        if not v.has("dose"):
            res, exc, _ = self.call("doses", pm.get_doses, refusal="DatasetError")
            if exc is not None and type(exc).__name__ == "DatasetError":
                c.hit("doses_refusal")
            elif exc is None:
                c.hit("not_judged:get_doses-without-dose-column")
            return
        ids, times, amt = v.ids(), v.times(), v.rolecol("dose")
        doses = [i for i in range(v.n) if v.is_dose(i)]
        exp = [(ids[i], times[i], amt[i]) for i in doses]
        res, exc, _ = self.call("doses", pm.get_doses)
        if exc is None:
            c.hit("doses")
            if not isinstance(res, pd.Series):
                c.v("doses", "scalar" if len(doses) == 1 else "type",
                    f"get_doses returned {type(res).__name__} ({res!r}) for {len(doses)} dose record(s), documented pd.Series")
            else:
                got = [(k[0], k[1], x) if isinstance(k, tuple) else (k, None, x)
                       for k, x in zip(_lst(res.index), _lst(res))]
                if len(got) != len(exp) or any(not (_same(a[0], b[0]) and _same(a[1], b[1]) and _same(a[2], b[2]))
                                               for a, b in zip(got, exp)):
                    c.v("doses", "value", f"get_doses = {got}, record walk gives {exp}")

    def d_mdv(self):
        import pandas as pd
        import pharmpy.modeling as pm

        v, c = self.v, self.c
        exp = [0 if v.is_obs(i) else 1 for i in range(v.n)]
        res, exc, _ = self.call("mdv", pm.get_mdv)
        if exc is None:
            c.hit("mdv")
            if not isinstance(res, pd.Series) or len(res) != v.n:
                c.v("mdv", "type", f"get_mdv returned {type(res).__name__} of length {getattr(res, 'size', None)}")
            elif _lst(res) != exp:
                c.v("mdv", "value", f"get_mdv = {_lst(res)}, record walk gives {exp}")
        res, exc, _ = self.call("evid", pm.get_evid)
        if exc is None:
            c.hit("evid")
            if not isinstance(res, pd.Series) or len(res) != v.n:
                c.v("evid", "type", f"get_evid returned {type(res).__name__} of length {getattr(res, 'size', None)}")
            else:
                got = _lst(res)
                if v.has("event"):
                    e2 = v.rolecol("event")
                    bad = [i for i in range(v.n) if not _same(got[i], e2[i])]
                else:
                    bad = []
                    nj = 0
                    for i in range(v.n):
                        if v.is_obs(i):
                            if got[i] != 0:
                                bad.append(i)
                        elif v.is_dose(i):
                            if got[i] != 1:
                                bad.append(i)
                        else:
                            nj += 1
                    if nj:
                        c.hit("not_judged:created-evid-of-non-dose-non-observation", nj)
                if bad:
                    c.v("evid", "value", f"get_evid = {got} differs from the records at rows {bad}")

    def pharmpy_doseid(self, spec):
        import pharmpy.modeling as pm

        df = D.build_frame(spec)
        m = BASES[spec["base"]].replace(dataset=df, datainfo=D.build_datainfo(spec))
        return _lst(pm.get_doseid(m))

    def d_doseid(self):
        import pandas as pd
        import pharmpy.modeling as pm

        v, c = self.v, self.c
        if not v.has("dose"):
            res, exc, _ = self.call("doseid", pm.get_doseid, refusal="DatasetError")
            if exc is not None and type(exc).__name__ == "DatasetError":
                c.hit("doseid_refusal")
            return
        res, exc, _ = self.call("doseid", pm.get_doseid)
        if exc is not None:
            return
        if not isinstance(res, pd.Series) or len(res) != v.n:
            c.v("doseid", "type", f"get_doseid returned {type(res).__name__} of length {getattr(res, 'size', None)}")
            return
        got = _lst(res)
        ref = D.ref_doseid(v)
        c.hit("doseid")
        bad = []
        for i in range(v.n):
            e, why = ref[i]
            if e is None:
                c.hit("not_judged:doseid:" + why)
                continue
            if why.startswith("tie"):
                c.hit("doseid_tie_rule")
            if got[i] != e:
                bad.append((i, got[i], e, why))
        if bad:
            c.v("doseid", "value", "get_doseid differs from the record walk at (row, got, expected, situation): "
                f"{bad}; full result {got}", bad)
        # an individual's dose periods cannot depend on where the individual stands in the file
        first_tie = sorted({v.ids()[i] for i in range(v.n) if ref[i][1] == "tie-with-first-dose"})
        for subj in first_tie:
            sub, keep = D.neutral_single_individual(self.spec, subj)
            try:
                alone = self.pharmpy_doseid(sub)
            except Exception:
                c.hit("not_judged:doseid-alone-raised")
                continue
            c.hit("doseid_position_independence")
            here = [got[i] for i in keep]
            if alone != here:
                rows = [keep[k] for k in range(len(keep)) if alone[k] != here[k]]
                first_dose = next(i for i in keep if v.is_dose(i))
                times = v.times()
                tied = all(i > first_dose and times[i] == times[first_dose] and not v.is_dose(i) for i in rows)
                tag = "position:first-tie" if tied else "position:other"
                c.v("doseid", tag, f"get_doseid of individual {subj} is {here} inside the dataset but {alone} when the "
                    f"same records are the whole dataset (rows {rows})", rows)

    # ---- frame preservation for column-adding functions
    def preserved(self, deriv, df2, newcols, rowmap=None, monitor=None):
        """df2 must contain every column of the input with identical cells, dtypes and order, plus newcols."""
        c = self.c
        df0 = self.df0
        ok = True
        if list(df2.columns) != list(df0.columns) + list(newcols):
            c.v(deriv, "columns", f"{deriv}: columns {list(map(str, df2.columns))}, expected "
                f"{list(df0.columns) + list(newcols)}")
            ok = False
        if rowmap is None:
            if len(df2) != len(df0):
                c.v(deriv, "records", f"{deriv}: {len(df2)} records, input has {len(df0)}")
                return False
            if list(df2.index) != list(df0.index):
                c.v(deriv, "index", f"{deriv}: index {_lst(df2.index)} differs from the input's")
                ok = False
            rowmap = list(range(len(df0)))
        changed = {name: f"{df0[name].dtype} -> {df2[name].dtype}" for name in df0.columns
                   if name in df2.columns and df2[name].dtype != df0[name].dtype}
        if changed:
            c.v(deriv, "dtype", f"{deriv}: existing columns changed dtype: {changed}")
            ok = False
        for name in df0.columns:
            if name not in df2.columns:
                continue
            a = _lst(df0[name])
            b = _lst(df2[name])
            bad = [i for i in range(len(a)) if not _same(a[i], b[rowmap[i]])]
            if bad:
                c.v(deriv, "value", f"{deriv}: column {name} changed at input rows {bad}: {[b[rowmap[i]] for i in bad]} "
                    f"was {[a[i] for i in bad]}")
                ok = False
        if monitor:
            c.hit(monitor)
        return ok

    def d_tad(self):
        import pharmpy.modeling as pm

        v, c = self.v, self.c
        if not v.has("dose"):
            res, exc, _ = self.call("tad", pm.add_time_after_dose, refusal="DatasetError")
            if exc is not None and type(exc).__name__ == "DatasetError":
                c.hit("tad_refusal")
            return
        res, exc, m = self.call("tad", pm.add_time_after_dose)
        if exc is not None:
            return
        df2 = res.dataset
        if "TAD" not in df2.columns:
            c.v("tad", "columns", f"add_time_after_dose: no TAD column in {list(df2.columns)}")
            return
        rec0 = _lst(self.df0["REC"])
        rec2 = _lst(df2["REC"])
        if sorted(rec0) != sorted(rec2):
            c.v("tad", "records", f"add_time_after_dose: records {rec2} are not the input records {rec0}")
            return
        if rec0 != rec2:
            for tag in _order_tags(v.ids(), rec0, rec2):
                c.v("tad", tag, f"add_time_after_dose changed the record order ({tag[6:]}): REC {rec2}, input {rec0}")
        rowmap = [rec2.index(r) for r in rec0]
        self.preserved("tad", df2, ["TAD"], rowmap=rowmap, monitor="tad_frame")
        # datainfo keeps the roles and describes the new column
        try:
            di2 = res.datainfo
            c.hit("tad_datainfo")
            if di2["TAD"].descriptor != "time after dose":
                c.v("tad", "datainfo", "add_time_after_dose: TAD column lacks the descriptor 'time after dose'")
            for col in self.spec["columns"]:
                if di2[col["name"]].type != col["type"] or di2[col["name"]].drop != col["drop"]:
                    c.v("tad", "datainfo", f"add_time_after_dose changed the datainfo of column {col['name']}")
        except Exception as e:
            c.v("tad", "datainfo", f"datainfo of the result is unusable: {type(e).__name__}: {e}")
        tad = _lst(df2["TAD"])
        ref = D.ref_tad(v)
        has_addl = any(e[1] > 0 for e in D.dose_events(v))
        neg, nz, bad = [], [], []
        for i in range(v.n):
            g = tad[rowmap[i]]
            c.hit("tad_nonneg")
            if not (g >= -1e-12):
                neg.append((i, g, ref[i][1]))
            e, why = ref[i]
            if v.is_dose(i):
                c.hit("tad_zero_at_dose")
                if not _close(g, 0.0):
                    nz.append((i, g))
                continue
            if e is None:
                c.hit("not_judged:tad:" + why)
                continue
            c.hit("tad_values")
            if has_addl:
                c.hit("tad_addl")
            if not _close(g, e):
                bad.append((i, g, e, why))
        if neg:
            seg, ids_ = v.segments(), v.ids()
            # every negative value sits after a reset of the clock and before the first dose record of that segment
            after_reset = all(seg[i] > 0 and not any(v.is_dose(j) and ids_[j] == ids_[i] and seg[j] == seg[i]
                                                     for j in range(i)) for i, _, _ in neg)
            c.v("tad", "negative:after-reset" if after_reset else "negative:other",
                f"add_time_after_dose: negative TAD at (row, TAD, situation) {neg}; TAD = {tad}", neg)
        if nz:
            c.v("tad", "nonzero-at-dose", f"add_time_after_dose: TAD is not 0 at dose records (row, TAD) {nz}", nz)
        if bad:
            c.v("tad", "tadvalue", "add_time_after_dose differs from the record walk at (row, got, expected, situation): "
                f"{bad}", bad)

    def d_expand(self):
        import pharmpy.modeling as pm

        v, c = self.v, self.c
        if not (v.has("additional") and v.has("ii") and v.has("dose")):
            res, exc, m = self.call("expand", pm.expand_additional_doses)
            if exc is None:
                c.hit("expand_noop")
                if self.frame_diff(res.dataset) is not None:
                    c.v("expand", "value", "expand_additional_doses changed a dataset without ADDL/II columns")
            return
        idn, tn, an = v.role["id"], v.role["idv"], v.role["dose"]
        addln, iin = v.role["additional"], v.role["ii"]
        rec0 = _lst(self.df0["REC"])
        t0 = v.times()
        exp_new = sorted((rec0[i], t) for i, t in D.ref_expand(v))
        total = D.ref_total_amount(v)
        for flag in (True, False):
            deriv = "expand"
            res, exc, m = self.call(deriv, lambda mm: pm.expand_additional_doses(mm, flag=flag))
            if exc is not None:
                continue
            df2 = res.dataset
            cols_exp = list(self.df0.columns) + ["EXPANDED"] if flag else [x for x in self.df0.columns
                                                                           if x not in (addln, iin)]
            if list(df2.columns) != cols_exp:
                c.v(deriv, "columns", f"expand_additional_doses(flag={flag}): columns {list(map(str, df2.columns))}, "
                    f"expected {cols_exp}")
                continue
            rec2 = _lst(df2["REC"])
            tt2 = _lst(df2[tn])
            if flag:
                is_new = [bool(x) for x in _lst(df2["EXPANDED"])]
            else:
                # an implied dose lies strictly after its originating record (II > 0)
                is_new = [not _same(tt2[p], t0[rec0.index(rec2[p])]) if rec2[p] in rec0 else True
                          for p in range(len(rec2))]
            orig_pos = [p for p in range(len(rec2)) if not is_new[p]]
            c.hit("expand_records")
            if sorted(rec2[p] for p in orig_pos) != sorted(rec0):
                c.v(deriv, "records", f"expand_additional_doses(flag={flag}): original records {rec0} became "
                    f"{[rec2[p] for p in orig_pos]} (+ {sum(is_new)} implied)")
                continue
            if [rec2[p] for p in orig_pos] != rec0:
                for tag in _order_tags(v.ids(), rec0, [rec2[p] for p in orig_pos]):
                    c.v(deriv, tag, f"expand_additional_doses(flag={flag}) changed the order of the original records "
                        f"({tag[6:]}): REC {[rec2[p] for p in orig_pos]}, input {rec0}")
            rowmap = [next(p for p in orig_pos if rec2[p] == r) for r in rec0]
            # original records cell by cell
            c.hit("expand_frame")
            for name in self.df0.columns:
                if name not in df2.columns:
                    continue
                a, b = _lst(self.df0[name]), _lst(df2[name])
                badrows = [i for i in range(len(a)) if not _same(a[i], b[rowmap[i]])]
                if badrows:
                    c.v(deriv, "value", f"expand_additional_doses(flag={flag}): column {name} of original records "
                        f"changed at input rows {badrows}")
                if df2[name].dtype != self.df0[name].dtype:
                    c.hit("note:expand-dtype-changed")
            # implied records
            got_new = sorted((rec2[p], tt2[p]) for p in range(len(rec2)) if is_new[p])
            if len(got_new) != len(exp_new) or any(a[0] != b[0] or not _close(a[1], b[1])
                                                   for a, b in zip(got_new, exp_new)):
                c.v(deriv, "expansion", f"expand_additional_doses(flag={flag}): implied dose records (REC of origin, "
                    f"time) {got_new}, ADDL/II give {exp_new}")
            else:
                amt2, id2 = _lst(df2[an]), _lst(df2[idn])
                amt0, id0 = v.rolecol("dose"), v.ids()
                for p in range(len(rec2)):
                    if is_new[p]:
                        o = rec0.index(rec2[p])
                        if not _same(amt2[p], amt0[o]) or not _same(id2[p], id0[o]):
                            c.v(deriv, "expansion", f"expand_additional_doses(flag={flag}): implied record at row {p} has "
                                f"id/amount {id2[p]}/{amt2[p]}, origin {id0[o]}/{amt0[o]}")
                            break
            c.hit("expand_amount")
            tot2 = sum(_lst(df2[an]))
            if not _close(tot2, total):
                c.v(deriv, "amount", f"expand_additional_doses(flag={flag}): total amount {tot2}, sum AMT*(ADDL+1) = {total}")
            # every individual stays one contiguous block and time does not run backwards within a reset segment
            c.hit("expand_chronology")
            id2 = _lst(df2[idn])
            ev2 = _lst(df2[v.role["event"]]) if v.has("event") else [0] * len(id2)
            seen, cur, last_t, problem = [], None, None, None
            for p in range(len(id2)):
                if id2[p] != cur:
                    if id2[p] in seen:
                        problem = f"individual {id2[p]} is split at row {p}"
                        break
                    seen.append(id2[p])
                    cur, last_t = id2[p], None
                if ev2[p] >= 3:
                    last_t = None
                if last_t is not None and tt2[p] < last_t:
                    problem = f"time runs backwards at row {p} ({last_t} -> {tt2[p]})"
                    break
                last_t = tt2[p]
            if problem:
                c.v(deriv, "chronology", f"expand_additional_doses(flag={flag}): {problem}; ids {id2}, times {tt2}")

    def _new_column(self, deriv, fn, newname, newtype, ref, monitor):
        v, c = self.v, self.c
        res, exc, m = self.call(deriv, fn)
        if exc is not None:
            return
        df2 = res.dataset
        if newname not in df2.columns:
            c.v(deriv, "columns", f"{deriv}: no {newname} column in {list(map(str, df2.columns))}")
            return
        if not self.preserved(deriv, df2, [newname], monitor=monitor):
            return
        try:
            if res.datainfo[newname].type != newtype:
                c.v(deriv, "datainfo", f"{deriv}: column {newname} has datainfo type {res.datainfo[newname].type}")
        except Exception as e:
            c.v(deriv, "datainfo", f"{deriv}: datainfo unusable: {type(e).__name__}: {e}")
        self._judge_per_record(deriv, _lst(df2[newname]), ref, monitor.replace("_frame", "_values"))

    def _judge_per_record(self, deriv, got, ref, monitor):
        v, c = self.v, self.c
        bad = []
        for i in range(v.n):
            e, why = ref[i]
            if e is None:
                c.hit(f"not_judged:{deriv}:{why}")
                continue
            c.hit(monitor)
            if not _same(got[i], e):
                bad.append((i, got[i], e, why, v.kinds[i]))
        if bad:
            c.v(deriv, "value", f"{deriv} differs from the record walk at (row, got, expected, situation, kind): {bad}",
                bad)

    def _individual_independence(self, deriv, fn, full):
        """A per-individual derivation: what it gives for the records of one individual must not depend on the records of
        another individual - computed on the dataset of that individual alone it must give the same values (this also
        judges the records the reference walk leaves open, e.g. those before an individual's first dose)."""
        v, c = self.v, self.c
        inds = list(v.individuals())
        if len(inds) < 2:
            return
        m, d = self.model()
        for _, idxs in inds[1:]:
            try:
                sub = d.iloc[idxs].reset_index(drop=True).copy()
                alone = _lst(fn(m.replace(dataset=sub)))
            except Exception:
                c.hit(f"{deriv}_alone_refused")
                continue
            c.hit(f"{deriv}_individual_independence")
            whole = [full[i] for i in idxs]
            if len(alone) != len(whole) or not all(_same(a, b) for a, b in zip(alone, whole)):
                c.v(deriv, "value", f"{deriv} of the records {idxs} of one individual is {whole} within the dataset but {alone} for that "
                                    f"individual alone: it depends on another individual's records")
                return

    def _dropped_typed(self, typ):
        return any(col["drop"] and col["type"] == typ for col in self.spec["columns"])

    def d_admid(self):
        import pandas as pd
        import pharmpy.modeling as pm

        v, c = self.v, self.c
        if v.has("admid"):
            res, exc, _ = self.call("admid", pm.get_admid)
            if exc is None:
                c.hit("admid_extracted")
                if not isinstance(res, pd.Series) or not all(_same(a, b) for a, b in zip(_lst(res), v.rolecol("admid"))) \
                        or len(res) != v.n:
                    c.v("admid", "value", f"get_admid = {_lst(res)}, the admid column holds {v.rolecol('admid')}")
            res, exc, _ = self.call("add_admid", pm.add_admid)
            if exc is None:
                c.hit("add_admid_noop")
                if self.frame_diff(res.dataset) is not None:
                    c.v("add_admid", "value", "add_admid changed a dataset that already has an admid column")
            return
        ref = D.ref_admid(v)
        res, exc, _ = self.call("admid", pm.get_admid)
        if exc is None:
            if not isinstance(res, pd.Series) or len(res) != v.n:
                c.v("admid", "type", f"get_admid returned {type(res).__name__} of length {getattr(res, 'size', None)}")
            else:
                self._judge_per_record("admid", _lst(res), ref, "admid")
                self._individual_independence("admid", pm.get_admid, _lst(res))
        if self._dropped_typed("admid"):
            c.hit("not_judged:add_admid-with-dropped-admid-column")
            return
        self._new_column("add_admid", pm.add_admid, "ADMID", "admid", ref, "add_admid_frame")

    def d_cmt(self):
        import pandas as pd
        import pharmpy.modeling as pm

        v, c = self.v, self.c
        if v.has("compartment"):
            res, exc, _ = self.call("cmt", pm.get_cmt)
            if exc is None:
                c.hit("cmt_extracted")
                if not isinstance(res, pd.Series) or len(res) != v.n or \
                        not all(_same(a, b) for a, b in zip(_lst(res), v.rolecol("compartment"))):
                    c.v("cmt", "value", f"get_cmt = {_lst(res)}, the compartment column holds {v.rolecol('compartment')}")
            res, exc, _ = self.call("add_cmt", pm.add_cmt)
            if exc is None:
                c.hit("add_cmt_noop")
                if self.frame_diff(res.dataset) is not None:
                    c.v("add_cmt", "value", "add_cmt changed a dataset that already has a compartment column")
            return
        ref = D.ref_cmt(v)
        res, exc, _ = self.call("cmt", pm.get_cmt)
        if exc is None:
            if not isinstance(res, pd.Series) or len(res) != v.n:
                c.v("cmt", "type", f"get_cmt returned {type(res).__name__} of length {getattr(res, 'size', None)}")
            else:
                self._judge_per_record("cmt", _lst(res), ref, "cmt")
        if self._dropped_typed("compartment") or "CMT" in self.df0.columns:
            c.hit("not_judged:add_cmt-with-dropped-compartment-column")
            return
        self._new_column("add_cmt", pm.add_cmt, "CMT", "compartment", ref, "add_cmt_frame")

    def d_baselines(self):
        import pandas as pd
        import pharmpy.modeling as pm

        v, c = self.v, self.c
        inds = v.individuals()
        idn = v.role["id"]

        def judge(deriv, res, cols, monitor):
            if not isinstance(res, pd.DataFrame):
                c.v(deriv, "type", f"{deriv} returned {type(res).__name__}")
                return
            c.hit(monitor)
            idx = _lst(res.index)
            if sorted(idx) != sorted(i for i, _ in inds):
                c.v(deriv, "value", f"{deriv}: index {idx}, individuals {[i for i, _ in inds]}")
                return
            if sorted(map(str, res.columns)) != sorted(cols):
                c.v(deriv, "columns", f"{deriv}: columns {list(map(str, res.columns))}, expected {cols}")
                return
            for subj, rows in inds:
                p = idx.index(subj)
                for name in cols:
                    e = v.col(name)[rows[0]]
                    g = _lst(res[name])[p]
                    if not _same(g, e):
                        c.v(deriv, "value", f"{deriv}: individual {subj} column {name} = {g}, first record has {e}")
                        return

        res, exc, _ = self.call("baselines", pm.get_baselines)
        if exc is None:
            judge("baselines", res, [x for x in v.colnames if x != idn], "baselines")
        if not v.covariates:
            res, exc, _ = self.call("cov_baselines", pm.get_covariate_baselines, refusal="IndexError")
            c.hit("not_judged:covariate-baselines-without-covariates")
        else:
            res, exc, _ = self.call("cov_baselines", pm.get_covariate_baselines)
            if exc is None:
                judge("cov_baselines", res, list(v.covariates), "covariate_baselines")
        res, exc, _ = self.call("time_varying", pm.list_time_varying_covariates)
        if exc is None:
            ref = D.ref_time_varying(v)
            c.hit("time_varying")
            if not isinstance(res, list) or len(set(res)) != len(res):
                c.v("time_varying", "type", f"list_time_varying_covariates returned {res!r}")
            else:
                for name, e in ref.items():
                    if e is None:
                        c.hit("not_judged:time-varying-decided-by-missing-values")
                    elif (name in res) != e:
                        c.v("time_varying", "value", f"list_time_varying_covariates = {res}; record walk: {name} "
                            f"{'varies' if e else 'is constant'} within individuals ({ref})")
                extra = [x for x in res if x not in ref]
                if extra:
                    c.v("time_varying", "value", f"list_time_varying_covariates lists non-covariates {extra}")

    def d_nonmem(self):
        """convert_model -> NONMEM adds a CMT column for two routes: the generic input model must stay untouched."""
        if "nonmem" not in self.spec.get("constructs", ()) or self.v.has("compartment"):
            return
        import pharmpy.modeling as pm

        m, d = self.model()
        try:
            pm.convert_model(m, "nonmem")
        except Exception as e:
            self.c.hit("not_judged:convert_model-raised:" + type(e).__name__)
        self.c.hit("convert_nonmem_input")
        diff = self.frame_diff(d)
        if diff is not None:
            only_added = bool(diff.get("added")) and not diff.get("removed") and \
                self.frame_diff(d[list(self.df0.columns)]) is None
            self.c.v("nonmem", "inplace:added-column" if only_added else "inplace:other",
                     f"convert_model(model, 'nonmem'): the input model's DataFrame was modified in place: {diff}", diff)


DERIVATIONS = ["ids", "observations", "doses", "mdv", "doseid", "tad", "expand", "admid", "cmt", "baselines", "nonmem"]


def evaluate(spec, only=None):
    col = Collector()
    Evaluator(spec, col).run(only)
    return col


# ------------------------------------------------------------------------------------------------------------
# attribution of a violation to a mechanism (delta checks on semantically equivalent datasets)
# ------------------------------------------------------------------------------------------------------------
def _gone(spec2, deriv, tagprefix):
    only = {"nobs": {"observations"}, "evid": {"mdv"}, "add_admid": {"admid"}, "add_cmt": {"cmt"},
            "cov_baselines": {"baselines"}, "time_varying": {"baselines"}}.get(deriv, {deriv})
    try:
        col = evaluate(spec2, only=only)
    except Exception:
        return False
    return not col.has(deriv, tagprefix)


def classify(spec, deriv, tag, msg, hit):
    v = D.View(spec)
    idname = v.role["id"]
    n_obs = sum(1 for k in spec["kinds"] if k == "obs")
    n_dose = sum(1 for k in spec["kinds"] if k in ("dose", "rdose"))
    ids_present = [i for i, _ in v.individuals()]
    if tag == "inplace:added-column" and deriv in ("add_cmt", "add_admid", "nonmem") and \
            ("'added': ['CMT']" in msg or "'added': ['ADMID']" in msg):
        return "C14/inplace-dataset-column"
    if tag == "raised:KeyError" and idname != "ID":
        hit("delta_check")
        if _gone(D.neutral_idname(spec), deriv, "raised:KeyError"):
            return "C14/hardcoded-id-column"
    if tag == "scalar" and ((deriv == "observations" and n_obs == 1) or (deriv == "doses" and n_dose == 1)):
        return "C14/squeeze-single-row"
    if deriv == "nobs" and tag in ("raised:TypeError", "raised:AttributeError") and n_obs == 1:
        return "C14/squeeze-single-row"
    if tag in ("order:individuals", "chronology") and deriv in ("tad", "expand") and ids_present != sorted(ids_present):
        hit("delta_check")
        if _gone(D.neutral_sorted_ids(spec), deriv, tag):
            return "C14/groupby-reorders-unsorted-ids"
    if tag == "order:within-individual" and deriv == "tad":
        hit("delta_check")
        if _gone(D.neutral_untie(spec), deriv, tag):
            return "C14/tad-moves-tied-record-before-dose"
    if deriv == "time_varying" and tag == "raised:IndexError" and not v.covariates:
        return "C14/no-covariates-indexerror"
    if deriv in ("cmt", "add_cmt") and tag == "raised:UnboundLocalError" and v.has("admid") \
            and not v.has("compartment") and v.info["central"] not in v.info["dosing"]:
        return "C14/get-cmt-central-number-unbound"
    if v.n == 1 and tag in ("raised:TypeError", "raised:AttributeError") and "numpy.float64" in msg:
        return "C14/squeeze-single-row"
    if deriv in ("admid", "add_admid") and tag == "value" and "rdose" in spec["kinds"]:
        hit("delta_check")
        if _gone(D.neutral_evid4(spec), deriv, "value"):
            return "C14/admid-evid4-not-a-dose"
    if tag == "dtype" and deriv == "tad" and any(c["dtype"] != "float64" for c in spec["columns"]):
        hit("delta_check")
        if _gone(D.neutral_float(spec), deriv, "dtype"):
            return "C14/row-apply-upcasts-int-columns"
    if deriv == "doseid" and tag == "position:first-tie":
        return "C14/doseid-first-row-special-case"
    if deriv in ("doseid", "tad") and tag in ("value", "tadvalue", "position:other") and max(v.segments()) > 0:
        # a clock value that occurs on both sides of a reset (both readings of "same time point" give the expected
        # value, see ref_doseid): either the 'row label 0' special case fires for a later tie of the first individual,
        # or the tie adjustment is applied once per reset group that has the clock value more than once
        hit("delta_check")
        if tag != "position:other" and _gone(D.neutral_prepend_individual(spec), deriv, tag):
            return "C14/doseid-first-row-special-case"
        if _gone(D.neutral_segment_times(spec), deriv, tag):
            return "C14/doseid-tie-adjusted-once-per-reset-group"
    if deriv == "tad" and tag.startswith("negative") and max(v.segments()) > 0:
        hit("delta_check")
        if _gone(D.neutral_segment_times(spec), deriv, "negative"):
            return "C14/tad-negative-after-reset"
    if idname != "ID" and "ID" in v.colnames and not tag.startswith("inplace"):
        # another column is called ID: the hard-coded name silently groups by the wrong column
        hit("delta_check")
        if _gone(D.neutral_idname(spec), deriv, tag):
            return "C14/hardcoded-id-column"
    return None


# ------------------------------------------------------------------------------------------------------------
def run_case(rng, idx, tier):
    c = Case()
    spec = D.gen_spec(rng, idx, tier)
    c.sample = D.render(spec)
    v = D.View(spec)
    struct = [spec["base"], [(x["name"], x["type"], x["dtype"], x["drop"]) for x in spec["columns"]], spec["kinds"],
              v.times(), v.ids()]
    for role in ("additional", "ii", "ss", "compartment", "admid"):
        if v.has(role):
            struct.append(v.rolecol(role))
    c.fp = fp_of(struct)
    f = set(spec["features"])
    n_obs = sum(1 for k in spec["kinds"] if k == "obs")
    n_dose = sum(1 for k in spec["kinds"] if k in ("dose", "rdose"))
    interesting = f & {"tie-dose-then-obs", "tie-obs-then-dose", "addl", "ss", "kind-reset", "kind-rdose", "two-routes",
                       "kind-other", "id-not-ID", "ids-unsorted"} or len(v.individuals()) >= 3
    c.nontrivial = bool(n_obs >= 1 and n_dose >= 1 and v.n >= 4 and interesting)
    c.hit("profile:" + spec["profile"])
    for feat in spec["features"]:
        c.hit("feature:" + feat)

    col = evaluate(spec)
    for k, n in col.hits.items():
        c.hit(k, n)
    unclassified = False
    for deriv, tag, msg, detail in col.viol:
        key = classify(spec, deriv, tag, msg, c.hit)
        unclassified = unclassified or key is None
        c.violate(key, msg, {"derivation": deriv, "symptom": tag, "detail": detail})
    if tier != "quick" and idx % 10 and not unclassified:
        # keep the merged log of the thorough tier small; --replay regenerates the dataset from (seed, idx)
        c.sample = {k: c.sample[k] for k in ("base", "profile", "constructs", "columns", "kinds", "features")}
    return c


def extra_coverage(recs, tier):
    """Violation counts by mechanism key and by (derivation, symptom): the farm prints only the largest groups."""
    by_key = Counter()
    by_symptom = Counter()
    cases_by_key = {}
    for r in recs:
        for v in r["violations"]:
            k = str(v["key"])
            by_key[k] += 1
            d = v.get("detail") or {}
            by_symptom[f"{k} {d.get('derivation')}:{d.get('symptom')}"] += 1
            cases_by_key.setdefault(k, set()).add(r["idx"])
    return {
        "violations_by_key": dict(sorted(by_key.items())),
        "violating_cases_by_key": {k: len(v) for k, v in sorted(cases_by_key.items())},
        "violations_by_key_and_symptom": dict(sorted(by_symptom.items())),
    }
