"""C10 Statement dataflow analyses are sound.

Reference: a sequential-store interpreter (vp.ir_eval.run_statements) and an exact data-flow closure over
last-definition-before-use edges, both written here without pharmpy's own analyses.
"""
from __future__ import annotations

import math

from vp.farm import Case, fp_of

PROP = "C10"
LEVEL = "exploration"
RULE = (
    "random straight-line programs (<=12 statements, 8 assignable + 5 free symbols, redefinitions, "
    "self references, free symbols assigned later, piecewise, optional compartmental system); a case is "
    "distinct by the printed program and non-trivial if it has >=4 statements and at least one of: a symbol "
    "assigned twice, a free symbol assigned later, a piecewise, an ODE system"
)
ASSUMPTIONS = [
    "'can depend on' is the syntactic data-flow closure over reaching definitions",
    "numeric agreement 1e-9 relative at 3 random environments; singular points are redrawn",
    "fixed-to-zero parameters are not generated (remove_unused_parameters_and_rvs keeps them by design)",
]
MIN_NONTRIVIAL = {"quick": 300, "thorough": 3000}
REQUIRED_MONITORS = ["full_expression", "dependencies", "remove_symbol_definitions", "remove_symbol_definitions_removed_something", "reassign", "subs",
                     "find_assignment", "remove_unused"]

ASSIGNABLE = ["A", "B", "C", "D", "E", "G", "H", "S"]
FREE = ["P1", "P2", "P3", "X1", "S"]  # S: a data-column-like symbol that may be assigned later


def n_cases(tier):
    return 4000 if tier == "quick" else 100000


def setup(tier):
    import pharmpy.model  # noqa
    import pharmpy.modeling  # noqa


# ------------------------------------------------------------------ generator
def gen_expr(rng, avail, depth=0):
    import sympy

    r = rng.random()
    if depth >= 2 or r < 0.3:
        if rng.random() < 0.15:
            return sympy.Integer(rng.choice([1, 2, 3]))
        return sympy.Symbol(rng.choice(avail))
    a = gen_expr(rng, avail, depth + 1)
    b = gen_expr(rng, avail, depth + 1)
    op = rng.choice(["+", "*", "-", "/", "exp", "pw", "+", "*"])
    if op == "+":
        return a + b
    if op == "*":
        return a * b
    if op == "-":
        return a - b
    if op == "/":
        return a / (1 + b**2)
    if op == "exp":
        return sympy.exp(a / 4)
    c = sympy.Symbol(rng.choice(avail))
    thr = sympy.Rational(rng.choice([1, 2, 3]), 2)
    return sympy.Piecewise((a, c > thr), (b, True))


def gen_program(rng):
    """Returns list of ('assign', name, sympy expr) / ('ode', spec)."""
    n = rng.randint(2, 12)
    prog = []
    assigned = []
    with_ode = rng.random() < 0.3
    ode_at = rng.randint(1, n - 1) if with_ode and n >= 3 else None
    ode_done = False
    for i in range(n):
        if ode_at is not None and i == ode_at and assigned:
            k = rng.choice(assigned)
            v = rng.choice([a for a in assigned + ["P1"] if a != k])
            spec = {"k": k, "v": v, "two": rng.random() < 0.4,
                    "q": rng.choice(assigned + ["P2"])}
            # everything else through which the ODE system reads symbols: lag time, bioavailability, a zero-order
            # input and several doses (infusion rate / duration) on the dosing compartment
            pick = lambda: rng.choice(assigned + ["P1", "P2"])  # noqa: E731
            if rng.random() < 0.5:
                spec["lag"] = pick() if rng.random() < 0.5 else None
                spec["bio"] = pick() if rng.random() < 0.5 else None
                spec["inp"] = pick() if rng.random() < 0.3 else None
                doses = []
                for admid in range(1, rng.randint(1, 3) + 1):
                    kind = rng.choice(["bolus", "rate", "dur"])
                    doses.append([kind, None if kind == "bolus" else pick(), admid])
                rng.shuffle(doses)
                spec["doses"] = doses
            prog.append(("ode", spec))
            ode_done = True
            continue
        avail = list(dict.fromkeys(assigned + FREE))
        if ode_done and rng.random() < 0.5:
            avail = avail + ["A_CENTRAL(t)"]
        # lhs: bias towards re-assignment sometimes
        if assigned and rng.random() < 0.25:
            lhs = rng.choice(assigned)
        else:
            lhs = rng.choice(ASSIGNABLE)
        e = gen_expr_with_amounts(rng, avail)
        if rng.random() < 0.15 and lhs in assigned:
            import sympy

            e = sympy.Symbol(lhs) + e  # self reference X = X + ...
        prog.append(("assign", lhs, e))
        if lhs not in assigned:
            assigned.append(lhs)
    return prog


def gen_expr_with_amounts(rng, avail):
    import sympy

    names = [a for a in avail if "(" not in a]
    e = gen_expr(rng, names)
    if len(names) != len(avail) and rng.random() < 0.7:
        t = sympy.Symbol("t")
        e = e + sympy.Function("A_CENTRAL")(t)
    return e


def build(prog):
    from pharmpy.model import (Assignment, Bolus, Compartment, CompartmentalSystem,
                               CompartmentalSystemBuilder, Statements, output)
    import sympy

    stmts = []
    for p in prog:
        if p[0] == "assign":
            stmts.append(Assignment.create(sympy.Symbol(p[1]), p[2]))
        else:
            spec = p[1]
            cb = CompartmentalSystemBuilder()
            sym = sympy.Symbol
            if "doses" in spec:
                from pharmpy.model import Infusion

                ds = []
                for kind, name, admid in spec["doses"]:
                    if kind == "bolus":
                        ds.append(Bolus.create("AMT", admid=admid))
                    elif kind == "rate":
                        ds.append(Infusion.create("AMT", admid=admid, rate=sym(name)))
                    else:
                        ds.append(Infusion.create("AMT", admid=admid, duration=sym(name)))
                kw = {}
                if spec.get("lag"):
                    kw["lag_time"] = sym(spec["lag"])
                if spec.get("bio"):
                    kw["bioavailability"] = sym(spec["bio"])
                if spec.get("inp"):
                    kw["input"] = sym(spec["inp"])
                central = Compartment.create("CENTRAL", doses=tuple(ds), **kw)
            else:
                central = Compartment.create("CENTRAL", doses=(Bolus.create("AMT"),))
            cb.add_compartment(central)
            cb.add_flow(central, output, sympy.Symbol(spec["k"]) / sympy.Symbol(spec["v"]))
            if spec["two"]:
                per = Compartment.create("PERIPHERAL")
                cb.add_compartment(per)
                cb.add_flow(central, per, sympy.Symbol(spec["q"]))
                cb.add_flow(per, central, sympy.Symbol("P3"))
            stmts.append(CompartmentalSystem(cb))
    return Statements(tuple(stmts))


def render(prog):
    out = []
    for p in prog:
        if p[0] == "assign":
            out.append(f"{p[1]} = {p[2]}")
        else:
            out.append(f"ODE {p[1]}")
    return out


# ------------------------------------------------------------------ reference analyses
def rhs_names(p):
    import sympy
    from sympy.core.function import AppliedUndef

    if p[0] == "assign":
        e = p[2]
        s = {x.name for x in e.free_symbols}
        s |= {str(f) for f in e.atoms(AppliedUndef)}
        return s
    spec = p[1]
    s = {spec["k"], spec["v"], "AMT", "t"}
    if spec["two"]:
        s |= {spec["q"], "P3"}
    for key in ("lag", "bio", "inp"):
        if spec.get(key):
            s.add(spec[key])
    for kind, name, admid in spec.get("doses", ()):
        if name:
            s.add(name)
    return s


def defines(p):
    if p[0] == "assign":
        return {p[1]}
    return {"A_CENTRAL(t)"} | ({"A_PERIPHERAL(t)"} if p[1]["two"] else set())


def ref_dependencies(prog, i):
    """Exact closure: free inputs (symbols with no earlier definition at their point of use) that can
    influence the value computed by statement i."""
    memo = {}

    def dep(i):
        if i in memo:
            return memo[i]
        res = set()
        for x in rhs_names(prog[i]):
            j = next((j for j in range(i - 1, -1, -1) if x in defines(prog[j])), None)
            if j is None:
                res.add(x)
            else:
                res |= dep(j)
        memo[i] = res
        return res

    return dep(i)


def make_env(rng, names):
    return {n: rng.uniform(0.3, 3.0) for n in names}


def close(a, b):
    return abs(a - b) <= 1e-9 * max(1.0, abs(a), abs(b))


def run_ref(prog, env, amounts):
    """Returns list of value computed at each statement (None for ode) and the final store."""
    from vp.ir_eval import ev

    store = dict(env)
    vals = []
    for p in prog:
        if p[0] == "assign":
            v = ev(p[2], store, funcs={k.split("(")[0]: v for k, v in amounts.items()} if _ode_before(prog, p) else {})
            store[p[1]] = v
            vals.append(v)
        else:
            vals.append(None)
    return vals, store


def _ode_before(prog, p):
    for q in prog:
        if q is p:
            return False
        if q[0] == "ode":
            return True
    return False


# ------------------------------------------------------------------ the case
def run_case(rng, idx, tier):
    import sympy
    from pharmpy.basic import Expr
    from pharmpy.model import Assignment, CompartmentalSystem, Statements
    from vp.ir_eval import EvalError, Unbound, ev

    c = Case()
    prog = gen_program(rng)
    text = render(prog)
    c.sample = text
    c.fp = fp_of(text)
    lhs_list = [p[1] for p in prog if p[0] == "assign"]
    twice = len(set(lhs_list)) != len(lhs_list)
    has_pw = any(p[0] == "assign" and p[2].has(sympy.Piecewise) for p in prog)
    has_ode = any(p[0] == "ode" for p in prog)
    # a free symbol assigned later: read at i without earlier def, defined at j > i
    shadow = False
    for i, p in enumerate(prog):
        for x in rhs_names(p):
            if not any(x in defines(prog[j]) for j in range(i)) and any(
                x in defines(prog[j]) for j in range(i + 1, len(prog))
            ):
                shadow = True
    c.nontrivial = len(prog) >= 4 and (twice or shadow or has_pw or has_ode)
    stmts = build(prog)
    # the expressions pharmpy actually holds (symengine may normalise differently from sympy): the reference
    # analyses work on these, converted back to sympy trees
    from vp.ir_eval import to_sympy
    prog = [("assign", p[1], to_sympy(s.expression)) if p[0] == "assign" else p for p, s in zip(prog, stmts)]
    all_names = set()
    for p in prog:
        all_names |= {n for n in rhs_names(p) if "(" not in n} | {d for d in defines(p) if "(" not in d}
    amounts = {"A_CENTRAL(t)": rng.uniform(0.5, 5), "A_PERIPHERAL(t)": rng.uniform(0.5, 5)}

    # environments (redraw on singularities)
    envs = []
    for _ in range(12):
        env = make_env(rng, all_names | set(FREE) | {"AMT", "t"})
        try:
            vals, store = run_ref(prog, env, amounts)
        except EvalError:
            c.hit("env_redrawn")
            continue
        envs.append((env, vals, store))
        if len(envs) == 3:
            break
    if not envs:
        c.skipped = "no-regular-environment"
        return c

    ode_idx = next((i for i, p in enumerate(prog) if p[0] == "ode"), None)

    # ---- M1 full_expression: value of each symbol at the end of its segment
    def check_full(segment_prog, segment_stmts, label, use_amounts):
        for name in sorted({p[1] for p in segment_prog if p[0] == "assign"}):
            try:
                fe = segment_stmts.full_expression(sympy.Symbol(name))
            except Exception as e:  # totality
                c.violate(None, f"full_expression({name}) raised {type(e).__name__}: {e}", text)
                continue
            for env, _, _ in envs:
                try:
                    _, st = run_ref(segment_prog, env, amounts if use_amounts else {})
                    funcs = {k.split("(")[0]: v for k, v in amounts.items()} if use_amounts else {}
                    got = ev(fe, env, funcs)
                except (EvalError, Unbound):
                    c.hit("full_expression_point_rejected")
                    continue
                c.hit("full_expression")
                if not close(got, st[name]):
                    c.violate(None, f"full_expression({name}) [{label}] = {fe} evaluates to {got}, sequential execution gives {st[name]}",
                              {"program": text, "env": env})
                    return

    if ode_idx is None:
        check_full(prog, stmts, "whole", False)
    else:
        check_full(prog[:ode_idx], stmts.before_odes, "before_odes", False)
        # after_odes: amounts are free functions; symbols from before the ODE are free inputs
        after = prog[ode_idx + 1:]
        try:
            check_full_after(c, after, stmts.after_odes, envs, amounts, text)
        except (EvalError, Unbound):
            c.hit("full_expression_point_rejected")
        try:
            stmts.full_expression(sympy.Symbol(lhs_list[0]))
            c.violate(None, "full_expression over an ODE system did not refuse", text)
        except ValueError:
            c.hit("full_expression_ode_refusal")
        except Exception as e:
            c.violate(None, f"full_expression over ODE raised {type(e).__name__}", text)

    # ---- M2 dependencies
    last_def = {}
    for i, p in enumerate(prog):
        for d in defines(p):
            last_def[d] = i
    for name, i in sorted(last_def.items()):
        ref = ref_dependencies(prog, i)
        try:
            if "(" in name:
                sym = sympy.Function(name.split("(")[0])(sympy.Symbol("t"))
            else:
                sym = sympy.Symbol(name)
            got = stmts.dependencies(sym)
            got_names = {str(g) for g in got}
        except Exception as e:
            c.violate(None, f"dependencies({name}) raised {type(e).__name__}: {e}", text)
            continue
        c.hit("dependencies")
        missing = ref - got_names
        if missing:
            key = "C10/deps-bfs-shadowed-free-symbol" if _is_shadow_miss(prog, missing) else None
            c.violate(key, f"dependencies({name}) = {sorted(got_names)} misses {sorted(missing)} (reference closure {sorted(ref)})", text)
        elif not twice and got_names != ref:
            c.hit("dependencies_exact_checked")
            c.violate(None, f"dependencies({name}) = {sorted(got_names)} != exact closure {sorted(ref)} although no symbol is assigned twice", text)
        elif not twice:
            c.hit("dependencies_exact_checked")
    # by statement object as well
    for i, p in enumerate(prog):
        if prog.count(p) > 1 or list(stmts).count(stmts[i]) > 1:
            continue
        try:
            got_names = {str(g) for g in stmts.dependencies(stmts[i])}
        except Exception as e:
            c.violate(None, f"dependencies(statement {i}) raised {type(e).__name__}: {e}", text)
            continue
        c.hit("dependencies_stmt")
        ref = ref_dependencies(prog, i)
        missing = ref - got_names
        if missing:
            key = "C10/deps-bfs-shadowed-free-symbol" if _is_shadow_miss(prog, missing) else None
            c.violate(key, f"dependencies(stmt {i}: {text[i]}) = {sorted(got_names)} misses {sorted(missing)}", text)

    # ---- M3 remove_symbol_definitions
    _check_remove_defs(c, rng, prog, envs, amounts, text)

    # ---- M4 reassign
    name = rng.choice(lhs_list)
    new_e = gen_expr(rng, FREE[:3])
    try:
        got = stmts.reassign(sympy.Symbol(name), new_e)
        idxs = [i for i, p in enumerate(prog) if p[0] == "assign" and p[1] == name]
        exp_prog = [p for i, p in enumerate(prog) if i not in idxs[:-1]]
        exp_prog = [("assign", name, new_e) if (p[0] == "assign" and p[1] == name) else p for p in exp_prog]
        exp = build(exp_prog)
        c.hit("reassign")
        if len(got) != len(exp) or any(
            not _same_stmt(a, b, envs) for a, b in zip(got, exp)
        ):
            c.violate(None, f"reassign({name}, {new_e}) gave {[repr(s) for s in got]} expected {render(exp_prog)}", text)
    except Exception as e:
        c.violate(None, f"reassign raised {type(e).__name__}: {e}", text)

    # ---- M5 subs (rename an assigned symbol to a fresh one; replace a free parameter by an expression)
    try:
        old = rng.choice(sorted(set(lhs_list)))
        ren = stmts.subs({sympy.Symbol(old): sympy.Symbol("ZZ9")})
        prog_ren = _rename_prog(prog, old, "ZZ9")
        for env, vals, store in envs:
            env2 = dict(env)
            env2["ZZ9"] = env.get(old, 1.0)
            vals2 = _exec_pharmpy(ren, env2, amounts)
            c.hit("subs")
            for a, b in zip(vals, vals2):
                if a is not None and not close(a, b):
                    c.violate(None, f"subs rename {old}->ZZ9 changed a statement value {a} -> {b}", {"program": text, "renamed": [repr(s) for s in ren]})
                    break
        # free parameter replaced by an expression over other free parameters
        rep = sympy.Symbol("P2") * 2 + sympy.Symbol("X1")
        sub2 = stmts.subs({sympy.Symbol("P1"): rep})
        for env, vals, store in envs:
            if "P1" in set(lhs_list):
                break
            env2 = dict(env)
            env2["P1"] = ev(rep, env)
            try:
                vals_ref, _ = run_ref(prog, env2, amounts)
                vals2 = _exec_pharmpy(sub2, env, amounts)
            except (EvalError, Unbound):
                continue
            c.hit("subs_expr")
            for a, b in zip(vals_ref, vals2):
                if a is not None and not close(a, b):
                    c.violate(None, f"subs P1->{rep} differs from evaluating with P1 bound to the expression: {a} vs {b}", text)
                    break
    except (EvalError, Unbound):
        c.hit("subs_point_rejected")
    except Exception as e:
        c.violate(None, f"subs raised {type(e).__name__}: {e}", text)

    # ---- M6 find_assignment / find_assignment_index
    for name in sorted(set(lhs_list)) + ["NOPE"]:
        try:
            fa = stmts.find_assignment(name)
            fi = stmts.find_assignment_index(sympy.Symbol(name))
        except Exception as e:
            c.violate(None, f"find_assignment({name}) raised {type(e).__name__}: {e}", text)
            continue
        c.hit("find_assignment")
        idxs = [i for i, p in enumerate(prog) if p[0] == "assign" and p[1] == name]
        if not idxs:
            if fa is not None or fi is not None:
                c.violate(None, f"find_assignment({name}) found something for an unassigned symbol", text)
        else:
            if fi != idxs[-1] or fa is not stmts[idxs[-1]]:
                c.violate(None, f"find_assignment({name}) index {fi}, expected last assignment {idxs[-1]}", text)

    # ---- M7 remove_unused_parameters_and_rvs on a model around the program
    _check_remove_unused(c, rng, prog, stmts, text)
    return c


def check_full_after(c, after, after_stmts, envs, amounts, text):
    import sympy
    from vp.ir_eval import ev

    funcs = {k.split("(")[0]: v for k, v in amounts.items()}
    for name in sorted({p[1] for p in after if p[0] == "assign"}):
        try:
            fe = after_stmts.full_expression(sympy.Symbol(name))
        except Exception as e:
            c.violate(None, f"after_odes.full_expression({name}) raised {type(e).__name__}: {e}", text)
            continue
        for env, _, _ in envs:
            store = dict(env)
            for p in after:
                store[p[1]] = ev(p[2], store, funcs)
            got = ev(fe, env, funcs)
            c.hit("full_expression")
            if not close(got, store[name]):
                c.violate(None, f"after_odes.full_expression({name}) = {fe} evaluates to {got}, sequential {store[name]}", text)
                return


def _is_shadow_miss(prog, missing):
    """The missed symbol is a free input at one use and assigned by a later statement."""
    for m in missing:
        if any(m in defines(p) for p in prog):
            return True
    return False


def _same_stmt(a, b, envs):
    """Same lhs and same expression (structurally, or - because create() folds nested piecewise and the plain
    constructor does not - numerically at the sampled environments)."""
    from pharmpy.model import Assignment
    from vp.ir_eval import EvalError, Unbound, ev

    if isinstance(a, Assignment) and isinstance(b, Assignment):
        if a.symbol != b.symbol:
            return False
        if a.expression == b.expression:
            return True
        for env, _, _ in envs:
            try:
                if not close(ev(a.expression, env, {"A_CENTRAL": 1.5, "A_PERIPHERAL": 2.5}),
                             ev(b.expression, env, {"A_CENTRAL": 1.5, "A_PERIPHERAL": 2.5})):
                    return False
            except (EvalError, Unbound):
                pass
        return True
    return a == b


def _rename_prog(prog, old, new):
    import sympy

    out = []
    for p in prog:
        if p[0] == "assign":
            out.append(("assign", new if p[1] == old else p[1], p[2].xreplace({sympy.Symbol(old): sympy.Symbol(new)})))
        else:
            spec = {k: (new if v == old else v) for k, v in p[1].items()}
            out.append(("ode", spec))
    return out


def _exec_pharmpy(stmts, env, amounts):
    """Sequentially execute pharmpy Statements with the independent evaluator; values per statement."""
    from pharmpy.model import Assignment
    from vp.ir_eval import ev

    store = dict(env)
    vals = []
    seen_ode = False
    funcs = {k.split("(")[0]: v for k, v in amounts.items()}
    for s in stmts:
        if isinstance(s, Assignment):
            v = ev(s.expression, store, funcs if seen_ode else {})
            store[s.symbol.name] = v
            vals.append(v)
        else:
            seen_ode = True
            vals.append(None)
    return vals


def _check_remove_defs(c, rng, prog, envs, amounts, text):
    """Edit statement k so that it no longer reads some symbols, then ask pharmpy to drop their definitions."""
    import sympy
    from vp.ir_eval import EvalError, Unbound

    cand = []
    for k, p in enumerate(prog):
        if p[0] != "assign":
            continue
        used = [x for x in rhs_names(p) if "(" not in x and any(x in defines(prog[j]) for j in range(k))]
        if used:
            cand.append((k, used))
    if not cand:
        return
    k, used = rng.choice(cand)
    syms = rng.sample(used, rng.randint(1, len(used)))
    new_e = prog[k][2].xreplace({sympy.Symbol(s): sympy.Integer(2) for s in syms})
    if prog[k][1] in syms:
        # the statement's own lhs among the removed symbols: X = X + .. -> X = 2 + ..; still a legal call
        pass
    prog2 = list(prog)
    prog2[k] = ("assign", prog[k][1], new_e)
    if prog2.count(prog2[k]) > 1:
        return  # .index(statement) would be ambiguous: outside the documented use
    stmts2 = build(prog2)
    if list(stmts2).count(stmts2[k]) > 1:
        return
    try:
        from pharmpy.basic import Expr

        res = stmts2.remove_symbol_definitions([Expr.symbol(s) for s in syms], stmts2[k])
    except Exception as e:
        c.violate(None, f"remove_symbol_definitions({syms}, stmt {k}) raised {type(e).__name__}: {e}", render(prog2))
        return
    c.hit("remove_symbol_definitions")
    # map kept statements to original indices (subsequence match)
    kept = []
    j = 0
    res_list = list(res)
    for i, s in enumerate(stmts2):
        if j < len(res_list) and res_list[j] is s:
            kept.append(i)
            j += 1
    if j != len(res_list):
        c.violate(None, "remove_symbol_definitions result is not a subsequence of the input statements", render(prog2))
        return
    removed = [i for i in range(len(prog2)) if i not in kept]
    if removed:
        c.hit("remove_symbol_definitions_removed_something", len(removed))
    # (a) no kept statement lost its reaching definition
    for i in kept:
        for x in rhs_names(prog2[i]):
            j = next((j for j in range(i - 1, -1, -1) if x in defines(prog2[j])), None)
            if j is not None and j in removed:
                c.violate(None, f"remove_symbol_definitions({syms}, stmt {k}) removed statement {j} ({render(prog2)[j]}) "
                                f"that remaining statement {i} ({render(prog2)[i]}) reads", render(prog2))
                return
    # the statement itself and everything after it that is not a definition of syms must be kept;
    # only definitions *before* k may go
    for i in removed:
        if i >= k:
            c.violate(None, f"remove_symbol_definitions removed statement {i} at/after the edited statement {k}", render(prog2))
            return
    # (b) values at kept statements unchanged
    prog3 = [prog2[i] for i in kept]
    for env, _, _ in envs:
        try:
            v2, _ = run_ref(prog2, env, amounts)
            v3, _ = run_ref(prog3, env, amounts)
        except (EvalError, Unbound):
            continue
        c.hit("remove_symbol_definitions_values")
        for pos, i in enumerate(kept):
            if v2[i] is not None and not close(v2[i], v3[pos]):
                c.violate(None, f"after remove_symbol_definitions the value of statement {i} changed {v2[i]} -> {v3[pos]}", render(prog2))
                return
    # (c) minimality in the simple case the docstring describes: a definition of a removed symbol that no
    # kept statement reads (directly or transitively) must be gone.  Only judged when nothing is assigned twice.
    lhs = [p[1] for p in prog2 if p[0] == "assign"]
    if len(set(lhs)) == len(lhs) and not any(p[0] == "ode" for p in prog2):
        needed = set()
        for i in range(len(prog2) - 1, -1, -1):
            if i >= k or i in needed or prog2[i][0] != "assign":
                if i >= k:
                    for x in rhs_names(prog2[i]):
                        j = next((j for j in range(i - 1, -1, -1) if x in defines(prog2[j])), None)
                        if j is not None:
                            needed.add(j)
                elif i in needed:
                    for x in rhs_names(prog2[i]):
                        j = next((j for j in range(i - 1, -1, -1) if x in defines(prog2[j])), None)
                        if j is not None:
                            needed.add(j)
        for s in syms:
            j = next((j for j in range(k - 1, -1, -1) if s in defines(prog2[j])), None)
            if j is not None and j not in needed and j in kept:
                c.hit("remove_symbol_definitions_kept_unneeded")
                # over-retention is not a soundness violation of the stated property; counted only


def _check_remove_unused(c, rng, prog, stmts, text):
    import sympy
    from pharmpy.model import (JointNormalDistribution, Model, NormalDistribution, Parameter,
                               Parameters, RandomVariables)
    from pharmpy.modeling import remove_unused_parameters_and_rvs

    used = set()
    for p in prog:
        used |= {n for n in rhs_names(p) if "(" not in n}
        used |= {d for d in defines(p) if "(" not in d}
    # parameters: P1..P3 (possibly used) + UNUSED1; etas: X1 as eta?  Use dedicated names
    pnames = ["P1", "P2", "P3", "PU1", "OM1", "OM2", "OM21", "OMU", "SIG"]
    params = Parameters.create([Parameter.create(n, init=0.5 if n != "OM21" else 0.01) for n in pnames])
    eta_joint = JointNormalDistribution.create(["X1", "ETAU"], "iiv", [0, 0], [["OM1", "OM21"], ["OM21", "OM2"]])
    eta_single = NormalDistribution.create("ETAS", "iiv", 0, "OMU")
    eps = NormalDistribution.create("EPSU", "ruv", 0, "SIG")
    rvs = RandomVariables.create([eta_joint, eta_single, eps])
    try:
        from pharmpy.model import DataInfo
        di = DataInfo.create(["S", "AMT"])
        model = Model.create(name="m", parameters=params, random_variables=rvs, statements=stmts, datainfo=di)
        res = remove_unused_parameters_and_rvs(model)
    except Exception as e:
        # Model.create may legitimately refuse statement lists using undefined symbols (t, AMT...)
        c.hit("remove_unused_refused:" + type(e).__name__)
        return
    c.hit("remove_unused")
    got_p = set(res.parameters.names)
    got_rv = set(res.random_variables.names)
    exp_rv = {n for n in ["X1", "ETAU", "ETAS", "EPSU"] if n in used}
    # parameters influencing a statement: directly used, or variance/covariance of a kept rv
    exp_p = {n for n in ["P1", "P2", "P3", "PU1"] if n in used}
    if "X1" in exp_rv:
        exp_p.add("OM1")
    if "ETAU" in exp_rv:
        exp_p.add("OM2")
    if {"X1", "ETAU"} <= exp_rv:
        exp_p.add("OM21")
    if "ETAS" in exp_rv:
        exp_p.add("OMU")
    if "EPSU" in exp_rv:
        exp_p.add("SIG")
    if got_rv != exp_rv:
        c.violate(None, f"remove_unused_parameters_and_rvs kept rvs {sorted(got_rv)}, the statements use {sorted(exp_rv)}", text)
    if got_p != exp_p:
        c.violate(None, f"remove_unused_parameters_and_rvs kept parameters {sorted(got_p)}, influencing ones are {sorted(exp_p)}", text)
