"""C04 Parameter and random-effect edits are written back exactly.

Layouts of $THETA/$OMEGA/$SIGMA come from the record generator (vp.gen.nmtran); after every edit the generated
text is read by (a) the independent record readers of vp.nmtran_ref and (b) pharmpy's own reader, and both must give
exactly the parameters / random-effect distributions of the in-memory model; tokens of untouched values must keep
their spelling.
"""
from __future__ import annotations

import math
import re

from vp.farm import Case, fp_of

PROP = "C04"
LEVEL = "exploration"
RULE = (
    "generated parameter-record layouts (values per record 1-3, (v)xn, FIX placement, bound forms, DIAGONAL/BLOCK/"
    "SAME, SD/CORR/CHOLESKY, values over several lines, name comments) x edit sequences (<= 4) over set init / bounds "
    "/ fix / unfix / add / remove theta, add/remove iiv, join/split etas, error-model changes; distinct by (layout "
    "text, applied edits); non-trivial when >= 1 edit was applied and both readers judged the result"
)
ASSUMPTIONS = [
    "record semantics per DESIGN.md Appendix A.3 (vp.nmtran_ref.parse_theta_records / parse_omega_records)",
    "inits compared to 1e-12 relative (pharmpy prints repr-precision floats), covariance entries to 1e-9",
    "spelling is only demanded for thetas no edit touched and whose (v)xn item no edit touched",
]
MIN_NONTRIVIAL = {"quick": 400, "thorough": 5000}
REQUIRED_MONITORS = ["ref_params", "reread_params", "reread_rvs", "spelling", "rv_record_text"]


def n_cases(tier):
    return 1500 if tier == "quick" else 30000


def setup(tier):
    import pharmpy.modeling  # noqa


# ---------------------------------------------------------------------------------------------- generation
def gen_layout(rng, strata=()):
    from vp.gen.nmtran import Gen, _error_line

    g = Gen(rng, strata)
    n_theta = rng.randint(2, 6)
    n_eta = rng.choice([1, 2, 3, 4, 4, 5, 5, 6])
    n_eps = rng.randint(1, 2)
    n_theta = max(n_theta, min(n_eta, 6))
    g.n_theta, g.n_eta, g.n_eps = n_theta, n_eta, n_eps
    theta_txt, tvals = g.theta_records(n_theta)
    # (v)xn is a known-finding construct: only with stratum 'xn'
    omega = g.omega_records(n_eta, "$OMEGA")
    sigma = g.omega_records(n_eps, "$SIGMA", allow_same=False)
    lines = []
    npar = max(n_eta, min(n_theta, n_eta + rng.randint(0, 2)))
    used_theta = 0
    for j in range(1, npar + 1):
        used_theta = min(j, n_theta)
        e = f"THETA({used_theta})"
        if j <= n_eta:
            lines.append(f"P{j} = {e}*EXP(ETA({j}))")
        else:
            lines.append(f"P{j} = {e}")
    rest = [f"THETA({k})" for k in range(used_theta + 1, n_theta + 1)]
    lines.append("S = " + (" + ".join(rest) if rest else "0.5"))
    lines.append("IPRED = " + " + ".join(f"P{j}" for j in range(1, npar + 1)) + " + S")
    lines.append(_error_line(rng, "IPRED", n_eps))
    text = "\n".join(["$PROBLEM c04", "$INPUT ID TIME AMT DV", "$DATA d.csv IGNORE=@", "$PRED"] + lines
                     + [theta_txt, omega, sigma, "$ESTIMATION METHOD=1 INTERACTION MAXEVALS=9999"]) + "\n"
    return text, {"n_theta": n_theta, "n_eta": n_eta, "n_eps": n_eps, "npar": npar, "used": sorted(g.used)}


INTERNAL = []


def edits():
    import pharmpy.modeling as pm

    def thetas(m):
        rvp = set(m.random_variables.parameter_names)
        return [p for p in m.parameters if p.name not in rvp]

    def e_init(m, r, touched):
        p = r.choice([p for p in thetas(m)])
        lo = max(p.lower, -5.0)
        hi = min(p.upper, 50.0)
        v = round(r.uniform(lo + 1e-3, hi - 1e-3), r.choice([1, 2, 3, 6]))
        if v == 0 or not (p.lower < v < p.upper):
            raise ValueError("no admissible value")
        touched.add(p.name)
        return pm.set_initial_estimates(m, {p.name: v})

    def e_init_omega(m, r, touched):
        names = [d.variance.name for d in m.random_variables if len(d.names) == 1 and d.variance.is_symbol()]
        if not names:
            raise ValueError("no diagonal omega")
        n = r.choice(names)
        touched.add(n)
        return pm.set_initial_estimates(m, {n: round(m.parameters[n].init * r.choice([1.5, 2.0, 0.5]), 5)})

    def _long(r, v):
        # now and then a value with more significant digits than any default number format keeps
        return float(repr(v + r.choice([0.000123456789, 0.0123456789012, 1.23456789e-7]))) if r.random() < 0.3 else v

    def e_lower(m, r, touched):
        p = r.choice(thetas(m))
        v = _long(r, round(p.init - abs(p.init) * r.choice([0.5, 1.0]) - 0.125, 3))
        touched.add(p.name)
        return pm.set_lower_bounds(m, {p.name: v})

    def e_upper(m, r, touched):
        p = r.choice(thetas(m))
        v = _long(r, round(p.init + abs(p.init) * r.choice([0.5, 2.0]) + 0.25, 3))
        touched.add(p.name)
        return pm.set_upper_bounds(m, {p.name: v})

    def e_fix(m, r, touched):
        p = r.choice([p for p in m.parameters if "DUMMY" not in p.name])
        touched.add(p.name)
        return pm.fix_parameters(m, [p.name])

    def e_unfix(m, r, touched):
        fixed = [p.name for p in m.parameters if p.fix and "DUMMY" not in p.name]
        if not fixed:
            raise ValueError("nothing fixed")
        n = r.choice(fixed)
        touched.add(n)
        return pm.unfix_parameters(m, [n])

    def e_fix_to(m, r, touched):
        p = r.choice(thetas(m))
        touched.add(p.name)
        return pm.fix_parameters_to(m, {p.name: round(p.init * 1.25 + 0.01, 4)})

    def e_add_theta(m, r, touched):
        return pm.add_population_parameter(m, f"NEW{r.randint(1, 999)}", round(r.uniform(0.1, 3), 2), lower=r.choice([None, 0, 0.01]))

    def e_remove_theta(m, r, touched):
        # drop the use of one theta of the sum S, then remove unused
        from pharmpy.model import Assignment

        s = m.statements.find_assignment("S")
        syms = sorted(x.name for x in s.expression.free_symbols)
        if len(syms) < 1:
            raise ValueError("no removable theta")
        victim = r.choice(syms)
        new_expr = s.expression.subs({victim: 0})
        st = m.statements.reassign("S", new_expr)
        touched.add(victim)
        m2 = m.replace(statements=st)
        return pm.remove_unused_parameters_and_rvs(m2)

    def e_add_iiv(m, r, touched):
        cands = [s.symbol.name for s in m.statements if s.symbol.name.startswith("P")
                 and not (s.expression.free_symbols & {x for x in map(lambda n: __import__("pharmpy").basic.Expr.symbol(n), m.random_variables.etas.names)})]
        if not cands:
            raise ValueError("all parameters have an eta")
        touched.add("__rv_structure__")
        return pm.add_iiv(m, r.choice(cands), r.choice(["exp", "add", "prop"]))

    def e_remove_iiv(m, r, touched):
        names = list(m.random_variables.iiv.names)
        if not names:
            raise ValueError("no etas")
        n = r.choice(names)
        touched.add(n)
        touched.add("__rv_structure__")
        return pm.remove_iiv(m, n)

    def e_remove_iivs(m, r, touched):
        # ONE update that removes a contiguous run of etas (e.g. every eta of one multi-value record)
        names = list(m.random_variables.iiv.names)
        if len(names) < 3:
            raise ValueError("too few etas")
        k = r.randint(2, min(3, len(names) - 1))
        i = r.randint(0, len(names) - k)
        sel = names[i:i + k]
        if r.random() < 0.6:
            # exactly the etas of ONE $OMEGA record that holds several of them (as the records stand in the code now)
            from vp import nmtran_ref as R

            try:
                sizes = [len(R.parse_omega_records([cont])) if not re.search(r"\bBLOCK\b", cont, re.I)
                         else sum(b.size for b in R.parse_omega_records([cont]))
                         for nme, cont in R.split_records(m.code) if nme == "OMEGA"]
                runs, pos = [], 0
                for sz in sizes:
                    if 2 <= sz < len(names):
                        runs.append((pos, sz))
                    pos += sz
                if runs and pos == len(names):
                    i, k = r.choice(runs)
                    sel = names[i:i + k]
            except Exception:
                pass
        touched.update(sel)
        touched.add("__rv_structure__")
        return pm.remove_iiv(m, sel)

    def e_join(m, r, touched):
        names = list(m.random_variables.iiv.names)
        if len(names) < 2:
            raise ValueError("too few etas")
        sel = r.sample(names, r.randint(2, min(3, len(names))))
        touched.update(sel)
        touched.add("__rv_structure__")
        return pm.create_joint_distribution(m, sel)

    def e_split(m, r, touched):
        joint = [d for d in m.random_variables.iiv if len(d.names) > 1]
        if not joint:
            raise ValueError("no joint distribution")
        d = r.choice(joint)
        sel = r.sample(list(d.names), r.randint(1, len(d.names)))
        touched.update(sel)
        touched.add("__rv_structure__")
        return pm.split_joint_distribution(m, sel)

    def _rv_params(m):
        rvp = set(m.random_variables.parameter_names)
        return [p for p in m.parameters if p.name in rvp and "DUMMY" not in p.name]

    def e_fix_rv(m, r, touched):
        cands = [p for p in _rv_params(m) if not p.fix]
        if not cands:
            raise ValueError("nothing to fix")
        sel = r.sample(cands, r.randint(1, min(2, len(cands))))
        touched.update(p.name for p in sel)
        return pm.fix_parameters(m, [p.name for p in sel])

    def e_unfix_rv(m, r, touched):
        cands = [p for p in _rv_params(m) if p.fix]
        if not cands:
            raise ValueError("nothing fixed")
        sel = r.sample(cands, r.randint(1, min(2, len(cands))))
        touched.update(p.name for p in sel)
        return pm.unfix_parameters(m, [p.name for p in sel])

    def e_change_and_remove(m, r, touched):
        # ONE update that changes a theta and removes the theta directly after it
        from pharmpy.model import Parameters

        s = m.statements.find_assignment("S")
        names = [p.name for p in thetas(m)]
        syms = sorted(x.name for x in s.expression.free_symbols if x.name in names)
        cands = [v for v in syms if names.index(v) > 0]
        if not cands:
            raise ValueError("no removable theta")
        victim = r.choice(cands)
        prev = m.parameters[names[names.index(victim) - 1]]
        v = round(prev.init * 1.5 + 0.03, 4)
        if not (prev.lower < v < prev.upper):
            hi = prev.upper if prev.upper < 1e5 else prev.init + 1.0
            lo = prev.lower if prev.lower > -1e5 else prev.init - 1.0
            v = round((prev.init + hi) / 2, 4)
            if not (prev.lower < v < prev.upper) or v == prev.init:
                v = round((prev.init + lo) / 2, 4)
            if not (prev.lower < v < prev.upper) or v == prev.init:
                raise ValueError("no admissible value")
        st = m.statements.reassign("S", s.expression.subs({victim: 0}))
        pars = Parameters.create([p.replace(init=v) if p.name == prev.name else p for p in m.parameters if p.name != victim])
        touched.add(victim)
        touched.add(prev.name)
        return m.replace(statements=st, parameters=pars).update_source()

    def e_error(m, r, touched):
        f = r.choice([pm.set_additive_error_model, pm.set_proportional_error_model, pm.set_combined_error_model])
        touched.add("__eps__")
        return f(m)

    return {
        "set_init_theta": e_init, "set_init_omega": e_init_omega, "set_lower": e_lower, "set_upper": e_upper,
        "fix": e_fix, "unfix": e_unfix, "fix_to": e_fix_to, "add_theta": e_add_theta, "remove_theta": e_remove_theta,
        "add_iiv": e_add_iiv, "remove_iiv": e_remove_iiv, "join": e_join, "split": e_split, "error_model": e_error,
        "fix_rv": e_fix_rv, "unfix_rv": e_unfix_rv, "change_and_remove_theta": e_change_and_remove,
        "remove_iivs": e_remove_iivs,
    }


# ---------------------------------------------------------------------------------------------- spelling tokens
NUM = r"[-+]?(?:\d+\.?\d*|\.\d+)(?:[EeDd][+-]?\d+)?|[-+]?INF"


def theta_spellings(text):
    """-> list (one per theta, expanded) of dict(low=, init=, up=, item=index of the (..)xn item)."""
    from vp import nmtran_ref as R

    out = []
    item = 0
    for name, content in R.split_records(text):
        if name != "THETA":
            continue
        for line in content.splitlines():
            code = line.split(";", 1)[0]
            i = 0
            while i < len(code):
                ch = code[i]
                if ch == "(":
                    j = code.index(")", i)
                    inner = re.sub(r"\bFIX(?:ED|E)?\b", " ", code[i + 1:j], flags=re.I)
                    parts = [p for p in re.split(r"[,\s]+", inner.strip()) if p]
                    m = re.match(r"\s*[xX]\s*(\d+)", code[j + 1:])
                    rep = int(m.group(1)) if m else 1
                    i = j + 1 + (m.end() if m else 0)
                    if len(parts) == 1:
                        d = dict(low=None, init=parts[0], up=None)
                    elif len(parts) == 2:
                        d = dict(low=parts[0], init=parts[1], up=None)
                    else:
                        d = dict(low=parts[0], init=parts[1], up=parts[2])
                    for _ in range(rep):
                        out.append(dict(d, item=item, rep=rep))
                    item += 1
                    continue
                m = re.match(NUM, code[i:], re.I)
                if m and (i == 0 or not code[i - 1].isalnum()):
                    out.append(dict(low=None, init=m.group(0), up=None, item=item, rep=1))
                    item += 1
                    i += m.end()
                    continue
                i += 1
    return out


# ---------------------------------------------------------------------------------------------- the case
B_STRATA = ["xn", "multiline_remove"]


def run_edits(c, text, seq, seed, plan=None):
    """Apply the edit sequence (its random choices seeded by `seed`) to the model read from `text`, judging after
    every applied edit.  With `plan` (list of (edit name, rng state) of the edits that were applied in another run)
    exactly those edits are re-applied with the same random choices.  Returns (applied, judged, model, plan);
    raises denote.Mismatch (with .model/.applied/.plan attached)."""
    import random

    from pharmpy.modeling import read_model_from_string

    from vp import denote

    model = read_model_from_string(text)
    _ = model.statements
    E = edits()
    r = random.Random(seed)
    applied = []
    done_plan = []
    touched = set()
    orig_names = [p.name for p in model.parameters]
    judged = 0
    steps = [(n, None) for n in seq] if plan is None else list(plan)
    for name, state in steps:
        if state is not None:
            r.setstate(state)
        st = r.getstate()
        try:
            new = E[name](model, r, touched)
        except Exception as e:
            from vp import histories

            if histories.classify_exception(e) == "internal":
                # the edit (its write-back) died with an internal error: the edited model cannot be written at all
                c.hit(f"edit_internal_error:{name}:{type(e).__name__}")
                import traceback

                fr = [f for f in traceback.extract_tb(e.__traceback__) if "pharmpy" in f.filename]
                where = f"{fr[-1].filename.rsplit('/', 1)[-1]}:{fr[-1].name}" if fr else "?"
                mm = denote.Mismatch(f"[internal] the edit {name} died with {type(e).__name__} in {where}: {str(e)[:80]}")
                mm.model = model
                mm.applied = list(applied) + [name]
                mm.plan = list(done_plan) + [(name, st)]
                mm.touched = set(touched)
                mm.orig_names = list(orig_names)
                raise mm
            else:
                c.hit("edit_refused:" + name)
            if plan is not None:
                break
            continue
        model = new
        applied.append(name)
        done_plan.append((name, st))
        try:
            if judge(c, text, model, touched, orig_names):
                judged += 1
        except denote.Mismatch as mm:
            mm.model = model
            mm.applied = list(applied)
            mm.plan = list(done_plan)
            mm.touched = set(touched)
            mm.orig_names = list(orig_names)
            raise
    return applied, judged, model, done_plan


def run_case(rng, idx, tier):
    from vp import denote

    c = Case()
    text, meta = gen_layout(rng)
    seq = [rng.choice(list(edits())) for _ in range(rng.randint(1, 4))]
    seed = rng.random()
    c.sample = {"layout": text.splitlines(), "edits": seq}
    try:
        applied, judged, model, _ = run_edits(c, text, seq, seed)
    except denote.Mismatch as mm:
        def replay(text2):
            c2 = Case()
            try:
                a2, j2, _, _ = run_edits(c2, text2, seq, seed, plan=mm.plan)
            except denote.Mismatch as m2:
                # the repaired layout still fails: accepted only if that remaining mismatch is itself attributed
                # to another listed mechanism (without a further replay)
                return (m2.applied == mm.applied[:len(m2.applied)]
                        and classify(m2, text2, m2.applied, m2.model, None) is not None)
            return j2 >= 1 and a2 == mm.applied

        key = classify(mm, text, mm.applied, mm.model, replay)
        c.hit("classified" if key else "unclassified")
        c.violate(key, f"after {mm.applied}: {mm.what}", {"layout": text.splitlines(), "code": mm.model.code.splitlines(),
                                                         "applied": mm.applied})
        c.fp = fp_of(text, mm.applied)
        c.nontrivial = True
        return c
    except Exception as e:
        c.refusal = type(e).__name__
        c.sample["refused"] = str(e)[:200]
        return c
    c.sample["applied"] = applied
    c.fp = fp_of(text, applied)
    c.nontrivial = judged >= 1
    return c


def judge(c, orig_text, model, touched, orig_names):
    from pharmpy.modeling import read_model_from_string

    from vp import denote
    from vp import nmtran_ref as R

    code = model.code
    # (a) independent record readers
    try:
        td = denote.TextDen(code)
    except R.Unsupported as e:
        c.hit("ref_unsupported")
        return False
    ird = denote.IRDen(model)
    denote.compare_parameters(td, ird, c, "ref_")
    # (b) pharmpy's own reader
    try:
        re_model = read_model_from_string(code)
    except Exception as e:
        raise denote.Mismatch(f"generated code cannot be read back: {type(e).__name__}: {str(e)[:120]}")
    a, b = model.parameters, re_model.parameters
    c.hit("reread_params")
    dummy = {"DUMMYOMEGA", "DUMMYETA"}
    if sorted(set(a.names) - dummy) != sorted(set(b.names) - dummy):
        mm = denote.Mismatch(f"[reread] parameter names {sorted(a.names)} vs {sorted(b.names)}")
        mm.pos_equal = _positionally_equal(model, re_model)
        mm.theta_names = (_theta_names(model), _theta_names(re_model))
        raise mm
    rvp_a = set(model.random_variables.parameter_names)
    for p in a:
        if p.name in dummy:
            continue
        q = b[p.name]
        # bounds exist in the text only for thetas; $OMEGA/$SIGMA carry none (the reader assumes 0 for variances)
        bounds_ok = p.name in rvp_a or (_beq(p.lower, q.lower) and _beq(p.upper, q.upper))
        if not (denote.close(float(p.init), float(q.init), 1e-12) and bounds_ok and p.fix == q.fix):
            mixed = False
            if p.name in rvp_a and denote.close(float(p.init), float(q.init), 1e-12):
                fixmap = {x.name: x.fix for x in a}
                for dist in model.random_variables:
                    ps = {str(x) for x in dist.variance.free_symbols} if len(dist.names) == 1 else {
                        str(x) for i in range(len(dist.names)) for j in range(len(dist.names)) for x in dist.variance[i, j].free_symbols}
                    if p.name in ps and len({fixmap.get(n) for n in ps}) > 1:
                        mixed = True
            mm = denote.Mismatch(f"[reread] parameter {p.name}: model (init={p.init}, lower={p.lower}, upper={p.upper}, fix={p.fix}) "
                                 f"vs re-read (init={q.init}, lower={q.lower}, upper={q.upper}, fix={q.fix})")
            mm.mixed_fix_block = mixed
            raise mm
    c.hit("reread_rvs")
    ra, rb = model.random_variables, re_model.random_variables
    isdummy = lambda d: any("dummy" in n.lower() for n in d.names) or "DUMMYOMEGA" in str(d.variance)  # noqa: E731
    sa = sorted((tuple(d.names), d.level, str(d.variance)) for d in ra if not isdummy(d))
    sb = sorted((tuple(d.names), d.level, str(d.variance)) for d in rb if not isdummy(d))
    if sa != sb:
        mm = denote.Mismatch(f"[reread] random variables {sa} vs {sb}")
        # same after giving the epsilons positional names?
        ea = [(len(d.names), d.level, str(d.variance)) for d in ra.epsilons]
        eb = [(len(d.names), d.level, str(d.variance)) for d in rb.epsilons]
        eta_a = sorted((tuple(d.names), d.level, str(d.variance)) for d in ra.etas if not isdummy(d))
        eta_b = sorted((tuple(d.names), d.level, str(d.variance)) for d in rb.etas if not isdummy(d))
        mm.eps_names_only = (ea == eb and eta_a == eta_b)
        mm.pos_equal = _positionally_equal(model, re_model)
        raise mm
    # (c) spelling of untouched thetas
    old = theta_spellings(orig_text)
    new = theta_spellings(code)
    rvp = set(model.random_variables.parameter_names)
    new_names = [p.name for p in model.parameters if p.name not in rvp]
    old_theta_names = [n for n in orig_names if not _is_rv_param(n, orig_names, len(old))][:len(old)]
    if len(new) == len(new_names):
        byname_new = dict(zip(new_names, new))
        # items (xn groups) containing a touched theta are exempt as a whole
        touched_items = {o["item"] for n, o in zip(old_theta_names, old) if n in touched}
        for n, o in zip(old_theta_names, old):
            if n in touched or n not in byname_new or o["item"] in touched_items:
                continue
            q = byname_new[n]
            c.hit("spelling")
            for part in ("low", "init", "up"):
                if o[part] != q[part]:
                    raise denote.Mismatch(f"[spelling] untouched {n}: {part} was {o[part]!r}, now {q[part]!r}",
                                          q=("spelling", n))
    else:
        c.hit("spelling_not_judged_count_mismatch")
    # (d) $OMEGA / $SIGMA records none of whose parameters / random variables was touched keep their text
    structural = touched & {"__eps__", "__rv_structure__"}
    for kind in ("OMEGA", "SIGMA"):
        if kind == "SIGMA" and "__eps__" in touched:
            continue
        old_recs = [cont for n, cont in R.split_records(orig_text) if n == kind]
        new_recs = [cont for n, cont in R.split_records(code) if n == kind]
        if "__rv_structure__" in touched and kind == "OMEGA":
            continue
        rv_touched = any(t in _rv_param_names(orig_names, len(old)) or t.startswith("ETA") for t in touched)
        if rv_touched:
            continue
        c.hit("rv_record_text")
        if [r.strip() for r in old_recs] != [r.strip() for r in new_recs]:
            raise denote.Mismatch(f"[spelling] untouched ${kind} records changed: {old_recs} -> {new_recs}", q=("rvtext", kind))
    return True


def _theta_names(m):
    rvp = set(m.random_variables.parameter_names)
    return [p.name for p in m.parameters if p.name not in rvp and "DUMMY" not in p.name]


_DEFAULT_NAME = re.compile(r"^(THETA|OMEGA|SIGMA|ETA|EPS)_\d+(_\d+)?$|^(THETA|OMEGA|SIGMA|ETA|EPS)\(\d+(,\d+)?\)$")


def _theta_name_shift_explained(mm):
    """The listed mechanism moves names only in one way: a positional default name is renumbered, or the name comment
    of a REMOVED theta stays behind and labels a theta that FOLLOWED it in the original records.  A surviving theta that
    re-reads under the name of a theta removed *after* it (or under the name of another surviving theta) is something
    else."""
    names = getattr(mm, "theta_names", None)
    orig = getattr(mm, "orig_names", [])
    if not names:
        return True
    a, b = names
    if len(a) != len(b):
        return True  # not the positional signature anyway
    pos = {n: i for i, n in enumerate(orig)}
    removed = {n for n in orig if n not in set(a)}
    for x, y in zip(a, b):
        if x == y or _DEFAULT_NAME.match(x) or _DEFAULT_NAME.match(y):
            continue
        if y in removed and pos.get(y, -1) < pos.get(x, 10**9):
            continue
        return False
    return True


def _positionally_equal(model, re_model):
    """Parameters and random variables agree when matched by position instead of by name."""
    from vp import denote

    def sig(m):
        rvp = set(m.random_variables.parameter_names)
        th = [(float(p.init), float(p.lower), float(p.upper), p.fix) for p in m.parameters if p.name not in rvp
              and "DUMMY" not in p.name]
        inits = {p.name: float(p.init) for p in m.parameters}
        blocks = []
        for d in list(m.random_variables.etas) + list(m.random_variables.epsilons):
            if any("dummy" in n.lower() for n in d.names) or "DUMMYOMEGA" in str(d.variance):
                continue
            v = d.variance
            n = len(d.names)
            M = [[denote.ev(v, inits)]] if n == 1 else [[denote.ev(v[i, j], inits) for j in range(n)] for i in range(n)]
            blocks.append((d.level, n, M))
        return th, blocks

    try:
        ta, ba = sig(model)
        tb, bb = sig(re_model)
    except Exception:
        return False
    if len(ta) != len(tb) or len(ba) != len(bb):
        return False
    for x, y in zip(ta, tb):
        if not (abs(x[0] - y[0]) <= 1e-12 * max(1, abs(x[0])) and x[1:] == y[1:]):
            return False
    for (l1, n1, M1), (l2, n2, M2) in zip(ba, bb):
        if (l1, n1) != (l2, n2):
            return False
        for r1, r2 in zip(M1, M2):
            for u, w in zip(r1, r2):
                if abs(u - w) > 1e-9 * max(1, abs(u)):
                    return False
    return True


def _rv_param_names(orig_names, n_theta):
    return set(orig_names[n_theta:])


def _is_rv_param(n, names, n_theta):
    return names.index(n) >= n_theta


def _beq(a, b):
    a, b = float(a), float(b)
    if math.isinf(a) or math.isinf(b):
        return a == b
    return abs(a - b) <= 1e-12 * max(1.0, abs(a), abs(b))


def expand_layout(text, thetas=True, omegas=False):
    """The same layout with every theta in its own single-item $THETA record (no (v)xn, no multi-item records)
    and/or every diagonal $OMEGA/$SIGMA value in its own record."""
    from vp import nmtran_ref as R

    out = []
    done = False
    for name, content in R.split_records(text):
        if name in ("OMEGA", "SIGMA") and omegas and not re.search(r"\bBLOCK\b", content, re.I):
            for b in R.parse_omega_records([content]):
                out.append(f"${name} {b.matrix[0][0]!r}{' FIX' if b.fix else ''}\n")
            continue
        if name == "THETA" and thetas:
            if done:
                continue
            done = True
            ths = R.parse_theta_records([c for n, c in R.split_records(text) if n == "THETA"])
            for t in ths:
                lo = "-INF" if math.isinf(t.lower) else repr(t.lower)
                up = "" if math.isinf(t.upper) else f",{t.upper!r}"
                item = f"({lo},{t.init!r}{up})" if (not math.isinf(t.lower) or up) else f"{t.init!r}"
                out.append(f"$THETA {item}{' FIX' if t.fix else ''}\n")
        else:
            out.append(f"${name}{content}")
    return "".join(out)


def classify(mm, orig_text, applied, model, replay=None):
    """Mechanism attribution.  replay(text) re-runs the same edit sequence on another layout and returns True if it
    is judged without mismatch (delta check)."""
    from vp import nmtran_ref as R

    what = mm.what
    if getattr(mm, "mixed_fix_block", False):
        return "C04/partially-fixed-block"
    if "cannot be read back" in what and "FIX inside parentheses" in what:
        return "C04/fix-inside-parentheses-with-new-bounds"
    if "block" in what and "fixedness: text False, model True" in what and re.search(r"BLOCK\s*\(\d+\)[^$]*FIX", orig_text, re.I | re.S):
        return "C04/block-fix-lost-on-restructure"
    if getattr(mm, "eps_names_only", False):
        return "C04/epsilon-names-not-written"
    if "[reread]" in what and getattr(mm, "pos_equal", False) and ("parameter names" in what or "random variables" in what):
        if not _theta_name_shift_explained(mm):
            return None
        # precondition of the listed mechanism: something was removed, or a join re-ordered the etas; a pure split /
        # value edit that moves names is something else (pharmpy writes name comments for those)
        if not any(a in ("remove_iiv", "remove_iivs", "remove_theta", "change_and_remove_theta", "join") for a in applied):
            return None
        return "C04/default-names-shift-after-removal"
    thetas_txt = "\n".join(c for n, c in R.split_records(orig_text) if n == "THETA")
    multi = bool(re.search(r"\)\s*x\s*\d", thetas_txt)) or any(
        len(theta_spellings("$THETA" + c)) > 1 for n, c in R.split_records(orig_text) if n == "THETA")
    if "[spelling] untouched $OMEGA" in what or "[spelling] untouched $SIGMA" in what:
        kind = "OMEGA" if "$OMEGA" in what else "SIGMA"
        old = [c for n, c in R.split_records(orig_text) if n == kind]
        new = [c for n, c in R.split_records(model.code) if n == kind]
        if len(old) == len(new):
            ok = True
            for o, nw in zip(old, new):
                if o.strip() == nw.strip():
                    continue
                scaled = re.search(r"\b(SD|STANDARD|CORR\w*|CHOL\w*)\b", o, re.I)
                to = re.findall(NUM, R.strip_comments(o))
                tn = re.findall(NUM, R.strip_comments(nw))
                same_vals = len(to) == len(tn) and all(abs(float(a) - float(b)) <= 1e-12 * max(1, abs(float(a))) for a, b in zip(to, tn))
                if not (scaled and same_vals):
                    ok = False
            if ok:
                return "C04/omega-scaled-block-respelled"
        return None
    # Preconditions of the listed mechanisms (what the finding says fails), on top of the replay delta check: an edit
    # sequence that does not contain the failing kind of edit cannot be attributed to them.
    touched = getattr(mm, "touched", set())
    orig_names = getattr(mm, "orig_names", [])
    sp = theta_spellings(orig_text)
    groups = {}
    for pos, d in enumerate(sp):
        groups.setdefault(d["item"], []).append(pos)
    xn_members = {orig_names[pos] for g in groups.values() if len(g) > 1 for pos in g if pos < len(orig_names)}
    removes_theta = "remove_theta" in applied or "change_and_remove_theta" in applied
    edits_xn_member = bool(touched & xn_members)
    if multi and replay is not None and ("THETA(" in what or "number of thetas" in what or "[reread] parameter" in what
                                         or "cannot be read back" in what or "[internal]" in what):
        try:
            has_xn = bool(re.search(r"\)\s*x\s*\d", thetas_txt))
            if has_xn and (edits_xn_member or removes_theta) and replay(expand_layout(orig_text)):
                return "C04/theta-xn-item-edit"
            if removes_theta and replay(expand_layout(orig_text)):
                return "C04/theta-multi-item-record-edit"
        except Exception:
            pass
    multi_omega = any(not re.search(r"\bBLOCK\b", c, re.I) and len(R.parse_omega_records([c])) > 1
                      for n, c in R.split_records(orig_text) if n in ("OMEGA", "SIGMA"))
    restructures = any(a in ("join", "split", "remove_iiv", "remove_iivs", "add_iiv") for a in applied)
    if multi_omega and restructures and replay is not None:
        try:
            if replay(expand_layout(orig_text, thetas=False, omegas=True)):
                return "C04/omega-multi-value-record-restructure"
            if multi and replay(expand_layout(orig_text, thetas=True, omegas=True)):
                return "C04/omega-multi-value-record-restructure"
        except Exception:
            pass
    return None
