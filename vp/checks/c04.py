"""C04 Parameter and random-effect edits are written back exactly.

Layouts of $THETA/$OMEGA/$SIGMA come from the record generator (vp.gen.nmtran); after every edit the generated
text is read by (a) the independent record readers of vp.nmtran_ref and (b) pharmpy's own reader, and both must give
exactly the parameters / random-effect distributions of the in-memory model; tokens of untouched values must keep
their spelling.
"""
from __future__ import annotations

import math
import re

from vp.farm import Case, fp_of

PROP = "C04"
LEVEL = "exploration"
RULE = (
    "generated parameter-record layouts (values per record 1-3, (v)xn, FIX placement, bound forms, DIAGONAL/BLOCK/"
    "SAME, SD/CORR/CHOLESKY, values over several lines, name comments) x edit sequences (<= 4) over set init / bounds "
    "/ fix / unfix / add / remove theta, add/remove iiv, join/split etas, error-model changes; distinct by (layout "
    "text, applied edits); non-trivial when >= 1 edit was applied and both readers judged the result"
)
ASSUMPTIONS = [
    "record semantics per DESIGN.md Appendix A.3 (vp.nmtran_ref.parse_theta_records / parse_omega_records)",
    "inits compared to 1e-12 relative (pharmpy prints repr-precision floats), covariance entries to 1e-9",
    "spelling is only demanded for thetas no edit touched and whose (v)xn item no edit touched",
]
MIN_NONTRIVIAL = {"quick": 400, "thorough": 5000}
REQUIRED_MONITORS = ["ref_params", "reread_params", "reread_rvs", "spelling"]


def n_cases(tier):
    return 1500 if tier == "quick" else 30000


def setup(tier):
    import pharmpy.modeling  # noqa


# ---------------------------------------------------------------------------------------------- generation
def gen_layout(rng, strata=()):
    from vp.gen.nmtran import Gen, _error_line

    g = Gen(rng, strata)
    n_theta = rng.randint(2, 6)
    n_eta = rng.randint(1, 4)
    n_eps = rng.randint(1, 2)
    g.n_theta, g.n_eta, g.n_eps = n_theta, n_eta, n_eps
    theta_txt, tvals = g.theta_records(n_theta)
    # (v)xn is a known-finding construct: only with stratum 'xn'
    omega = g.omega_records(n_eta, "$OMEGA")
    sigma = g.omega_records(n_eps, "$SIGMA", allow_same=False)
    lines = []
    npar = max(n_eta, min(n_theta, n_eta + rng.randint(0, 2)))
    used_theta = 0
    for j in range(1, npar + 1):
        used_theta = min(j, n_theta)
        e = f"THETA({used_theta})"
        if j <= n_eta:
            lines.append(f"P{j} = {e}*EXP(ETA({j}))")
        else:
            lines.append(f"P{j} = {e}")
    rest = [f"THETA({k})" for k in range(used_theta + 1, n_theta + 1)]
    lines.append("S = " + (" + ".join(rest) if rest else "0.5"))
    lines.append("IPRED = " + " + ".join(f"P{j}" for j in range(1, npar + 1)) + " + S")
    lines.append(_error_line(rng, "IPRED", n_eps))
    text = "\n".join(["$PROBLEM c04", "$INPUT ID TIME AMT DV", "$DATA d.csv IGNORE=@", "$PRED"] + lines
                     + [theta_txt, omega, sigma, "$ESTIMATION METHOD=1 INTERACTION MAXEVALS=9999"]) + "\n"
    return text, {"n_theta": n_theta, "n_eta": n_eta, "n_eps": n_eps, "npar": npar, "used": sorted(g.used)}


def edits():
    import pharmpy.modeling as pm

    def thetas(m):
        rvp = set(m.random_variables.parameter_names)
        return [p for p in m.parameters if p.name not in rvp]

    def e_init(m, r, touched):
        p = r.choice([p for p in thetas(m)])
        lo = max(p.lower, -5.0)
        hi = min(p.upper, 50.0)
        v = round(r.uniform(lo + 1e-3, hi - 1e-3), r.choice([1, 2, 3, 6]))
        if v == 0 or not (p.lower < v < p.upper):
            raise ValueError("no admissible value")
        touched.add(p.name)
        return pm.set_initial_estimates(m, {p.name: v})

    def e_init_omega(m, r, touched):
        names = [d.variance.name for d in m.random_variables if len(d.names) == 1 and d.variance.is_symbol()]
        if not names:
            raise ValueError("no diagonal omega")
        n = r.choice(names)
        touched.add(n)
        return pm.set_initial_estimates(m, {n: round(m.parameters[n].init * r.choice([1.5, 2.0, 0.5]), 5)})

    def e_lower(m, r, touched):
        p = r.choice(thetas(m))
        v = round(p.init - abs(p.init) * r.choice([0.5, 1.0]) - 0.125, 3)
        touched.add(p.name)
        return pm.set_lower_bounds(m, {p.name: v})

    def e_upper(m, r, touched):
        p = r.choice(thetas(m))
        v = round(p.init + abs(p.init) * r.choice([0.5, 2.0]) + 0.25, 3)
        touched.add(p.name)
        return pm.set_upper_bounds(m, {p.name: v})

    def e_fix(m, r, touched):
        p = r.choice(list(m.parameters))
        touched.add(p.name)
        return pm.fix_parameters(m, [p.name])

    def e_unfix(m, r, touched):
        fixed = [p.name for p in m.parameters if p.fix]
        if not fixed:
            raise ValueError("nothing fixed")
        n = r.choice(fixed)
        touched.add(n)
        return pm.unfix_parameters(m, [n])

    def e_fix_to(m, r, touched):
        p = r.choice(thetas(m))
        touched.add(p.name)
        return pm.fix_parameters_to(m, {p.name: round(p.init * 1.25 + 0.01, 4)})

    def e_add_theta(m, r, touched):
        return pm.add_population_parameter(m, f"NEW{r.randint(1, 999)}", round(r.uniform(0.1, 3), 2), lower=r.choice([None, 0, 0.01]))

    def e_remove_theta(m, r, touched):
        # drop the use of one theta of the sum S, then remove unused
        from pharmpy.model import Assignment

        s = m.statements.find_assignment("S")
        syms = sorted(x.name for x in s.expression.free_symbols)
        if len(syms) < 1:
            raise ValueError("no removable theta")
        victim = r.choice(syms)
        new_expr = s.expression.subs({victim: 0})
        st = m.statements.reassign("S", new_expr)
        touched.add(victim)
        m2 = m.replace(statements=st)
        return pm.remove_unused_parameters_and_rvs(m2)

    def e_add_iiv(m, r, touched):
        cands = [s.symbol.name for s in m.statements if s.symbol.name.startswith("P")
                 and not (s.expression.free_symbols & {x for x in map(lambda n: __import__("pharmpy").basic.Expr.symbol(n), m.random_variables.etas.names)})]
        if not cands:
            raise ValueError("all parameters have an eta")
        return pm.add_iiv(m, r.choice(cands), r.choice(["exp", "add", "prop"]))

    def e_remove_iiv(m, r, touched):
        names = list(m.random_variables.iiv.names)
        if not names:
            raise ValueError("no etas")
        n = r.choice(names)
        touched.add(n)
        return pm.remove_iiv(m, n)

    def e_join(m, r, touched):
        names = list(m.random_variables.iiv.names)
        if len(names) < 2:
            raise ValueError("too few etas")
        sel = r.sample(names, r.randint(2, min(3, len(names))))
        touched.update(sel)
        return pm.create_joint_distribution(m, sel)

    def e_split(m, r, touched):
        joint = [d for d in m.random_variables.iiv if len(d.names) > 1]
        if not joint:
            raise ValueError("no joint distribution")
        d = r.choice(joint)
        sel = r.sample(list(d.names), r.randint(1, len(d.names)))
        touched.update(sel)
        return pm.split_joint_distribution(m, sel)

    def e_error(m, r, touched):
        f = r.choice([pm.set_additive_error_model, pm.set_proportional_error_model, pm.set_combined_error_model])
        touched.add("__eps__")
        return f(m)

    return {
        "set_init_theta": e_init, "set_init_omega": e_init_omega, "set_lower": e_lower, "set_upper": e_upper,
        "fix": e_fix, "unfix": e_unfix, "fix_to": e_fix_to, "add_theta": e_add_theta, "remove_theta": e_remove_theta,
        "add_iiv": e_add_iiv, "remove_iiv": e_remove_iiv, "join": e_join, "split": e_split, "error_model": e_error,
    }


# ---------------------------------------------------------------------------------------------- spelling tokens
NUM = r"[-+]?(?:\d+\.?\d*|\.\d+)(?:[EeDd][+-]?\d+)?|[-+]?INF"


def theta_spellings(text):
    """-> list (one per theta, expanded) of dict(low=, init=, up=, item=index of the (..)xn item)."""
    from vp import nmtran_ref as R

    out = []
    item = 0
    for name, content in R.split_records(text):
        if name != "THETA":
            continue
        for line in content.splitlines():
            code = line.split(";", 1)[0]
            i = 0
            while i < len(code):
                ch = code[i]
                if ch == "(":
                    j = code.index(")", i)
                    inner = re.sub(r"\bFIX(?:ED|E)?\b", " ", code[i + 1:j], flags=re.I)
                    parts = [p for p in re.split(r"[,\s]+", inner.strip()) if p]
                    m = re.match(r"\s*[xX]\s*(\d+)", code[j + 1:])
                    rep = int(m.group(1)) if m else 1
                    i = j + 1 + (m.end() if m else 0)
                    if len(parts) == 1:
                        d = dict(low=None, init=parts[0], up=None)
                    elif len(parts) == 2:
                        d = dict(low=parts[0], init=parts[1], up=None)
                    else:
                        d = dict(low=parts[0], init=parts[1], up=parts[2])
                    for _ in range(rep):
                        out.append(dict(d, item=item, rep=rep))
                    item += 1
                    continue
                m = re.match(NUM, code[i:], re.I)
                if m and (i == 0 or not code[i - 1].isalnum()):
                    out.append(dict(low=None, init=m.group(0), up=None, item=item, rep=1))
                    item += 1
                    i += m.end()
                    continue
                i += 1
    return out


# ---------------------------------------------------------------------------------------------- the case
B_STRATA = ["xn", "multiline_remove"]


def run_case(rng, idx, tier):
    from pharmpy.modeling import read_model_from_string

    from vp import denote
    from vp import nmtran_ref as R

    c = Case()
    text, meta = gen_layout(rng)
    try:
        model = read_model_from_string(text)
        _ = model.statements
    except Exception as e:
        c.refusal = type(e).__name__
        c.sample = {"text": text.splitlines(), "refused": str(e)[:200]}
        return c
    E = edits()
    names = list(E)
    k = rng.randint(1, 4)
    applied = []
    touched = set()
    orig_names = [p.name for p in model.parameters]
    c.sample = {"layout": text.splitlines(), "applied": applied}
    # judge also the unedited model once in a while (update_source no-op)
    seq = [rng.choice(names) for _ in range(k)]
    judged = 0
    for name in seq:
        try:
            new = E[name](model, rng, touched)
        except Exception as e:
            c.hit("edit_refused:" + name)
            continue
        model = new
        applied.append(name)
        try:
            ok = judge(c, text, model, touched, orig_names)
        except denote.Mismatch as mm:
            key = classify(mm, text, applied, model)
            c.violate(key, f"after {applied}: {mm.what}", {"layout": text.splitlines(), "code": model.code.splitlines(),
                                                          "applied": list(applied)})
            break
        if ok:
            judged += 1
    c.fp = fp_of(text, applied)
    c.nontrivial = judged >= 1
    return c


def judge(c, orig_text, model, touched, orig_names):
    from pharmpy.modeling import read_model_from_string

    from vp import denote
    from vp import nmtran_ref as R

    code = model.code
    # (a) independent record readers
    try:
        td = denote.TextDen(code)
    except R.Unsupported as e:
        c.hit("ref_unsupported")
        return False
    ird = denote.IRDen(model)
    denote.compare_parameters(td, ird, c, "ref_")
    # (b) pharmpy's own reader
    try:
        re_model = read_model_from_string(code)
    except Exception as e:
        raise denote.Mismatch(f"generated code cannot be read back: {type(e).__name__}: {str(e)[:120]}")
    a, b = model.parameters, re_model.parameters
    c.hit("reread_params")
    if list(a.names) != list(b.names):
        raise denote.Mismatch(f"[reread] parameter names {list(a.names)} vs {list(b.names)}")
    for p, q in zip(a, b):
        if not (denote.close(float(p.init), float(q.init), 1e-12) and _beq(p.lower, q.lower) and _beq(p.upper, q.upper) and p.fix == q.fix):
            raise denote.Mismatch(f"[reread] parameter {p.name}: model (init={p.init}, lower={p.lower}, upper={p.upper}, fix={p.fix}) "
                                  f"vs re-read (init={q.init}, lower={q.lower}, upper={q.upper}, fix={q.fix})")
    c.hit("reread_rvs")
    ra, rb = model.random_variables, re_model.random_variables
    sa = [(tuple(d.names), d.level, str(d.variance)) for d in ra]
    sb = [(tuple(d.names), d.level, str(d.variance)) for d in rb]
    if sa != sb:
        raise denote.Mismatch(f"[reread] random variables {sa} vs {sb}")
    # (c) spelling of untouched thetas
    old = theta_spellings(orig_text)
    new = theta_spellings(code)
    rvp = set(model.random_variables.parameter_names)
    new_names = [p.name for p in model.parameters if p.name not in rvp]
    old_theta_names = [n for n in orig_names if not _is_rv_param(n, orig_names, len(old))][:len(old)]
    if len(new) == len(new_names):
        byname_new = dict(zip(new_names, new))
        # items (xn groups) containing a touched theta are exempt as a whole
        touched_items = {o["item"] for n, o in zip(old_theta_names, old) if n in touched}
        for n, o in zip(old_theta_names, old):
            if n in touched or n not in byname_new or o["item"] in touched_items:
                continue
            q = byname_new[n]
            c.hit("spelling")
            for part in ("low", "init", "up"):
                if o[part] != q[part]:
                    raise denote.Mismatch(f"[spelling] untouched {n}: {part} was {o[part]!r}, now {q[part]!r}",
                                          q=("spelling", n))
    else:
        c.hit("spelling_not_judged_count_mismatch")
    return True


def _is_rv_param(n, names, n_theta):
    return names.index(n) >= n_theta


def _beq(a, b):
    a, b = float(a), float(b)
    if math.isinf(a) or math.isinf(b):
        return a == b
    return abs(a - b) <= 1e-12 * max(1.0, abs(a), abs(b))


def classify(mm, orig_text, applied, model):
    return None
