"""C07 Refactorings and pharmpy's own evaluators preserve the model function.

Oracle: vp.ir_eval on the model before and after a refactoring (vp.denote.compare_models), matched by name through
the renaming the refactoring declares; pharmpy's expression extractors are compared with direct evaluation of the
statements and with central finite differences.
"""
from __future__ import annotations

import os
import random

from vp.farm import Case, fp_of

PROP = "C07"
LEVEL = "exploration"
RULE = (
    "(model, refactoring) pairs: model = corpus start model or product of <= 3 random transformation steps; "
    "refactoring from the preserving set (16) or an evaluator probe; distinct by (start, steps, refactoring); "
    "non-trivial when at least one sample point was judged on vector field and F/Y (or on a gradient)"
)
ASSUMPTIONS = [
    "equivalence = equal vector field, F and dependent variables at sampled (parameters, etas, eps, record, state); "
    "parameters matched by name, a parameter present on one side only takes its initial estimate",
    "documented parameterisation changes (use_thetas_for_error_stdev, unconstrain_parameters) are judged at eps = 0 / "
    "on F only",
    "finite differences: central, h = 1e-6*max(1,|x|), tolerance 1e-5 relative",
]
MIN_NONTRIVIAL = {"quick": 250, "thorough": 4000}
REQUIRED_MONITORS = ["field", "target_vars", "gradient_fd", "closed_form_derivative", "numeric_individual_prediction", "numeric_eta_gradient"]
BATCH_TIMEOUT = {"quick": 2400, "thorough": 6 * 3600}
# pharmpy's numeric evaluators die in native code (stack overflow of the symbolic engine, SIGSEGV) on some of the deeply
# nested generated $PRED models; such a case is skipped and counted (worker-crash:status11), and up to 4 % of them leave
# the run conclusive (observed: 3-9 of 600)
WORKER_CRASH_TOLERANCE = 0.04


def n_cases(tier):
    return 600 if tier == "quick" else 12000


def setup(tier):
    import pharmpy.modeling  # noqa

    from vp import histories

    histories.start_models()


def refactorings():
    import pharmpy.modeling as pm

    def ren(m, r):
        syms = [s.symbol.name for s in m.statements if hasattr(s, "symbol") and s.symbol.is_symbol()]
        syms = [s for s in dict.fromkeys(syms) if s not in ("F", "Y") and not s.startswith("A_")]
        k = min(len(syms), r.randint(1, 3))
        chosen = r.sample(syms, k)
        # symbols defined through IF blocks (Piecewise) are re-translated to code when renamed: prefer one of them
        pw = [s.symbol.name for s in m.statements if hasattr(s, "symbol") and s.symbol.name in syms and s.expression.is_piecewise()]
        if pw and r.random() < 0.6:
            first = r.choice(sorted(set(pw)))
            chosen = [first] + [x for x in chosen if x != first][: k - 1]
        mapping = {s: f"{s}_RN{i}" for i, s in enumerate(chosen)}
        if len(chosen) >= 2 and r.random() < 0.4 and not (_NM_RESERVED.match(chosen[0]) or _NM_RESERVED.match(chosen[1])):
            # a swap (not of PREDPP-reserved names: the NONMEM code generator re-creates those - S1, ALAG1, F1 ... - by
            # name, and the docstring of rename_symbols leaves clashes with existing names to the caller)
            mapping = {chosen[0]: chosen[1], chosen[1]: chosen[0]}
        return pm.rename_symbols(m, mapping), mapping

    R = {
        "mu_reference_model": lambda m, r: (pm.mu_reference_model(m), {}),
        "make_declarative": lambda m, r: (pm.make_declarative(m), {}),
        "cleanup_model": lambda m, r: (pm.cleanup_model(m), {}),
        "greekify_model": lambda m, r: (pm.greekify_model(m), None),  # renames parameters: judged on structure only
        "rename_symbols": ren,
        "convert_generic": lambda m, r: (pm.convert_model(m, "generic"), {}),
        "convert_generic_and_back": lambda m, r: (pm.convert_model(pm.convert_model(m, "generic"), "nonmem"), {}),
        "unload_load_dataset": lambda m, r: (pm.load_dataset(pm.unload_dataset(m)), {}),
        "remove_unused_parameters_and_rvs": lambda m, r: (pm.remove_unused_parameters_and_rvs(m), {}),
        "create_joint_distribution": lambda m, r: (pm.create_joint_distribution(m, r.sample(list(m.random_variables.iiv.names), 2)), {}),
        "split_joint_distribution": lambda m, r: (pm.split_joint_distribution(m), {}),
        "replace_fixed_thetas": lambda m, r: _two(pm.fix_parameters(m, [r.choice([p.name for p in m.parameters if p.name not in set(m.random_variables.parameter_names)])]), pm.replace_fixed_thetas),
        "replace_non_random_rvs": lambda m, r: _two(_fix_a_variance(m, r), pm.replace_non_random_rvs),
        "update_source": lambda m, r: (m.update_source(), {}),
        "simplify_statements": lambda m, r: (_simplify_all(m), {}),
        "simplify_expression_probe": _simplify_probe,
        "make_declarative_after_reassignment": lambda m, r: _two(_reassign_after_ode(m, r), pm.make_declarative),
        "cleanup_model_after_reassignment": lambda m, r: _two(_reassign_after_ode(m, r), pm.cleanup_model),
    }
    return R


def _reassign_after_ode(m, r):
    """Precondition for the refactorings that reorder / merge assignments: a symbol that the ODE system reads is assigned
    again AFTER the ODE system (order and re-assignment are significant in Statements: the ODE system uses the value the
    symbol had when the system was reached)."""
    import sympy
    from pharmpy.model import Assignment

    sts = m.statements
    ode = sts.ode_system
    if ode is None:
        raise ValueError("no ODE system")
    before = {s.symbol.name for s in sts.before_odes if isinstance(s, Assignment)}
    cands = sorted(str(x) for x in ode.free_symbols if str(x) in before)
    if not cands:
        raise ValueError("the ODE system reads no assigned symbol")
    x = sympy.Symbol(r.choice(cands))
    e = r.choice([x / 3, x * 2 + 1, sympy.log(1 + x**2)])
    new = sts.before_odes + ode + Assignment.create(x, e) + sts.after_odes
    return m.replace(statements=new)


def _fix_a_variance(m, r):
    """Precondition of replace_non_random_rvs: a variance fixed to zero (that effect is not random any more) - or, as a
    control, one fixed at a non-zero value (still random: the refactoring must leave it alone)."""
    import pharmpy.modeling as pm

    cands = [d.variance.name for d in list(m.random_variables.etas) + list(m.random_variables.epsilons)
             if len(d.names) == 1 and d.variance.is_symbol()]
    name = r.choice(cands)
    if r.random() < 0.5:
        return pm.fix_parameters_to(m, {name: 0})
    return pm.fix_parameters(m, [name])


def _two(before, fn):
    """(before, after, mapping) for refactorings whose precondition the harness has to establish first."""
    return (before, fn(before)), {}


def _simplify_all(m):
    import pharmpy.modeling as pm
    from pharmpy.model import Assignment, Statements

    new = []
    for s in m.statements:
        if isinstance(s, Assignment):
            new.append(Assignment.create(s.symbol, pm.simplify_expression(m, s.expression)))
        else:
            new.append(s)
    return m.replace(statements=Statements(tuple(new)))


def _simplify_probe(m, r):
    """(model with extra statements built from sign-sensitive expressions of its parameters, the same model with those
    statements simplified).  simplify_expression may use the parameters' bounds; the values must not change for any
    parameter value within the bounds."""
    import pharmpy.modeling as pm
    import sympy
    from pharmpy.model import Assignment, Statements

    rvp = set(m.random_variables.parameter_names)
    thetas = [p.name for p in m.parameters if p.name not in rvp]
    forms = [lambda x, y: sympy.Abs(x), lambda x, y: sympy.sqrt(x**2), lambda x, y: sympy.sign(x) * y,
             lambda x, y: sympy.Abs(x * y), lambda x, y: (x**2) ** sympy.Rational(1, 2) + sympy.Abs(y),
             lambda x, y: sympy.Abs(x) / (1 + sympy.Abs(y)), lambda x, y: sympy.sqrt((x - y) ** 2)]
    extra_a, extra_b = [], []
    # every sign class of bounds that simplify_expression distinguishes (negative, non-positive, positive, non-negative,
    # unrestricted) is met through EXTRA thetas that no other statement of the model uses (so the evaluation of the model
    # itself is not disturbed by negative values); the second operand is an extra or an original theta
    from pharmpy.model import Parameter, Parameters

    inf = float("inf")
    classes = [(1.5, -inf, inf), (2.0, -3.0, inf), (0.7, 0.0, inf), (1.2, 0.3, 9.0), (-1.5, -inf, 0.0), (-2.0, -16.0, -0.5),
               (-0.8, -inf, 2.5), (-1.1, -inf, inf), (0.9, -inf, 0.0 + 4.0), (3.0, 0.0, 12.0)]
    extra = []
    for j, (init, lo, hi) in enumerate(r.sample(classes, r.randint(2, 4))):
        extra.append(Parameter.create(f"SPTH{j}", init, lower=lo, upper=hi))
    m = m.replace(parameters=Parameters.create(list(m.parameters) + extra))
    xs = [q.name for q in extra]
    picks = [(r.choice(xs), r.choice(xs + thetas)) for _ in range(r.randint(2, 4))]
    for k, (xn, yn) in enumerate(picks):
        x = sympy.Symbol(xn)
        y = sympy.Symbol(yn)
        e = r.choice(forms)(x, y)
        sym = sympy.Symbol(f"SPROBE{k}")
        extra_a.append(Assignment.create(sym, e))
        extra_b.append(Assignment.create(sym, pm.simplify_expression(m, e)))
    sts = list(m.statements)
    i = next((j for j, s in enumerate(sts) if not isinstance(s, Assignment)), len(sts))
    a = m.replace(statements=Statements(tuple(sts[:i] + extra_a + sts[i:])))
    b = m.replace(statements=Statements(tuple(sts[:i] + extra_b + sts[i:])))
    return (a, b), {"__targets__": [f"SPROBE{k}" for k in range(len(extra_a))]}


# refactorings whose NONMEM result is also read back from its generated code (the written format is the model): the
# others have listed code-generation findings of their own under C02
REREAD_AFTER = ("convert_generic_and_back", "rename_symbols", "update_source")


import re as _re

_NM_RESERVED = _re.compile(r"^(S\d+|SC|S0|F\d+|F0|FO|ALAG\d+|R\d+|D\d+|K\d*(T\d+)?|KA|CL|V\d*|Q\d*|VSS|AOB|ALPHA|BETA|GAMMA|VM|KM|"
                           r"R\d\d|VMX|KMX|Y|F|W|IPRED|IRES|IWRES)$")


def _positional_names(src, dst):
    """old name -> new name for parameters (thetas in order, then the rest in order) and random variables by position."""
    m = {}
    for group in (lambda x: [p.name for p in x.theta_params], lambda x: list(x.eta_names), lambda x: list(x.eps_names)):
        a, b = group(src), group(dst)
        if len(a) != len(b):
            return None
        m.update({x: y for x, y in zip(a, b) if x != y})
    return m


def _reread_check(c, rng, model, new, recs, K, rname, steps, sname):
    """read(code(r(M))) must denote what r(M) denotes - judged only when read(code(M)) denotes what M denotes (so that a
    defect of code generation that M already shows is not put down to the refactoring)."""
    from pharmpy.modeling import read_model_from_string

    from vp import denote

    if getattr(getattr(new, "internals", None), "control_stream", None) is None:
        return
    if getattr(getattr(model, "internals", None), "control_stream", None) is None:
        return

    counter = [0]

    def rr(m):
        # through the file system, so that the model is read with its dataset (the F link of a model whose observation
        # records name compartments is derived from the CMT values of the data)
        from pathlib import Path

        from pharmpy.modeling import read_model, write_model

        counter[0] += 1
        d = Path(os.environ["VERIF_SCRATCH"]) / f"c07rr{os.getpid()}_{id(m) % 100000}_{counter[0]}"
        d.mkdir(parents=True, exist_ok=True)
        write_model(m, d / "rr.mod", force=True)
        return read_model(d / "rr.mod")

    def same(m):
        back = denote.IRDen(rr(m))
        here = denote.IRDen(m)
        ren = _positional_names(here, back)
        if ren is None:
            raise denote.Mismatch("the number of parameters / random variables differs after reading the code back")
        denote.compare_models(here, back, recs, random.Random(rng.random()), K, c, prefix="reread_", rename=ren)

    try:
        same(model)
    except Exception:
        c.hit("reread_precondition_failed")
        return
    c.hit("reread_checked")
    try:
        same(new)
    except denote.Mismatch as mm:
        key = None
        if rname == "convert_generic_and_back":
            # signature of the listed conversion finding in the written code: the scale parameter moved to another
            # compartment number (S3 = VC becomes S4 = VC for a model with two transit compartments)
            sc = lambda m: sorted(_re.findall(r"^\s*(S\d+)\s*=", m.code, _re.M))  # noqa: E731
            if sc(model) != sc(new) and mm.what.startswith("F:"):
                key = CONVERT_KEY
        c.violate(key, f"{rname} after {steps} on {sname}: the code generated for the result, read back, is another model "
                        f"(the original's code reads back as the original): {mm.what}", {"code": new.code.splitlines()[:80]})
    except Exception as e:
        c.violate(None, f"{rname} after {steps} on {sname}: the code generated for the result cannot be read back "
                        f"({type(e).__name__}: {str(e)[:120]}) although the original's code can", {"code": new.code.splitlines()[:80]})


def run_case(rng, idx, tier):
    from vp import denote, histories

    c = Case()
    K = 4 if tier == "quick" else 8
    starts = histories.start_models()
    sname = rng.choice(sorted(starts))
    model = starts[sname]
    if model.dataset is not None:
        model = model.replace(dataset=model.dataset.copy())
    A = histories.alphabet()
    steps = []
    for name in histories.random_history(rng, rng.randint(0, 3)):
        try:
            new = A[name][1](model, rng)
            if new is not None:
                model = new
                steps.append(name)
        except Exception:
            pass
    if idx % 10 == 5:
        return _numeric_evaluators(c, rng, idx, tier)
    if idx % 10 == 4:
        return _evaluators(c, rng, model, sname, steps, tier)
    if idx % 10 == 3:
        return _solve_ode(c, rng, model, sname, steps, tier)
    R = refactorings()
    rname = rng.choice(sorted(R))
    # a third of the refactoring cases start from a generated control stream (block IFs, re-assignments, statements
    # after Y, every ADVAN) instead of a corpus model; its own generator keeps the corpus cases what they were
    grng = random.Random(f"C07:gen:{os.environ.get('VERIF_SEED', '0')}:{idx}")
    if grng.random() < 0.34 and rname != "simplify_expression_probe":
        from pathlib import Path

        gm_model, gm = histories.gen_start_model(grng, Path(os.environ["VERIF_SCRATCH"]) / f"c07g{idx}")
        if gm_model is not None:
            model, steps = gm_model, []
            sname = f"gen:{gm['meta'].get('advan')}:{gm['meta'].get('trans')}"
            c.hit("generated_start_model")
            if grng.random() < 0.5:
                rname = grng.choice([n for n in REREAD_AFTER if n in R])
    c.sample = {"start": sname, "steps": steps, "refactoring": rname}
    c.fp = fp_of(sname, steps, rname)
    try:
        new, mapping = R[rname](model, rng)
        if isinstance(new, tuple):
            model, new = new
    except Exception as e:
        kind = histories.classify_exception(e)
        c.hit("refactoring_" + kind)
        if kind == "refusal":
            c.refusal = type(e).__name__
        else:
            c.hit(f"refactoring_internal:{rname}:{type(e).__name__}")
            c.skipped = "refactoring-internal-error"
        return c
    recs = denote.records_of(model)
    a = denote.IRDen(model)
    b = denote.IRDen(new)
    extra_targets = ()
    if isinstance(mapping, dict) and "__targets__" in mapping:
        mapping = dict(mapping)
        extra_targets = tuple(mapping.pop("__targets__"))
    try:
        if mapping is None:
            # greekify renames parameters and random variables in an undeclared way: compare structure only
            if len(a.theta_params) != len(b.theta_params) or len(a.eta_names) != len(b.eta_names):
                raise denote.Mismatch("greekify_model changed the number of parameters / etas")
            mapping = {p.name: q.name for p, q in zip(a.theta_params, b.theta_params)}
            mapping.update(dict(zip(a.eta_names, b.eta_names)))
            mapping.update(dict(zip(a.eps_names, b.eps_names)))
            stm = {}
            for s, t in zip(model.statements, new.statements):
                if hasattr(s, "symbol") and hasattr(t, "symbol"):
                    stm[s.symbol.name] = t.symbol.name
            mapping.update({k: v for k, v in stm.items() if k != v})
        j = denote.compare_models(a, b, recs, random.Random(rng.random()), K, c, rename=mapping, extra_targets=extra_targets)
        c.nontrivial = j > 0
        c.hit("held")
        if rname in REREAD_AFTER and not (rname == "rename_symbols" and any(_NM_RESERVED.match(k) for k in (mapping or {}))) \
                and not (rname == "convert_generic_and_back" and sname.startswith("gen:")):
            # (a PREDPP-reserved name such as S2 or KA carries meaning through its spelling in the control stream;
            # renaming one is the caller's business and is judged on the in-memory model only)
            _reread_check(c, rng, model, new, recs, K, rname, steps, sname)
    except denote.Mismatch as mm:
        key = None
        if rname == "mu_reference_model" and any(getattr(s, "symbol", None) is not None and s.symbol.name.startswith("mu_")
                                                  for s in model.statements):
            key = "C07/mu-reference-model-not-idempotent"
        elif rname.startswith("cleanup_model") and "reads undefined symbol" in mm.what:
            key = "C07/cleanup-model-drops-used-definition"
        elif rname.startswith("cleanup_model") and "dependent variable" in mm.what and "is not defined after" in mm.what:
            key = "C07/cleanup-model-removes-dv-definition"
        elif rname == "rename_symbols" and isinstance(mapping, dict) and any(k in a.dv_map for k in mapping) \
                and "dependent variable" in mm.what:
            key = "C07/rename-symbols-skips-dependent-variables"
        elif rname == "convert_generic_and_back" and sname.startswith("gen:") and _ode_rebuild_only(model, new, recs, rng, K, c):
            key = CONVERT_KEY
        c.violate(key, f"{rname} after {steps} on {sname}: {mm.what}", {"detail": mm.detail, "mapping": mapping})
        c.nontrivial = True
    return c


CONVERT_KEY = "C07/convert-generic-to-nonmem-rebuilds-ode-system"


def _ode_rebuild_only(model, new, recs, rng, K, c):
    """Delta check of CONVERT_KEY: with the ODE system of the original put back (if need be together with the original's
    $PK statements) the converted model denotes the original - the defect is confined to the rebuilt ODE system and the
    rate constants re-derived for it; the statements after the ODE system are still the conversion's."""
    from vp import denote

    try:
        if model.statements.ode_system is None or new.statements.ode_system is None:
            return False
        for keep_pk in (True, False):
            # first with only the ODE system put back, then also the $PK statements (the conversion renames and
            # re-derives rate constants there)
            pk = new.statements.before_odes if keep_pk else model.statements.before_odes
            patched = new.replace(statements=pk + model.statements.ode_system + new.statements.after_odes)
            try:
                denote.compare_models(denote.IRDen(model), denote.IRDen(patched), recs, random.Random(rng.random()), K, c, prefix="delta_")
                c.hit("delta_checks")
                return True
            except denote.Mismatch:
                continue
        return False
    except Exception:
        return False


def _numeric_evaluators(c, rng, idx, tier):
    """evaluate_population_prediction / _individual_prediction / _eta_gradient / _epsilon_gradient / _expression on
    ODE-free models with a dataset, under every combination of the optional arguments (given etas vs the model's
    initial individual estimates vs none; given parameters vs initial estimates; given dataset vs the model's),
    compared record by record with direct evaluation of the model's statements (vp.ir_eval) and central differences."""
    import os
    from pathlib import Path

    import numpy as np
    import pandas as pd
    import pharmpy.modeling as pm

    from vp import denote
    from vp.ir_eval import EvalError, Unbound, ev

    # ---- model: the packaged linearised example or a generated $PRED model with its dataset
    if rng.random() < 0.35:
        sname = "pheno_linear"
        model = pm.load_example_model("pheno_linear")
        model = model.replace(dataset=model.dataset.iloc[: rng.randint(20, 60)].reset_index(drop=True).copy())
    else:
        from vp.gen import nmtran as G

        sname = "gen:pred"
        wd = Path(os.environ["VERIF_SCRATCH"]) / f"c07n{idx}"
        wd.mkdir(parents=True, exist_ok=True)
        for _ in range(20):
            g = G.gen_model(rng, (), simple=False)
            if g["meta"]["kind"] == "pred":
                break
        else:
            c.skipped = "no-pred-model-generated"
            return c
        (wd / "data.csv").write_text(g["data"])
        (wd / "m.mod").write_text(g["text"].replace("DATAFILE", "data.csv"))
        try:
            model = pm.read_model(wd / "m.mod")
            _ = model.statements
        except Exception as e:
            c.refusal = type(e).__name__
            return c
    c.sample = {"start": sname, "refactoring": "numeric_evaluators"}
    ird = denote.IRDen(model)
    etas, epss = ird.eta_names, ird.eps_names
    ylab = next(iter(ird.dv_map))
    idcol = model.datainfo.id_column.name
    df_model = model.dataset
    ids = list(dict.fromkeys(df_model[idcol].tolist()))
    rvp = set(model.random_variables.parameter_names)

    def eta_frame(scale):
        return pd.DataFrame({n: [round(rng.uniform(-scale, scale), 3) for _ in ids] for n in etas}, index=ids)

    # ---- the optional arguments
    given_etas = eta_frame(0.4) if rng.random() < 0.6 else None
    iie = eta_frame(0.3) if rng.random() < 0.5 else None
    if iie is not None:
        model = model.replace(initial_individual_estimates=iie)
    given_pars = None
    if rng.random() < 0.5:
        thetas = [p for p in model.parameters if p.name not in rvp and not p.fix]
        if thetas:
            # a value for every parameter, as in the docstring examples (a partial dictionary is not documented)
            given_pars = {p.name: float(p.init) for p in model.parameters}
            given_pars.update({p.name: denote.sample_theta(rng, (float(p.init), float(p.lower), float(p.upper), p.fix)) for p in thetas})
    given_df = None
    if rng.random() < 0.4:
        given_df = df_model.iloc[::-1].reset_index(drop=True).copy() if rng.random() < 0.5 else df_model.iloc[: max(3, len(df_model) // 2)].copy()
    c.sample.update({"etas": given_etas is not None, "initial_individual_estimates": iie is not None,
                     "parameters": sorted(given_pars) if given_pars else None, "dataset": given_df is not None})
    c.fp = fp_of(sname, c.sample["etas"], c.sample["initial_individual_estimates"], bool(given_pars), c.sample["dataset"],
                 model.code if sname != "pheno_linear" else len(df_model))
    df = df_model if given_df is None else given_df
    eff_etas = given_etas if given_etas is not None else (iie if iie is not None else None)
    pvals = {p.name: float(p.init) for p in model.parameters}
    pvals.update(given_pars or {})

    def y_ref(row, eta_vals, eps_vals):
        vals = dict(pvals)
        vals.update(eta_vals)
        vals.update(eps_vals)
        rec = {k: (float(v) if isinstance(v, (int, float, np.integer, np.floating)) else v) for k, v in row.items()}
        env = denote._names_env(ird, vals, rec, float(rec.get("TIME", 0.0)) if "TIME" in rec else 0.0)
        return ird.run_pk(env, None)[ylab]

    def etas_of(row, zero=False):
        if zero or eff_etas is None:
            return {n: 0.0 for n in etas}
        return {n: float(eff_etas.loc[row[idcol], n]) for n in etas}

    zeros_eps = {n: 0.0 for n in epss}
    rows = [dict(r) for _, r in df.iterrows()]
    judged = 0

    def compare(name, got, want_fn, tol=1e-7):
        nonlocal judged
        got = list(np.asarray(got, dtype=float))
        if len(got) != len(rows):
            c.violate(None, f"{name} returned {len(got)} values for {len(rows)} data records", c.sample)
            return False
        for i, row in enumerate(rows):
            try:
                want = want_fn(row)
            except (EvalError, Unbound, ZeroDivisionError, OverflowError, ValueError):
                c.hit("numeric_point_rejected")
                continue
            g = got[i]
            if g != g:
                c.hit("numeric_point_rejected")  # pharmpy's own evaluation is undefined there, too
                continue
            c.hit("numeric_" + name)
            if abs(g - want) > tol * max(1.0, abs(g), abs(want)):
                c.violate(None, f"{name} (etas given: {given_etas is not None}, initial individual estimates: {iie is not None}, "
                                f"parameters given: {bool(given_pars)}, dataset given: {given_df is not None}) record {i}: "
                                f"pharmpy {g}, direct evaluation {want}", c.sample)
                return False
            judged += 1
        return True

    kw = {}
    if given_pars:
        kw["parameters"] = given_pars
    if given_df is not None:
        kw["dataset"] = given_df
    try:
        ok = compare("population_prediction", pm.evaluate_population_prediction(model, **kw),
                     lambda row: y_ref(row, etas_of(row, zero=True), zeros_eps))
        kwe = dict(kw)
        if given_etas is not None:
            kwe["etas"] = given_etas
        if given_etas is None and iie is not None:
            # "the current eta values" of a model with initial individual estimates: the gradient functions use them,
            # the individual prediction uses zeros - the documentation does not say which; not judged
            c.hit("not_judged:individual-prediction-without-etas-on-model-with-initial-individual-estimates")
        else:
            ok = ok and compare("individual_prediction", pm.evaluate_individual_prediction(model, **kwe),
                                lambda row: y_ref(row, etas_of(row), zeros_eps))
        if ok:
            eg = pm.evaluate_eta_gradient(model, **kwe)
            for k, n in enumerate(etas):
                def fd(row, n=n):
                    e0 = etas_of(row)

                    def d(h):
                        ep, em = dict(e0), dict(e0)
                        ep[n] += h
                        em[n] -= h
                        return (y_ref(row, ep, zeros_eps) - y_ref(row, em, zeros_eps)) / (2 * h)
                    a, b = d(1e-6), d(1e-4)
                    if abs(a - b) > 1e-5 * max(1.0, abs(a), abs(b)):
                        raise EvalError("difference quotient not stable (kink or ill-conditioned point)")
                    _resolvable(y_ref(row, e0, zeros_eps), 1e-4, b)
                    return a
                if not compare("eta_gradient", eg.iloc[:, k], fd, tol=2e-5):
                    ok = False
                    break
        if ok:
            pg = pm.evaluate_epsilon_gradient(model, **kwe)
            for k, n in enumerate(epss):
                def fd(row, n=n):
                    def d(h):
                        ep, em = dict(zeros_eps), dict(zeros_eps)
                        ep[n] += h
                        em[n] -= h
                        return (y_ref(row, etas_of(row), ep) - y_ref(row, etas_of(row), em)) / (2 * h)
                    a, b = d(1e-6), d(1e-4)
                    if abs(a - b) > 1e-5 * max(1.0, abs(a), abs(b)):
                        raise EvalError("difference quotient not stable (kink or ill-conditioned point)")
                    _resolvable(y_ref(row, etas_of(row), zeros_eps), 1e-4, b)
                    return a
                if not compare("epsilon_gradient", pg.iloc[:, k], fd, tol=2e-5):
                    break
    except Exception as e:
        from vp import histories

        kind = histories.classify_exception(e)
        c.hit("numeric_evaluator_" + kind + ":" + type(e).__name__)
        if kind == "refusal":
            c.refusal = type(e).__name__
        else:
            c.sample["error"] = f"{type(e).__name__}: {str(e)[:200]}"
            c.skipped = "numeric-evaluator-internal-error"
    c.nontrivial = judged > 0
    return c


def _resolvable(y0, h, quotient):
    """A double-precision difference quotient with step h resolves the derivative only to about eps*|y|/h: when the
    function value is so large that this exceeds the comparison tolerance (two quotients that are both exactly 0 are
    'stable' and wrong), the point is not judged."""
    from vp.ir_eval import EvalError

    resolution = 4 * 2.3e-16 * abs(float(y0)) / (2 * h)
    if resolution > 5e-6 * max(1.0, abs(float(quotient))):
        raise EvalError("difference quotient cannot resolve the derivative at this magnitude of the function value")


def _evaluators(c, rng, model, sname, steps, tier):
    """Gradient / prediction extractors vs direct evaluation and finite differences."""
    import pharmpy.modeling as pm

    from vp import denote
    from vp.ir_eval import EvalError, Unbound, ev
    from vp.numctx import CTX

    c.sample = {"start": sname, "steps": steps, "refactoring": "evaluators"}
    c.fp = fp_of(sname, steps, "evaluators")
    if _too_large_for_quick(model, tier):
        c.skipped = "ode-system-with-more-than-2-compartments-left-to-the-thorough-tier"
        return c
    if model.statements.ode_system is not None:
        # the extractors work on ODE-free models: use the closed-form solution (judged on its own below)
        try:
            solved = pm.solve_ode_system(model)
            if solved.statements.ode_system is not None:
                raise ValueError("not solved")
            model = solved
        except Exception as e:
            c.hit("evaluator_refused:unsolvable-ode")
            c.refusal = type(e).__name__
            return c
    try:
        eg = pm.calculate_eta_gradient_expression(model)
        epg = pm.calculate_epsilon_gradient_expression(model)
        ipred = pm.get_individual_prediction_expression(model)
        pred = pm.get_population_prediction_expression(model)
    except Exception as e:
        c.hit("evaluator_refused:" + type(e).__name__)
        c.refusal = type(e).__name__
        return c
    ird = denote.IRDen(model)
    recs = denote.records_of(model)
    etas, epss = ird.eta_names, ird.eps_names
    ylab = next(iter(ird.dv_map))
    judged = 0
    CTX.use_mp()  # closed-form solutions are sums of exponentials that cancel: 50 digits
    try:
        return _evaluators_body(c, rng, model, sname, steps, ird, recs, etas, epss, ylab, eg, epg, ipred, pred)
    finally:
        CTX.use_float()


def _evaluators_body(c, rng, model, sname, steps, ird, recs, etas, epss, ylab, eg, epg, ipred, pred):
    from vp import denote
    from vp.ir_eval import EvalError, Unbound, ev

    judged = 0
    for _ in range(6):
        vals = {}
        rvp = set(model.random_variables.parameter_names)
        for p in model.parameters:
            vals[p.name] = float(p.init) if p.name in rvp else denote.sample_theta(rng, (float(p.init), float(p.lower), float(p.upper), p.fix))
        for n in etas + epss:
            vals[n] = rng.uniform(-0.5, 0.5)
        rec = dict(rng.choice(recs)) if recs else {}
        amounts = {n: rng.uniform(0.1, 50.0) for n in ird.cnames}
        funcs = ird._funcs(amounts)

        def y_at(v):
            env = denote._names_env(ird, v, rec, 1.0)
            pk = ird.run_pk(env, amounts or None)
            er = ird.run_error(pk, amounts) if ird.cs is not None else pk
            return er[ylab]

        try:
            # conditioning probe: the closed-form amounts of chains with (nearly) equal rates cancel catastrophically;
            # a point whose value changes between 50 and 120 digits is not judged
            from vp.numctx import CTX

            base = y_at(vals)
            CTX.set_dps(120)
            try:
                base_hi = y_at(vals)
            finally:
                CTX.set_dps(50)
            if not denote.close(base, base_hi, 1e-12):
                c.hit("point_rejected_illconditioned")
                continue
            env0 = denote._names_env(ird, vals, rec, 1.0)
            # individual prediction expression = Y at eps = 0, as an expression of amounts and record items
            v0 = dict(vals)
            for n in epss:
                v0[n] = 0.0
            want_ipred = y_at(v0)
            got_ipred = ev(ipred, denote._names_env(ird, v0, rec, 1.0), funcs)
            c.hit("ipred_expr")
            if not denote.close(want_ipred, got_ipred, 1e-8):
                c.violate(None, f"get_individual_prediction_expression evaluates to {got_ipred}, the model gives {want_ipred} at eps=0",
                          {"start": sname, "steps": steps})
                return c
            v00 = dict(v0)
            for n in etas:
                v00[n] = 0.0
            want_pred = y_at(v00)
            got_pred = ev(pred, denote._names_env(ird, v00, rec, 1.0), funcs)
            c.hit("pred_expr")
            if not denote.close(want_pred, got_pred, 1e-8):
                c.violate(None, f"get_population_prediction_expression evaluates to {got_pred}, the model gives {want_pred} at eta=eps=0",
                          {"start": sname, "steps": steps})
                return c
            # eta gradient at eps = 0 by central differences
            for k, n in enumerate(etas):
                h = 1e-6
                vp_, vm_ = dict(v0), dict(v0)
                vp_[n] += h
                vm_[n] -= h
                fd = (y_at(vp_) - y_at(vm_)) / (2 * h)
                got = ev(eg[k], denote._names_env(ird, v0, rec, 1.0), funcs)
                c.hit("gradient_fd")
                if abs(fd - got) > 1e-5 * max(1.0, abs(fd), abs(got)):
                    c.violate(None, f"d/d{n}: calculate_eta_gradient_expression gives {got}, finite difference {fd}",
                              {"start": sname, "steps": steps})
                    return c
            for k, n in enumerate(epss):
                h = 1e-6
                vp_, vm_ = dict(vals), dict(vals)
                vp_[n] += h
                vm_[n] -= h
                fd = (y_at(vp_) - y_at(vm_)) / (2 * h)
                got = ev(epg[k], denote._names_env(ird, vals, rec, 1.0), funcs)
                c.hit("gradient_fd")
                if abs(fd - got) > 1e-5 * max(1.0, abs(fd), abs(got)):
                    c.violate(None, f"d/d{n}: calculate_epsilon_gradient_expression gives {got}, finite difference {fd}",
                              {"start": sname, "steps": steps})
                    return c
            judged += 1
        except (EvalError, Unbound):
            c.hit("point_rejected")
            continue
    c.nontrivial = judged > 0
    return c


def _too_large_for_quick(model, tier):
    """Closed forms of systems with more than two compartments take sympy up to minutes: thorough tier only."""
    cs = model.statements.ode_system
    return tier == "quick" and cs is not None and len(cs) > 2


def _solve_ode(c, rng, model, sname, steps, tier="thorough"):
    """solve_ode_system: the closed-form amounts must satisfy the original ODE system (d/dt of the closed form,
    by central differences in t, equals the vector field evaluated at the closed-form amounts) for t after a dose."""
    import pharmpy.modeling as pm

    from vp import denote
    from vp.ir_eval import EvalError, Unbound, ev
    from vp.numctx import CTX

    c.sample = {"start": sname, "steps": steps, "refactoring": "solve_ode_system"}
    c.fp = fp_of(sname, steps, "solve_ode_system")
    if model.statements.ode_system is None:
        c.skipped = "no-ode"
        return c
    if _too_large_for_quick(model, tier):
        c.skipped = "ode-system-with-more-than-2-compartments-left-to-the-thorough-tier"
        return c
    try:
        solved = pm.solve_ode_system(model)
    except Exception as e:
        from vp import histories

        c.hit("solve_" + histories.classify_exception(e))
        c.refusal = type(e).__name__
        return c
    if solved.statements.ode_system is not None:
        c.hit("solve_left_ode_unchanged")
        c.refusal = "unsolved"
        return c
    a = denote.IRDen(model)
    recs = [r for r in denote.records_of(model) if r.get("AMT", 0) > 0] or denote.records_of(model)
    closed = {}
    for s in solved.statements:
        if hasattr(s, "symbol") and s.symbol.is_function():
            closed[s.symbol.name] = s.expression
    names = [n for n in a.cnames if a.cs.find_compartment(n).amount.name in closed]
    if len(names) != len(a.cnames):
        c.hit("solve_not_all_amounts_closed_form")
        c.skipped = "partial-solution"
        return c
    CTX.use_mp()
    judged = 0
    try:
        for _ in range(5):
            vals = {}
            rvp = set(model.random_variables.parameter_names)
            for p in model.parameters:
                vals[p.name] = float(p.init) if p.name in rvp else denote.sample_theta(rng, (float(p.init), float(p.lower), float(p.upper), p.fix))
            for n in a.eta_names + a.eps_names:
                vals[n] = rng.uniform(-0.3, 0.3)
            rec = dict(rng.choice(recs)) if recs else {}
            t = rng.uniform(0.5, 12.0)
            h = 1e-5
            try:
                def amounts_at(tt):
                    env = denote._names_env(a, vals, rec, tt)
                    pk = a.run_pk(env, None)
                    # statements of the solved model up to the amounts
                    from pharmpy.model import Assignment

                    store = dict(pk)
                    store["t"] = tt
                    out = {}
                    for s in solved.statements:
                        if isinstance(s, Assignment):
                            v = ev(s.expression, store, {k: v for k, v in out.items()})
                            if s.symbol.is_function():
                                out[s.symbol.name] = v
                                if len(out) == len(closed):
                                    break
                            else:
                                store[s.symbol.name] = v
                    return out, pk

                a0, pk = amounts_at(t)
                ap, _ = amounts_at(t + h)
                am, _ = amounts_at(t - h)
                amounts = {n: a0[a.cs.find_compartment(n).amount.name] for n in a.cnames}
                field = a.field(pk, amounts)
            except (EvalError, Unbound):
                c.hit("point_rejected")
                continue
            for n in a.cnames:
                fn = a.cs.find_compartment(n).amount.name
                fd = (ap[fn] - am[fn]) / (2 * h)
                c.hit("closed_form_derivative")
                if abs(fd - field[n]) > 1e-5 * max(1.0, abs(fd), abs(field[n])):
                    # signature of the listed mechanism: two compartments with identical total elimination rate at
                    # this point (repeated eigenvalue of the compartmental matrix) - the closed form divides by the
                    # difference of the two rates
                    from pharmpy.model import output as _out

                    tot = []
                    for nn in a.cnames:
                        comp = a.cs.find_compartment(nn)
                        tot.append(sum(ev(rate, pk, a._funcs(amounts)) for _, rate in a.cs.get_compartment_outflows(comp)))
                    degenerate = any(abs(x - y) <= 1e-12 * max(1, abs(x)) for i, x in enumerate(tot) for y in tot[i + 1:])
                    c.violate("C07/solve-ode-repeated-eigenvalue" if degenerate else None, f"solve_ode_system on {sname} after {steps}: d/dt of the closed form of {n} at t={float(t):.3f} is "
                                    f"{float(fd)}, the ODE system gives {float(field[n])}", {"values": {k: float(v) for k, v in vals.items()}})
                    return c
            judged += 1
    finally:
        CTX.use_float()
    c.nontrivial = judged > 0
    return c
