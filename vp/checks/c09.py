"""C09 Model extensions implement documented formulas and are neutral at reference.

For every extension function f (covariate effects, allometry, IIV / IOV, eta transformations, error-model setters,
absorption / transit setters) the REAL function is applied to a start model M (corpus model + generated covariate
columns + <= 2 random history steps) with randomly drawn options.  M and f(M) are then evaluated at sampled points by
the independent evaluator (vp.ir_eval, 50-digit arithmetic) and compared with the *intervention semantics* of the
documented formula (vp.docs_frozen, transcribed from the docstrings):

    expected(f(M)) = M executed with the changed quantity replaced, at the place where it is defined, by
                     documented_formula(old value, new parameters, covariate, dataset statistics computed with numpy)

so that the changed quantity, everything downstream of it (vector field, F, Y) and everything unrelated are judged
in one comparison.  Further monitors: neutrality at the reference point, documented initial estimates / bounds of
the added parameters, pharmpy's has_*_error_model detectors against the functional form, remove_* restoring M.
"""
from __future__ import annotations

import itertools
import math
import random

from vp.farm import Case, fp_of

PROP = "C09"
LEVEL = "exploration"
RULE = (
    "(start model, <= 2 history steps, generated covariate columns, extension function, drawn options); strata by "
    "extension kind (covariate effect x effect type x operation, allometry, add_iiv forms, add_pk_iiv, add_iov "
    "distributions, eta transformations, error-model setters and their options, power / IIV on RUV, time varying, "
    "weighted, dtbs, blq m3/m4, absorption / transit / lag-time setters); distinct by (start, steps, dataset profile, "
    "kind, options); non-trivial when the extension was applied and the documented formula was compared at >= 1 "
    "sample point"
)
ASSUMPTIONS = [
    "documented formulas = vp/docs_frozen.py (transcribed from docstrings of add_covariate_effect, add_allometry, "
    "add_iiv, add_iov, transform_etas_*, set_*_error_model, set_power_on_ruv, set_iiv_on_ruv, "
    "set_time_varying_error_model, transform_blq and docs/modeling.rst)",
    "'median' / 'mean' / 'std' of a covariate: any of {statistic of per-individual statistics, statistic over all "
    "records, statistic of the baselines} is accepted; the generated covariates make median and mean distinct",
    "'most common category': by individuals or by records, ties: any of the tied categories",
    "computed bounds may be rounded to 4 decimals (the code does; the docstring gives the unrounded formula)",
    "'\\log' in the bounds of the exp effect: natural or base-10 logarithm accepted",
    "inter-occasion variability: the IOV eta of the record's occasion is added to the IIV eta (standard definition; "
    "the docstring of add_iov gives no formula)",
    "weighted error model: Y = f + W*eps with W**2 = sum of squared epsilon coefficients of the previous Y "
    "(docstring: 'Encode error model with one epsilon and W as weight')",
    "mean absorption / transit time (property anchors): first-order rate 1/MAT, zero-order duration 2*MAT, n transit "
    "compartments with rate n/MDT each",
    "sample points: thetas within their bounds clipped to [0.05, 20], etas / eps in [-0.7, 0.7], records of the "
    "dataset, amounts in [0.1, 50]; points that either side cannot evaluate are redrawn; agreement 1e-9 relative",
]
MIN_NONTRIVIAL = {"quick": 1200, "thorough": 12000}
REQUIRED_MONITORS = ["cov_formula", "cov_neutral", "cov_bounds", "cov_init", "allometry_formula", "iiv_formula",
                     "iiv_neutral", "iov_formula", "etatrans_formula", "etatrans_params", "err_formula", "err_init",
                     "err_detector", "power_formula", "iiv_on_ruv_formula", "time_varying_formula",
                     "weighted_formula", "absorption_mean_time", "transit_mean_time", "intervention_symbols",
                     "remove_restores"]
BATCH_TIMEOUT = {"quick": 2400, "thorough": 8 * 3600}

TOL = 1e-9


def n_cases(tier):
    return 3000 if tier == "quick" else 40000


def setup(tier):
    import pharmpy.modeling  # noqa

    from vp import histories

    histories.start_models()
    _extra_starts()


# ====================================================================================================== start models
_extra = {}


def _extra_starts():
    """pheno variants that the extension functions need: without the built-in WGT effects (allometry), without error
    model, with explicit MAT (absorption)."""
    if _extra:
        return _extra
    import pharmpy.modeling as pm

    from vp import histories

    S = histories.start_models()
    pheno = S["pheno_iv"]
    _extra.update(S)
    try:
        m = pm.remove_covariate_effect(pheno, "CL", "WGT")
        m = pm.remove_covariate_effect(m, "V", "WGT")
        _extra["pheno_nocov"] = m
    except Exception:
        pass
    try:
        _extra["pheno_noerr"] = pm.remove_error_model(pheno)
    except Exception:
        pass
    return _extra


def decorate(model, rng, profile):
    """Add generated covariate columns to a copy of the model's dataset.

    CVC  continuous, constant within individual, right-skewed (mean != median)
    CVT  continuous, varying within individual
    CAT2 two categories, constant within individual, unbalanced
    CAT3 three categories, constant within individual
    OCC  occasion 1..k varying within individual (for IOV)
    profile: 'plain' | 'median_at_min' (more than half of the individuals share the minimum of CVC) |
             'large_range' (CVC in the tens of thousands) | 'mode_tie' (two categories of CAT3 equally common)
    """
    import numpy as np
    import pandas as pd

    df = model.dataset.copy()
    g = np.random.default_rng(rng.getrandbits(32))
    ids = list(dict.fromkeys(df["ID"].tolist()))
    if len(ids) < 12:
        # generated start models come with 2-4 individuals: replicate them under new ids
        parts = [df]
        step = int(max(ids)) + 1
        j = 1
        while len(ids) * (j) < 12:
            d2 = df.copy()
            d2["ID"] = d2["ID"] + step * j
            parts.append(d2)
            j += 1
        df = pd.concat(parts, ignore_index=True)
        ids = list(dict.fromkeys(df["ID"].tolist()))
    n = len(ids)
    base = np.round(np.exp(g.normal(3.0, 0.7, n)) + 3.0, 1)
    if profile == "median_at_min":
        k = int(n * 0.6)
        lo = float(base.min())
        idx = g.permutation(n)[:k]
        base[idx] = lo
    if profile == "large_range":
        base = np.round(base * 2500.0, 0)
    cvc = dict(zip(ids, base.tolist()))
    df["CVC"] = df["ID"].map(cvc).astype(float)
    drift = np.round(g.normal(0.0, 0.08, len(df)) * df["CVC"].to_numpy(), 1)
    df["CVT"] = np.round(df["CVC"].to_numpy() * 0.5 + 2.0 + np.abs(drift), 1)
    p2 = rng.choice([0.25, 0.35, 0.7])
    c2 = (g.random(n) < p2).astype(float)
    if c2.min() == c2.max():
        c2[0] = 1.0 - c2[0]
    df["CAT2"] = df["ID"].map(dict(zip(ids, c2.tolist()))).astype(float)
    levels = [1.0, 2.0, 3.0]
    if profile == "mode_tie":
        c3 = np.array([levels[i % 3] if i % 3 != 2 else levels[2] for i in range(n)])
        # make level 1 and 2 exactly equally common and more common than 3
        c3 = np.array(([1.0, 2.0] * n)[:n - n // 5] + [3.0] * (n // 5))
        if (c3 == 1.0).sum() != (c3 == 2.0).sum():
            c3[np.where(c3 == 1.0)[0][0]] = 3.0
        g.shuffle(c3)
    else:
        w = rng.choice([(0.5, 0.3, 0.2), (0.2, 0.55, 0.25), (0.15, 0.25, 0.6)])
        c3 = g.choice(levels, size=n, p=w)
        for lv in levels:
            if not (c3 == lv).any():
                c3[int(lv) - 1] = lv
    df["CAT3"] = df["ID"].map(dict(zip(ids, c3.tolist()))).astype(float)
    nocc = rng.choice([2, 2, 3])
    occ = np.zeros(len(df))
    pos = 0
    for _, grp in df.groupby("ID", sort=False):
        m = len(grp)
        for j in range(m):
            occ[pos + j] = 1 + (j * nocc) // m
        pos += m
    df["OCC"] = occ.astype(float)
    return model.replace(dataset=df)


def covariate_stats(df, cov):
    """numpy statistics of a covariate column: every reading of 'median' / 'mean' / 'std' the docs allow."""
    import numpy as np

    x = df[cov].to_numpy(dtype=float)
    idv = df["ID"].to_numpy()
    per = {}
    order = []
    for i, v in zip(idv, x):
        if i not in per:
            per[i] = []
            order.append(i)
        per[i].append(v)
    id_medians = np.array([np.median(per[i]) for i in order])
    id_means = np.array([np.mean(per[i]) for i in order])
    baselines = np.array([per[i][0] for i in order])
    st = {
        "median": sorted({float(np.median(id_medians)), float(np.median(x)), float(np.median(baselines))}),
        "mean": sorted({float(np.mean(id_means)), float(np.mean(x)), float(np.mean(baselines))}),
        "std": sorted({float(np.std(id_means, ddof=1)), float(np.std(x, ddof=1)), float(np.std(baselines, ddof=1)),
                       float(np.std(id_means)), float(np.std(x)), float(np.std(baselines))}),
        "min": float(x.min()),
        "max": float(x.max()),
    }
    # categories
    vals, cnt = np.unique(x, return_counts=True)
    by_rec = {float(v): int(k) for v, k in zip(vals, cnt)}
    by_id = {}
    for i in order:
        for v in set(per[i]):
            by_id[float(v)] = by_id.get(float(v), 0) + 1
    st["levels"] = sorted(by_rec)
    mr = max(by_rec.values())
    mi = max(by_id.values())
    st["most_common"] = sorted({v for v, k in by_rec.items() if k == mr} | {v for v, k in by_id.items() if k == mi})
    return st


# ====================================================================================================== evaluation
class PointRejected(Exception):
    pass


def last_assignment_index(model, name):
    from pharmpy.model import Assignment

    idx = None
    for i, s in enumerate(model.statements):
        if isinstance(s, Assignment) and s.symbol.name == name:
            idx = i
    return idx


def assigned_names(model):
    from pharmpy.model import Assignment

    return [s.symbol.name for s in model.statements if isinstance(s, Assignment) and s.symbol.is_symbol()]


def run(model, vals, rec, amounts, t=1.0, override=None, rv_subst=None, den=None):
    """Execute every statement of `model` in order on the environment (vals: parameter / eta / eps values by name,
    rec: data record, amounts: compartment name -> amount).

    override = (statement index, symbol name, fn(store) -> value): after that statement the symbol is replaced.
    rv_subst = {name: fn(store) -> value}: values of random variables replaced before execution.
    Returns (store, field or None, events or None).  Raises EvalError / Unbound of vp.ir_eval."""
    from pharmpy.model import Assignment

    from vp import denote
    from vp.ir_eval import ev

    st = {}
    for k, v in vals.items():
        st[k] = v
    for p in model.parameters:
        st.setdefault(p.name, float(p.init))
    for n in model.random_variables.names:
        st.setdefault(n, 0.0)
    st.update(rec)
    st["t"] = t
    if rv_subst:
        new = {k: fn(st) for k, fn in rv_subst.items()}
        st.update(new)
    cs = model.statements.ode_system
    funcs = {}
    if cs is not None:
        for n in cs.compartment_names:
            funcs[cs.find_compartment(n).amount.name] = amounts[n]
    field = events = None
    overrides = override if isinstance(override, list) else ([override] if override else [])
    for i, s in enumerate(model.statements):
        if isinstance(s, Assignment):
            if s.symbol.is_symbol():
                st[s.symbol.name] = ev(s.expression, st, funcs)
            for o in overrides:
                if o[0] == i:
                    st[o[1]] = o[2](st)
        else:
            d = den or denote.IRDen(model)
            field = d.field(st, amounts)
            events = d.events(st)
    return st, field, events


def draw_point(rng, models, recs, fixed=None, eta_range=0.7, new_param_sampler=None):
    """A sample point valid for all given models: parameter values (thetas sampled within bounds, variance
    parameters at their initial estimates), etas / eps, a record, amounts for every compartment name."""
    from vp import denote

    vals = {}
    for m in models:
        rvp = set(m.random_variables.parameter_names)
        for p in m.parameters:
            if p.name in vals:
                continue
            if p.name in rvp:
                vals[p.name] = float(p.init)
            elif new_param_sampler is not None and p.name in new_param_sampler:
                vals[p.name] = new_param_sampler[p.name](rng)
            else:
                vals[p.name] = denote.sample_theta(rng, (float(p.init), float(p.lower), float(p.upper), p.fix))
        for n in m.random_variables.names:
            if n not in vals:
                vals[n] = rng.uniform(-eta_range, eta_range)
    if fixed:
        vals.update(fixed)
    rec = dict(rng.choice(recs)) if recs else {}
    amounts = {}
    for m in models:
        cs = m.statements.ode_system
        if cs is not None:
            for n in cs.compartment_names:
                amounts.setdefault(n, rng.uniform(0.1, 50.0))
    t = rng.uniform(0.0, 48.0)
    return vals, rec, amounts, t


def close(a, b, rtol=TOL):
    if isinstance(a, bool) or isinstance(b, bool):
        return bool(a) == bool(b)
    if isinstance(a, str) or isinstance(b, str):
        return a == b
    if a == b:
        return True
    return abs(a - b) <= rtol * max(1.0, abs(a), abs(b))


def compare_runs(E, A, names, skip=()):
    """E, A = (store, field, events).  -> None or a message describing the first disagreement."""
    es, ef, ee = E
    as_, af, ae = A
    for n in names:
        if n in skip:
            continue
        if n in es and n in as_:
            if not close(es[n], as_[n]):
                return f"{n}: expected {_f(es[n])}, extended model gives {_f(as_[n])}"
    if ef is not None and af is not None:
        for n in ef:
            if n in af and not close(ef[n], af[n], 1e-8):
                return f"d/dt of compartment {n}: expected {_f(ef[n])}, extended model gives {_f(af[n])}"
    if ee is not None and ae is not None:
        for n in ee:
            if n not in ae:
                continue
            for k in ("lag", "bio"):
                if not close(ee[n][k], ae[n][k]):
                    return f"{k} of compartment {n}: expected {ee[n][k]}, extended model gives {ae[n][k]}"
            if len(ee[n]["doses"]) != len(ae[n]["doses"]):
                return f"doses of compartment {n} changed"
    return None


def _f(x):
    try:
        return float(x)
    except Exception:
        return x


def records(model, limit=60):
    from vp import denote

    return denote.records_of(model, limit)


def _pt(vals, rec):
    return {"vals": {k: round(float(v), 6) for k, v in list(vals.items())[:14]},
            "rec": {k: v for k, v in list(rec.items())[:12]}}


def limited(fn, seconds=6):
    """Call fn() under a shorter alarm than the farm's case watchdog (pharmpy's detectors call sympy.simplify, which
    can run for minutes on piecewise expressions).  -> (value, None) or (None, 'timeout' | exception name)."""
    import signal

    from vp.farm import CaseTimeout

    remaining = signal.alarm(seconds)
    try:
        return fn(), None
    except CaseTimeout:
        return None, "timeout"
    except Exception as e:
        return None, type(e).__name__
    finally:
        signal.alarm(max(1, remaining - seconds) if remaining else 0)


def with_mp(fn):
    def w(*a, **k):
        from vp.numctx import CTX

        CTX.use_mp()
        try:
            return fn(*a, **k)
        finally:
            CTX.use_float()

    w.__name__ = fn.__name__
    return w


# ====================================================================================================== history
HIST_GROUPS = {"structural": 3, "stochastic": 2, "error": 1.5, "covariate": 1.5, "parameter": 1, "refactor": 0.3}


_gen_counter = [0]
_last_start = {"generated": False}


def _generated_start(rng):
    """A generated control stream (vp.gen.nmtran, stratum A of C01) read by pharmpy: other ADVANs, rate-constant
    parameterisations, $DES, IF blocks, exponential error."""
    import os
    import shutil
    from pathlib import Path

    from vp import histories

    base = Path(os.environ.get("VERIF_SCRATCH", "/var/tmp/c09dev/scratch"))
    _gen_counter[0] += 1
    wd = base / f"c09gen{os.getpid()}_{_gen_counter[0]}"
    try:
        model, meta = histories.gen_start_model(rng, wd)
        if model is None:
            return None, None
        _ = model.dataset
        m = meta["meta"]
        return model, f"gen:{m.get('kind')}:{m.get('advan')}:{m.get('trans', '')}"
    except Exception:
        return None, None
    finally:
        shutil.rmtree(wd, ignore_errors=True)


def build_start(rng, starts_allowed, nsteps, profile="plain", avoid=(), gen=0.0, groups=None):
    """-> (model, start name, applied steps).  History steps that fail are dropped.
    gen: probability of a generated control stream as start model (no history steps on those)."""
    from vp import histories
    from vp.farm import CaseTimeout

    S = _extra_starts()
    model = None
    _last_start["generated"] = False
    if gen and rng.random() < gen:
        model, sname = _generated_start(rng)
        if model is not None and len(model.dependent_variables) == 1 and "ID" in model.dataset.columns:
            try:
                _last_start["generated"] = True
                return decorate(model, rng, profile), sname, []
            except CaseTimeout:
                raise
            except Exception:
                pass
        _last_start["generated"] = False
    sname = rng.choice([s for s in starts_allowed if s in S])
    model = decorate(S[sname], rng, profile)
    A = histories.alphabet()
    steps = []
    for name in histories.random_history(rng, nsteps, groups or HIST_GROUPS):
        if name in avoid:
            continue
        try:
            new = A[name][1](model, rng)
            if new is not None:
                model = new
                steps.append(name)
        except CaseTimeout:
            raise
        except Exception:
            pass
    return model, sname, steps


def apply_real(c, fn, label):
    """Call the real pharmpy function.  -> model or None (refusal / internal error recorded on c)."""
    from vp import histories

    from vp.farm import CaseTimeout

    try:
        return fn()
    except CaseTimeout:
        raise
    except Exception as e:
        kind = histories.classify_exception(e)
        if kind == "refusal":
            c.refusal = type(e).__name__
            c.hit("refused:" + label)
        else:
            c.hit(f"internal_error:{label}:{type(e).__name__}")
            c.skipped = f"internal-error:{label}:{type(e).__name__}"
            c.sample = {"case": c.sample, "error": f"{type(e).__name__}: {str(e)[:300]}"}
        return None


def individual_parameters(model):
    import pharmpy.modeling as pm

    ps = []
    if not _last_start["generated"]:
        # (on generated control streams with deeply self-referential IF blocks get_individual_parameters can overflow
        # the native stack of the symbolic engine and kill the worker: the fallback below is used for them)
        try:
            ps = [str(p) for p in pm.get_individual_parameters(model)]
        except Exception:
            ps = []
    names = set(assigned_names(model))
    ps = [p for p in ps if p in names]
    if not ps:
        # fallback: symbols assigned before the ODE system that the compartmental system reads
        cs = model.statements.ode_system
        if cs is not None:
            used = {s_.name for s_ in cs.free_symbols}
            before = [s_.symbol.name for s_ in model.statements.before_odes if hasattr(s_, "symbol")]
            ps = [n for n in dict.fromkeys(before) if n in used]
    return ps


# ====================================================================================================== the plan
KINDS = [
    # (kind, weight)
    ("cov", 30), ("allometry", 6), ("iiv", 10), ("iiv_multi", 3), ("pk_iiv", 2), ("iov", 6), ("etatrans", 8), ("err_basic", 12),
    ("power", 5), ("iiv_on_ruv", 4), ("time_varying", 3), ("weighted", 3), ("dtbs", 2), ("blq", 3),
    ("absorption", 4), ("transit", 3), ("lagtime", 1),
]
_plan = []
for _k, _w in KINDS:
    _plan += [_k] * _w


def kind_of(idx):
    # deterministic interleaving so that every tier and every --only subset sees all kinds
    return _plan[(idx * 37) % len(_plan)]


def run_case(rng, idx, tier):
    kind = kind_of(idx)
    c = Case()
    c.sample = {"kind": kind}
    K = 4 if tier == "quick" else 6
    fn = globals()["case_" + kind]
    return fn(c, rng, idx, K)


# ====================================================================================================== covariates
def _mp(x):
    from vp.numctx import CTX

    return CTX.val(x)


def _custom_effects():
    from vp import docs_frozen as D

    # (expression given to pharmpy, reference function(cov, thetas, stats), number of thetas, statistics used)
    return [
        ("((cov/std) - median) * theta", lambda cov, th, s: ((cov / s["std"]) - s["median"]) * th[0], 1, ("std", "median")),
        ("theta*(cov - mean)/std + 1", lambda cov, th, s: th[0] * (cov - s["mean"]) / s["std"] + 1, 1, ("mean", "std")),
        ("exp(theta1*(cov - median)) + theta2*(cov - mean)",
         lambda cov, th, s: D.exp(th[0] * (cov - s["median"])) + th[1] * (cov - s["mean"]), 2, ("median", "mean")),
        ("1 + theta*log(cov/mean)", lambda cov, th, s: 1 + th[0] * D.log(cov / s["mean"]), 1, ("mean",)),
        ("1 + theta*cov", lambda cov, th, s: 1 + th[0] * cov, 1, ()),
    ]


COV_STRATA = [
    # (stratum, weight): stratum A = constructs without a listed finding
    ("A", 56), ("piece_lin", 9), ("cat2", 8), ("plus", 11), ("median_at_min_exp", 6), ("large_range", 5),
    ("intermediate_param", 5),
]


def _pick_stratum(rng, table):
    names = [n for n, _ in table]
    return rng.choices(names, [w for _, w in table])[0]


@with_mp
def case_cov(c, rng, idx, K):
    import pharmpy.modeling as pm

    from vp import docs_frozen as D
    from vp.ir_eval import EvalError, Unbound

    stratum = _pick_stratum(rng, COV_STRATA)
    profile = {"median_at_min_exp": "median_at_min", "large_range": "large_range"}.get(stratum, rng.choice(["plain", "plain", "mode_tie"]))
    nsteps = rng.choice([0, 0, 1, 1, 2])
    M, sname, steps = build_start(rng, ["pheno_iv", "pheno_oral", "pheno_zo", "pheno_2cmt", "pheno_nocov"], nsteps, profile,
                                  gen=0.15 if stratum in ("A", "plus", "piece_lin", "cat2") else 0.0)
    params = individual_parameters(M)
    if not params:
        c.skipped = "no-individual-parameters"
        return c
    # ---- options
    if stratum == "A":
        effect = rng.choice(["lin", "lin", "exp", "exp", "pow", "pow", "cat", "cat", "custom"])
        op = "*"
    elif stratum == "piece_lin":
        effect, op = "piece_lin", "*"
    elif stratum == "cat2":
        effect, op = "cat2", "*"
    elif stratum == "plus":
        effect, op = rng.choice(["lin", "exp", "pow", "cat", "custom"]), "+"
    elif stratum == "median_at_min_exp":
        effect, op = "exp", "*"
    elif stratum == "large_range":
        effect, op = rng.choice(["lin", "exp"]), "*"
    else:
        effect, op = rng.choice(["lin", "exp", "pow"]), "*"
    custom = None
    if effect == "custom":
        custom = rng.choice(_custom_effects())
    cols = set(M.dataset.columns)
    if effect in ("cat", "cat2"):
        cov = rng.choice([x for x in ["CAT2", "CAT2", "CAT3", "CAT3", "FA1", "APGR"] if x in cols])
    elif stratum in ("median_at_min_exp", "large_range"):
        cov = "CVC"
    else:
        cov = rng.choice([x for x in ["CVC", "CVC", "CVT", "CVT", "WGT", "APGR", "AGE"] if x in cols])
    p = rng.choice(params)
    if stratum == "intermediate_param":
        inter = [n for n in dict.fromkeys(assigned_names(M)) if n not in params
                 and last_assignment_index(M, n) is not None and not n.endswith(("_MEDIAN", "_MEAN", "_STD"))]
        cs_i = next((i for i, s in enumerate(M.statements) if not hasattr(s, "symbol")), len(M.statements))
        inter = [n for n in inter if last_assignment_index(M, n) < cs_i]
        if inter:
            p = rng.choice(inter)
    allow_nested = rng.random() < 0.25
    if stratum != "intermediate_param":
        # parameters whose last assignment is an IF block: listed finding, kept to the dedicated stratum
        ok_params = []
        for q in params:
            try:
                if not M.statements[last_assignment_index(M, q)].expression.is_piecewise():
                    ok_params.append(q)
            except Exception:
                ok_params.append(q)
        if ok_params and p not in ok_params:
            p = rng.choice(ok_params)
    eff_arg = custom[0] if custom else effect
    if stratum in ("A", "plus") and rng.random() < 0.3:
        # the parameter already carries an effect of ANOTHER covariate (a pure effect statement p = p*pCOV0): the new
        # effect must still be combined by the requested operation
        others = [x for x in ["CVC", "CVT", "WGT", "AGE"] if x in cols and x != cov]
        if others:
            cov0 = rng.choice(others)
            try:
                M = pm.add_covariate_effect(M, p, cov0, rng.choice(["lin", "exp"]), "*")
                steps = list(steps) + [f"add_covariate_effect({p},{cov0},*)"]
            except Exception:
                c.hit("earlier_effect_refused")
    c.sample = {"kind": "cov", "stratum": stratum, "start": sname, "steps": steps, "profile": profile,
                "call": f"add_covariate_effect(m, {p!r}, {cov!r}, {eff_arg!r}, {op!r}, allow_nested={allow_nested})"}
    c.fp = fp_of("cov", sname, steps, profile, p, cov, eff_arg, op, allow_nested)
    if cov not in M.dataset.columns:
        c.skipped = "covariate-missing"
        return c
    try:
        already = bool(pm.has_covariate_effect(M, p, cov))  # documented precondition of the no-op
    except Exception:
        already = False
    M2 = apply_real(c, lambda: pm.add_covariate_effect(M, p, cov, eff_arg, op, allow_nested=allow_nested), "add_covariate_effect")
    if M2 is None:
        if c.skipped and c.skipped.endswith(":TypeError") and not (already and not allow_nested):
            i_p = last_assignment_index(M, p)
            try:
                pw = M.statements[i_p].expression.is_piecewise()
            except Exception:
                pw = False
            if pw:
                c.skipped = None
                c.nontrivial = True
                c.hit("cov_formula")
                c.violate("C09/covariate-effect-on-piecewise-parameter-typeerror",
                          f"{c.sample['case']['call'] if isinstance(c.sample, dict) and 'case' in c.sample else ''}: TypeError (unhashable "
                          f"BooleanExpr) - the last assignment of {p} is a Piecewise (IF block)")
        return c
    newp = [q.name for q in M2.parameters if q.name not in set(M.parameters.names)]
    if already and not allow_nested:
        # documented: nothing is added (a warning is given)
        c.hit("cov_existing_noop")
        if newp or assigned_names(M2) != assigned_names(M):
            c.violate(None, f"add_covariate_effect on an existing ({p}, {cov}) effect without allow_nested changed the model")
        c.nontrivial = False
        return c
    if not newp:
        c.violate(None, f"add_covariate_effect({p}, {cov}, {eff_arg}) added no parameter")
        return c
    stats = covariate_stats(M.dataset, cov)
    recs = records(M2)
    cat = effect in ("cat", "cat2")
    levels = stats["levels"]

    # ---- documented sampling region of the new thetas (keeps the effect positive)
    cm = stats["median"][0]
    rng_hi = max(stats["max"] - cm, 1e-9)
    rng_lo = max(cm - stats["min"], 1e-9)

    def th_sampler(r):
        if effect in ("lin", "piece_lin"):
            return r.uniform(-0.8 / rng_hi, 0.8 / rng_lo) or 0.01
        if effect == "exp":
            return r.uniform(-1.5, 1.5) / max(rng_hi, rng_lo)
        if effect == "pow":
            return r.uniform(-1.5, 1.5)
        if effect == "cat":
            return r.uniform(-0.8, 2.5)
        if effect == "cat2":
            return r.uniform(0.2, 3.0)
        return r.uniform(-0.4, 0.4) / max(1.0, rng_hi if "cov" in eff_arg and "log" not in eff_arg and "std" not in eff_arg else 1.0)

    sampler = {q: th_sampler for q in newp}
    # ---- sample points; covariate values cover both sides of the centre / every category
    npts = max(K, (len(levels) + 1) if cat else K)
    if cat:
        forced = list(levels) + [rng.choice(levels) for _ in range(npts)]
    else:
        obs = sorted(set(M.dataset[cov].tolist()))
        below = [v for v in obs if v < cm] or obs
        above = [v for v in obs if v > cm] or obs
        forced = [rng.choice(below), rng.choice(above)] + [rng.choice(obs) for _ in range(npts)]
    pts = []
    attempts = 0
    i_last = last_assignment_index(M, p)
    while len(pts) < npts and attempts < 6 * npts:
        attempts += 1
        vals, rec, amounts, t = draw_point(rng, [M, M2], recs, new_param_sampler=sampler)
        rec[cov] = float(forced[len(pts)])
        try:
            E0 = run(M, vals, rec, amounts, t)
            A = run(M2, vals, rec, amounts, t)
        except EvalError:
            c.hit("point_rejected")
            continue
        except Unbound as u:
            # the original may read data items that the record lacks; the extended model must not read more
            try:
                run(M, vals, rec, amounts, t)
            except Unbound:
                c.hit("point_rejected_unbound_in_original")
                continue
            c.violate(None, f"{c.sample['call']}: the extended model reads undefined symbol {u}")
            return c
        pts.append((vals, rec, amounts, t, E0, A))
    if not pts:
        c.hit("no_point_judged")
        return c
    combine = (lambda a, e: a * e) if op == "*" else (lambda a, e: a + e)

    # ---- identify (theta roles, centring statistic / reference category) for which the documented formula holds
    found = None
    if cat:
        found = _identify_cat(pts, p, cov, newp, stats, effect == "cat2", combine)
    elif custom:
        expr, ref, nth, used = custom
        cand = [dict(zip(used, combo)) for combo in itertools.product(*[stats[u] for u in used])] or [{}]
        for perm in itertools.permutations(newp):
            for s in cand:
                sm = {k: _mp(v) for k, v in s.items()}
                if all(close(A[0][p], combine(E0[0][p], ref(_mp(rec[cov]), [vals[q] for q in perm], sm)))
                       for vals, rec, amounts, t, E0, A in pts):
                    found = (perm, s)
                    break
            if found:
                break
    else:
        f = D.COV_EFFECT[effect]
        for perm in itertools.permutations(newp):
            for cc in stats["median"]:
                try:
                    ok = all(close(A[0][p], combine(E0[0][p], f(_mp(rec[cov]), [_mp(vals[q]) for q in perm], _mp(cc))))
                             for vals, rec, amounts, t, E0, A in pts)
                except (ValueError, ZeroDivisionError):
                    ok = False
                if ok:
                    found = (perm, cc)
                    break
            if found:
                break
    c.hit("cov_formula", len(pts))
    c.nontrivial = True
    if len(newp) != (len(levels) - 1 if cat else (custom[2] if custom else D.COV_NTHETA[effect])):
        c.violate(None, f"{c.sample['call']}: {len(newp)} parameters added ({newp}); the documented template has a different number")
        return c
    if found is None:
        why = ""
        if not cat and not custom:
            for cc in stats["mean"]:
                for perm in itertools.permutations(newp):
                    try:
                        if all(close(A[0][p], combine(E0[0][p], D.COV_EFFECT[effect](_mp(rec[cov]), [_mp(vals[q]) for q in perm], _mp(cc))))
                               for vals, rec, amounts, t, E0, A in pts):
                            why = f" (it holds with the MEAN {cc} as centre; documented is the median {stats['median']})"
                    except (ValueError, ZeroDivisionError):
                        pass
        vals, rec, amounts, t, E0, A = pts[0]
        key = None
        if allow_nested and already and f"{p}{cov}" in assigned_names(M):
            key = "C09/nested-covariate-effect-reuses-effect-symbol"
        c.violate(key, f"{c.sample['call']}: {p} after = {_f(A[0][p])}, before = {_f(E0[0][p])} at {cov}={rec[cov]}, "
                        f"new thetas {[(q, _f(vals[q])) for q in newp]}: not the documented effect function for any documented "
                        f"centring statistic {stats['median'] if not cat else stats['most_common']}{why}")
        return c
    perm, centre = found

    # ---- intervention semantics: everything else follows from the changed parameter
    def expected_value(st, vals, rec):
        x = _mp(rec[cov])
        if cat:
            eff = _cat_effect(x, perm, centre, vals, effect == "cat2")
        elif custom:
            eff = custom[1](x, [vals[q] for q in perm], {k: _mp(v) for k, v in centre.items()})
        else:
            eff = D.COV_EFFECT[effect](x, [_mp(vals[q]) for q in perm], _mp(centre))
        return combine(st[p], eff)

    names = [n for n in dict.fromkeys(assigned_names(M)) if n in set(assigned_names(M2))]
    for vals, rec, amounts, t, E0, A in pts:
        try:
            E = run(M, vals, rec, amounts, t, override=(i_last, p, lambda st, v=vals, r=rec: expected_value(st, v, r)))
        except (EvalError, Unbound):
            c.hit("point_rejected")
            continue
        c.hit("intervention_symbols", len(names))
        msg = compare_runs(E, A, names)
        if msg:
            c.violate(None, f"{c.sample['call']}: {msg} (expected = original model with {p} replaced by the documented "
                            f"formula after its last assignment) at {_pt(vals, rec)}")
            return c

    # ---- neutrality at the reference point: covariate at the centre / most common category, any theta
    if not custom:
        ref_value = centre if not cat else centre[0]
        ok = True
        for vals, rec, amounts, t, E0, A in pts[:K]:
            rec2 = dict(rec)
            rec2[cov] = float(ref_value)
            try:
                E = run(M, vals, rec2, amounts, t)
                A2 = run(M2, vals, rec2, amounts, t)
            except (EvalError, Unbound):
                c.hit("point_rejected")
                continue
            c.hit("cov_neutral")
            msg = compare_runs(E, A2, names)
            if msg:
                ok = False
                key = "C09/additive-covariate-effect-not-neutral-at-reference" if op == "+" else None
                c.violate(key, f"{c.sample['call']}: at the reference covariate value {cov}={ref_value} the extended model differs "
                               f"from the original: {msg}")
                break
    else:
        c.hit("not_judged:neutrality-of-custom-effect")

    # ---- documented initial estimates and bounds
    if custom:
        c.hit("not_judged:bounds-of-custom-effect")
    else:
        _cov_params(c, M2, effect, perm, centre if not cat else None, stats, stratum)

    # ---- removal restores the previous function
    if already:
        c.hit("not_judged:remove-of-nested-effect")
    elif p not in params:
        c.hit("not_judged:remove-on-intermediate-symbol")
    else:
        _cov_remove(c, rng, M, M2, p, cov, K)
    return c


def _cat_effect(x, perm, centre, vals, alternative):
    """perm: {level: theta name}; centre: (reference level,)"""
    from vp import docs_frozen as D

    xv = float(x)
    if xv == centre[0]:
        return D.cov_cat(True, None, alternative)
    return D.cov_cat(False, _mp(vals[perm[xv]]), alternative)


def _identify_cat(pts, p, cov, newp, stats, alternative, combine):
    """Find the reference category (must be one of the most common) and an injective map level -> theta such that the
    documented categorical effect holds at every point."""
    from vp import docs_frozen as D

    for ref in stats["most_common"]:
        mapping = {}
        ok = True
        for vals, rec, amounts, t, E0, A in pts:
            lv = float(rec[cov])
            if lv == ref:
                if not close(A[0][p], combine(E0[0][p], D.cov_cat(True, None, alternative))):
                    ok = False
                    break
                continue
            cands = [q for q in newp if close(A[0][p], combine(E0[0][p], D.cov_cat(False, _mp(vals[q]), alternative)))]
            if lv in mapping:
                if mapping[lv] not in cands:
                    ok = False
                    break
            else:
                cands = [q for q in cands if q not in mapping.values()]
                if not cands:
                    ok = False
                    break
                mapping[lv] = cands[0]
        if ok:
            return mapping, (ref,)
    return None


def _accept(value, docs):
    """value equals one of the documented readings, or its rounding to 4 decimals"""
    from vp import docs_frozen as D

    v = float(value)
    for d in docs:
        if close(v, d, 1e-9) or v == D.r4(d):
            return True
    return False


def _cov_params(c, M2, effect, perm, centre, stats, stratum):
    from vp import docs_frozen as D

    if isinstance(perm, dict):
        roles = [(q, 0) for q in perm.values()]
    else:
        roles = [(q, i) for i, q in enumerate(perm)]
    for q, role in roles:
        par = M2.parameters[q]
        init_d, lower_d, upper_d = D.cov_doc_params(effect, role, centre if centre is not None else 0.0, stats["min"], stats["max"])
        lo, up, ini = float(par.lower), float(par.upper), float(par.init)
        # state predicates of the listed mechanisms
        tiny = [d for d in (lower_d or []) + (upper_d or []) if abs(d) < 0.001 or D.r4(d) == 0]
        if lower_d is not None:
            c.hit("cov_bounds")
            bad = []
            if not _accept(lo, lower_d):
                bad.append(f"lower bound {lo}, documented {lower_d}")
            if not _accept(up, upper_d):
                bad.append(f"upper bound {up}, documented {upper_d}")
            if bad:
                key = None
                if effect == "piece_lin" and role == 0:
                    d1 = D.cov_doc_params(effect, 1, centre, stats["min"], stats["max"])
                    if _accept(lo, d1[1]) and _accept(up, d1[2]):
                        key = "C09/piece-lin-first-theta-gets-second-theta-bounds"
                c.violate(key, f"{c.sample['call']}: parameter {q} (theta{role + 1} of {effect}, centre {centre}, min {stats['min']}, "
                               f"max {stats['max']}): " + "; ".join(bad))
        else:
            c.hit("not_judged:bounds-undocumented-for-this-state")
        if init_d is not None:
            c.hit("cov_init")
            if init_d == "exp-rule":
                # the documented rule is applied to the parameter's own bounds (judged above)
                want = [D.cov_exp_doc_init(lo, up)]
            else:
                want = init_d
            if not any(close(ini, w, 1e-9) for w in want):
                key = None
                if effect == "cat2":
                    key = "C09/cat2-init-differs-from-docstring"
                elif effect == "exp" and (lo > 0.001 or up < 0.001):
                    key = "C09/exp-effect-init-rule-differs-from-docstring"
                c.violate(key, f"{c.sample['call']}: initial estimate of {q} is {ini}, documented {want} (bounds {lo}, {up})")
            elif not (lo <= ini <= up):
                key = "C09/covariate-effect-init-outside-rounded-bounds" if tiny else None
                c.violate(key, f"{c.sample['call']}: documented initial estimate {ini} of {q} lies outside its bounds ({lo}, {up}); "
                               f"documented bounds {lower_d}, {upper_d}")


def _cov_remove(c, rng, M, M2, p, cov, K):
    import pharmpy.modeling as pm

    from vp import histories
    from vp.ir_eval import EvalError, Unbound

    try:
        R = pm.remove_covariate_effect(M2, p, cov)
    except Exception as e:
        if histories.classify_exception(e) == "refusal":
            c.hit("remove_refused")
        else:
            c.hit(f"internal_error:remove_covariate_effect:{type(e).__name__}")
        return
    msg = _same_function(c, rng, M, R, K)
    if msg:
        c.violate(None, f"{c.sample['call']} then remove_covariate_effect(m, {p!r}, {cov!r}) does not restore the "
                                          f"original function: {msg}")


def _same_function(c, rng, M, R, K, monitor="remove_restores", skip=()):
    """M and R evaluated at common points: all symbols assigned in both, vector field, events."""
    from vp.ir_eval import EvalError, Unbound

    recs = records(M)
    names = [n for n in dict.fromkeys(assigned_names(M)) if n in set(assigned_names(R))]
    dvs = [k.name for k in M.dependent_variables]
    for y in dvs:
        if y in assigned_names(M) and y not in assigned_names(R):
            return f"dependent variable {y} is not defined any more"
    judged = 0
    attempts = 0
    while judged < K and attempts < 6 * K:
        attempts += 1
        vals, rec, amounts, t = draw_point(rng, [M, R], recs)
        try:
            E = run(M, vals, rec, amounts, t)
        except (EvalError, Unbound):
            c.hit("point_rejected")
            continue
        try:
            A = run(R, vals, rec, amounts, t)
        except EvalError:
            c.hit("point_rejected_after")
            continue
        except Unbound as u:
            return f"reads undefined symbol {u}"
        c.hit(monitor)
        msg = compare_runs(E, A, names, skip)
        if msg:
            return msg + f" at {_pt(vals, rec)}"
        judged += 1
    return None


# ====================================================================================================== allometry
def _explain_sequentially(c, M, M2, pts, candidates, newp, formula):
    """Find, in statement order, the symbols p of `candidates` whose value in M2 is not explained by the overrides
    found so far, and for each a new parameter T such that M2's p = formula(p, T value, point).
    -> (overrides [(index, p, T)], message or None)"""
    from vp.ir_eval import EvalError, Unbound

    order = sorted([p for p in candidates if last_assignment_index(M, p) is not None],
                   key=lambda p: last_assignment_index(M, p))
    found = []  # (i, p, T)
    used = set()

    def overrides(vals, rec):
        return [(i, p, (lambda st, p=p, T=T, v=vals, r=rec: formula(st[p], v[T], r))) for i, p, T in found]

    for p in order:
        i = last_assignment_index(M, p)
        try:
            diffs = []
            for vals, rec, amounts, t, A in pts:
                E = run(M, vals, rec, amounts, t, override=overrides(vals, rec))
                diffs.append(not close(E[0][p], A[0][p]))
        except (EvalError, Unbound):
            return found, None
        if not any(diffs):
            continue
        hit = None
        for T in newp:
            if T in used:
                continue
            try:
                ok = True
                for vals, rec, amounts, t, A in pts:
                    E = run(M, vals, rec, amounts, t, override=overrides(vals, rec) + [(i, p, (lambda st, p=p, T=T, v=vals, r=rec: formula(st[p], v[T], r)))])
                    if not close(E[0][p], A[0][p]):
                        ok = False
                        break
            except (EvalError, Unbound, ValueError, ZeroDivisionError):
                ok = False
            if ok:
                hit = T
                break
        if hit is None:
            vals, rec, amounts, t, A = pts[0]
            E = run(M, vals, rec, amounts, t, override=overrides(vals, rec))
            return found, (f"{p} = {_f(A[0][p])} in the extended model, {_f(E[0][p])} expected before applying a new effect to it; "
                           f"no new parameter of {newp} explains the difference by the documented formula")
        used.add(hit)
        found.append((i, p, hit))
    return found, None


def _collect_points(c, rng, M, M2, recs, K, sampler=None, rec_patch=None, fixed=None, eta_range=0.7):
    from vp.ir_eval import EvalError, Unbound

    pts = []
    attempts = 0
    while len(pts) < K and attempts < 6 * K:
        attempts += 1
        vals, rec, amounts, t = draw_point(rng, [M, M2], recs, new_param_sampler=sampler, fixed=fixed, eta_range=eta_range)
        if rec_patch:
            rec.update(rec_patch(rec, len(pts)))
        try:
            run(M, vals, rec, amounts, t)
        except EvalError:
            c.hit("point_rejected")
            continue
        except Unbound:
            c.hit("point_rejected_unbound_in_original")
            continue
        try:
            A = run(M2, vals, rec, amounts, t)
        except EvalError:
            c.hit("point_rejected_after")
            continue
        except Unbound as u:
            c.violate(None, f"{c.sample.get('call')}: the extended model reads undefined symbol {u} where the original evaluates")
            return None
        pts.append((vals, rec, amounts, t, A))
    if not pts:
        c.hit("no_point_judged")
    return pts


def _judge_overrides(c, M, M2, pts, make_overrides, label, key=None, rv_subst=None):
    """Compare M2 with M executed under the given overrides at the collected points.  -> True if all agree."""
    from vp.ir_eval import EvalError, Unbound

    names = [n for n in dict.fromkeys(assigned_names(M)) if n in set(assigned_names(M2))]
    for vals, rec, amounts, t, A in pts:
        try:
            E = run(M, vals, rec, amounts, t, override=make_overrides(vals, rec) if make_overrides else None,
                    rv_subst=rv_subst(vals, rec) if rv_subst else None)
        except (EvalError, Unbound, PointRejected):
            c.hit("point_rejected")
            continue
        c.hit("intervention_symbols", len(names))
        msg = compare_runs(E, A, names)
        if msg:
            c.violate(key, f"{c.sample.get('call')}: {label}: {msg} at {_pt(vals, rec)}")
            return False
    return True


@with_mp
def case_allometry(c, rng, idx, K):
    import pharmpy.modeling as pm

    from vp import docs_frozen as D

    nsteps = rng.choice([0, 0, 1, 2])
    M, sname, steps = build_start(rng, ["pheno_nocov", "pheno_nocov", "pheno_iv", "pheno_oral", "pheno_2cmt"], nsteps,
                                  avoid=("add_allometry",))
    params = individual_parameters(M)
    var = rng.choice(["WGT", "WGT", "CVC", "CVT", None])
    ref = rng.choice([70, 70, 1.3, 24.5, 3])
    kw = {}
    explicit = rng.random() < 0.5 and params
    if explicit:
        k = rng.randint(1, min(3, len(params)))
        kw["parameters"] = rng.sample(params, k)
        if rng.random() < 0.6:
            kw["initials"] = [round(rng.uniform(0.2, 1.5), 2) for _ in range(k)]
        if rng.random() < 0.4:
            kw["lower_bounds"] = [round(rng.uniform(-1, 0.1), 2) for _ in range(k)]
        if rng.random() < 0.4:
            kw["upper_bounds"] = [round(rng.uniform(1.6, 4), 2) for _ in range(k)]
    if rng.random() < 0.4:
        kw["fixed"] = rng.random() < 0.5
    c.sample = {"kind": "allometry", "start": sname, "steps": steps,
                "call": f"add_allometry(m, allometric_variable={var!r}, reference_value={ref!r}, **{kw})"}
    c.fp = fp_of("allometry", sname, steps, var, ref, sorted(kw.items(), key=str))
    M2 = apply_real(c, lambda: pm.add_allometry(M, allometric_variable=var, reference_value=ref, **kw), "add_allometry")
    if M2 is None:
        return c
    xvar = var or "WGT"  # pheno's datainfo describes WGT as body weight
    newp = [q.name for q in M2.parameters if q.name not in set(M.parameters.names)]
    if not newp:
        c.hit("allometry_nothing_added")
        if assigned_names(M2) != assigned_names(M):
            c.violate(None, f"{c.sample['call']}: no parameter added but the statements changed")
        # documented: nothing is added where an effect of the variable exists already
        try:
            if explicit and not all(pm.has_covariate_effect(M, p, xvar) for p in kw["parameters"]):
                c.violate(None, f"{c.sample['call']}: nothing was added although not every listed parameter depends on {xvar}")
        except Exception:
            pass
        return c
    sampler = {q: (lambda r: r.uniform(0.1, 1.9)) for q in newp}
    recs = records(M2)
    pts = _collect_points(c, rng, M, M2, recs, K, sampler)
    if not pts:
        return c
    z = _mp(ref)
    formula = lambda pv, T, rec: D.allometry(pv, _mp(rec[xvar]), z, _mp(T))  # noqa: E731
    cands = kw["parameters"] if explicit else [n for n in dict.fromkeys(assigned_names(M))]
    found, msg = _explain_sequentially(c, M, M2, pts, cands, newp, formula)
    c.hit("allometry_formula", len(pts))
    c.nontrivial = True
    if msg:
        c.violate(None, f"{c.sample['call']}: {msg}")
        return c
    if len(found) != len(newp):
        c.violate(None, f"{c.sample['call']}: parameters {newp} were added but only {[(p, T) for _, p, T in found]} act as documented exponents")
        return c
    ok = _judge_overrides(c, M, M2, pts, lambda vals, rec: [(i, p, (lambda st, p=p, T=T: formula(st[p], vals[T], rec))) for i, p, T in found],
                          "expected = original with P*(X/Z)**T after the last assignment of each scaled parameter")
    if not ok:
        return c
    # documented attributes of each exponent: initials / bounds as given for THAT parameter (by its position in the
    # request), else 0.75 for clearances (CL, Q..) and 1 for volumes (V..), bounds 0 and 2; fixed unless fixed=False
    for _, p_, T in found:
        tp = M2.parameters[T]
        pos = kw["parameters"].index(p_) if explicit and p_ in kw["parameters"] else None
        c.hit("allometry_exponent_attributes")
        exp_init = None
        if "initials" in kw and pos is not None:
            exp_init = kw["initials"][pos]
        elif "initials" not in kw:
            exp_init = 0.75 if (p_.startswith("CL") or p_.startswith("Q")) else 1.0 if p_.startswith("V") else None
        exp_lo = kw["lower_bounds"][pos] if "lower_bounds" in kw and pos is not None else (0.0 if "lower_bounds" not in kw else None)
        exp_up = kw["upper_bounds"][pos] if "upper_bounds" in kw and pos is not None else (2.0 if "upper_bounds" not in kw else None)
        bad = []
        if exp_init is not None and abs(float(tp.init) - exp_init) > 1e-12:
            bad.append(f"initial estimate {float(tp.init)} (documented / requested for {p_}: {exp_init})")
        if exp_lo is not None and abs(float(tp.lower) - exp_lo) > 1e-12:
            bad.append(f"lower bound {float(tp.lower)} (expected {exp_lo})")
        if exp_up is not None and abs(float(tp.upper) - exp_up) > 1e-12:
            bad.append(f"upper bound {float(tp.upper)} (expected {exp_up})")
        if tp.fix != kw.get("fixed", True):
            bad.append(f"fix={tp.fix} (expected {kw.get('fixed', True)})")
        if bad:
            c.violate(None, f"{c.sample['call']}: exponent {T} of {p_} has " + "; ".join(bad))
            return c
    # neutral at the reference value
    for vals, rec, amounts, t, A in pts:
        rec2 = dict(rec)
        rec2[xvar] = float(ref)
        try:
            E = run(M, vals, rec2, amounts, t)
            A2 = run(M2, vals, rec2, amounts, t)
        except Exception:
            c.hit("point_rejected")
            continue
        c.hit("allometry_neutral")
        m2 = compare_runs(E, A2, [n for n in dict.fromkeys(assigned_names(M)) if n in set(assigned_names(M2))])
        if m2:
            c.violate(None, f"{c.sample['call']}: at {xvar} = reference value {ref} the scaled model differs from the original: {m2}")
            return c
    # removal (documented in the example of add_allometry: remove_covariate_effect(model, P, variable))
    try:
        R = M2
        for _, p_, _T in found:
            R = pm.remove_covariate_effect(R, p_, xvar)
        dep_before = [p_ for _, p_, _T in found if pm.has_covariate_effect(M, p_, xvar)]
    except Exception as e:
        c.hit(f"remove_failed:{type(e).__name__}")
        R = None
        dep_before = []
    if R is not None and not dep_before:
        m3 = _same_function(c, rng, M, R, K)
        if m3:
            c.violate(None, f"{c.sample['call']} then remove_covariate_effect of {xvar} on {[p_ for _, p_, _T in found]} does not restore the "
                            f"original function: {m3}")
            return c
    # documented initial estimates, bounds, fixedness
    if explicit:
        scaled = [p for _, p, _ in found]
        # listed parameters that depend on the variable already are documented to be left alone
        for _, p, T in found:
            j = kw["parameters"].index(p) if p in kw["parameters"] else None
            if j is None:
                c.violate(None, f"{c.sample['call']}: {p} was scaled but is not in the parameter list")
                return c
            par = M2.parameters[T]
            c.hit("allometry_params")
            want_init = kw["initials"][j] if "initials" in kw else None
            want_lo = kw["lower_bounds"][j] if "lower_bounds" in kw else D.ALLOMETRY_DEFAULTS["lower"]
            want_up = kw["upper_bounds"][j] if "upper_bounds" in kw else D.ALLOMETRY_DEFAULTS["upper"]
            bad = []
            if want_init is not None and not close(float(par.init), want_init):
                bad.append(f"init {float(par.init)} != {want_init}")
            if want_init is None and not (close(float(par.init), 0.75) or close(float(par.init), 1.0)):
                bad.append(f"init {float(par.init)} is neither 0.75 nor 1")
            if not close(float(par.lower), want_lo):
                bad.append(f"lower {float(par.lower)} != {want_lo}")
            if not close(float(par.upper), want_up):
                bad.append(f"upper {float(par.upper)} != {want_up}")
            if bool(par.fix) != bool(kw.get("fixed", D.ALLOMETRY_DEFAULTS["fixed"])):
                bad.append(f"fix {par.fix}")
            if bad:
                c.violate(None, f"{c.sample['call']}: exponent {T} of {p}: " + ", ".join(bad))
                return c
    else:
        c.hit("not_judged:allometry-autodetected-parameter-set")
        for _, p, T in found:
            par = M2.parameters[T]
            c.hit("allometry_params")
            want = None
            if p.upper().startswith(("CL", "Q")):
                want = D.ALLOMETRY_DEFAULTS["init_cl_q"]
            elif p.upper().startswith("V"):
                want = D.ALLOMETRY_DEFAULTS["init_v"]
            bad = []
            if want is not None and not close(float(par.init), want):
                bad.append(f"init {float(par.init)}, documented {want}")
            if not close(float(par.lower), 0.0) or not close(float(par.upper), 2.0):
                bad.append(f"bounds ({float(par.lower)}, {float(par.upper)}), documented (0, 2)")
            if bool(par.fix) != bool(kw.get("fixed", True)):
                bad.append(f"fix {par.fix}")
            if bad:
                c.violate(None, f"{c.sample['call']}: exponent {T} of {p}: " + ", ".join(bad))
                return c
    return c


# ====================================================================================================== IIV / IOV
KEY_ETA_COLLISION = "C09/add-iiv-eta-name-collides-with-existing-eta"
KEY_DETECT_AFTER_Y = "C09/error-model-detectors-expand-statements-after-y"
IIV_STRATA = [("A", 56), ("exp_plus", 7), ("log", 8), ("re_log", 9), ("custom_safe", 10), ("custom_precedence", 10)]
CUSTOM_IIV_SAFE = ["exp(eta_new)", "eta_new", "(1 + eta_new)", "exp(2*eta_new)", "(eta_new**2 + 1)"]
CUSTOM_IIV_TOPLEVEL_SUM = ["1 + eta_new", "exp(eta_new) - 1", "eta_new + 1"]


def _custom_iiv_value(expr, eta):
    from vp import docs_frozen as D

    return {
        "exp(eta_new)": lambda: D.exp(eta), "eta_new": lambda: eta, "(1 + eta_new)": lambda: 1 + eta,
        "exp(2*eta_new)": lambda: D.exp(2 * eta), "(eta_new**2 + 1)": lambda: eta * eta + 1,
        "1 + eta_new": lambda: 1 + eta, "exp(eta_new) - 1": lambda: D.exp(eta) - 1, "eta_new + 1": lambda: eta + 1,
    }[expr]()


def case_iiv_multi(c, rng, idx, K):
    """add_iiv with a LIST of parameters and expressions must give the model that the same requests give one after the
    other (each single request is judged against its documented formula by case_iiv)."""
    import pharmpy.modeling as pm

    from vp import denote

    nsteps = rng.choice([0, 0, 1])
    M, sname, steps = build_start(rng, ["pheno_iv", "pheno_oral", "pheno_zo", "pheno_2cmt"], nsteps)
    if rng.random() < 0.4:
        try:
            M = pm.add_bioavailability(M)
            steps = steps + ["add_bioavailability"]
        except Exception:
            pass
    params = individual_parameters(M)
    if len(params) < 2:
        c.skipped = "fewer-than-two-individual-parameters"
        return c
    k = rng.randint(2, min(3, len(params)))
    ps = rng.sample(params, k)
    for p in ps:
        try:
            if pm.has_random_effect(M, p, "iiv"):
                M = pm.remove_iiv(M, p)
        except Exception:
            pass
    forms = [rng.choice(["exp", "add", "prop", "log", "re_log", "re_log"]) for _ in ps]
    one_form = rng.random() < 0.2
    arg = forms[0] if one_form else forms
    if one_form:
        forms = [forms[0]] * k
    c.sample = {"kind": "iiv_multi", "start": sname, "steps": steps, "call": f"add_iiv(m, {ps!r}, {arg!r})"}
    c.fp = fp_of("iiv_multi", sname, steps, ps, forms)
    M_list = apply_real(c, lambda: pm.add_iiv(M, ps, arg), "add_iiv")
    if M_list is None:
        return c
    M_seq = M
    for p, f in zip(ps, forms):
        M_seq = apply_real(c, lambda: pm.add_iiv(M_seq, p, f), "add_iiv")
        if M_seq is None:
            return c
    c.hit("iiv_multi_compared")
    try:
        j = denote.compare_models(denote.IRDen(M_seq), denote.IRDen(M_list), records(M_list), rng, K, c, prefix="multi_",
                                  extra_targets=tuple(ps))
        c.nontrivial = j > 0
    except denote.Mismatch as mm:
        c.violate(None, f"{c.sample['call']} differs from the same requests made one after the other: {mm.what}")
    return c


@with_mp
def case_iiv(c, rng, idx, K):
    import pharmpy.modeling as pm

    from vp import docs_frozen as D

    stratum = _pick_stratum(rng, IIV_STRATA)
    nsteps = rng.choice([0, 0, 1, 2])
    M, sname, steps = build_start(rng, ["pheno_iv", "pheno_oral", "pheno_zo", "pheno_2cmt"], nsteps, gen=0.15 if stratum != "re_log" else 0)
    params = individual_parameters(M)
    if not params:
        c.skipped = "no-individual-parameters"
        return c
    p = rng.choice(params)
    if stratum == "re_log" and "CL" in params:
        p = "CL"
    prep = None
    try:
        has = pm.has_random_effect(M, p, "iiv")
    except Exception:
        has = False
    use_names = None
    if has:
        if rng.random() < 0.7:
            try:
                M = pm.remove_iiv(M, p)
                prep = f"remove_iiv(m, {p!r})"
            except Exception:
                pass
        else:
            use_names = [f"ETA_NEW{rng.randint(1, 9)}"]
    elif rng.random() < 0.3:
        use_names = [f"ETA_X{rng.randint(1, 9)}"]
    if stratum == "A":
        form, op = rng.choice(["add", "prop", "exp", "exp"]), rng.choice(["*", "*", "+"])
        if form == "exp":
            op = "*"
    elif stratum == "log":
        form, op = "log", rng.choice(["*", "+"])
    elif stratum == "exp_plus":
        form, op = "exp", "+"
    elif stratum == "re_log":
        form, op = "re_log", "*"
    elif stratum == "custom_safe":
        form, op = rng.choice(CUSTOM_IIV_SAFE), rng.choice(["*", "+"])
    else:
        form, op = rng.choice(CUSTOM_IIV_TOPLEVEL_SUM), "*"
    kw = {}
    if rng.random() < 0.4:
        kw["initial_estimate"] = round(rng.uniform(0.01, 0.5), 3)
    if use_names:
        kw["eta_names"] = use_names
    c.sample = {"kind": "iiv", "stratum": stratum, "start": sname, "steps": steps, "prep": prep,
                "call": f"add_iiv(m, {p!r}, {form!r}, {op!r}, **{kw})"}
    c.fp = fp_of("iiv", sname, steps, prep, p, form, op, sorted(kw.items(), key=str))
    M2 = apply_real(c, lambda: pm.add_iiv(M, p, form, op, **kw), "add_iiv")
    if M2 is None:
        return c
    new_etas = [n for n in M2.random_variables.names if n not in set(M.random_variables.names)]
    if len(new_etas) != 1:
        collide = not use_names and f"ETA_{p}" in M.random_variables.names
        c.nontrivial = True
        c.hit("iiv_formula")
        c.violate(KEY_ETA_COLLISION if collide else None,
                  f"{c.sample['call']}: {len(new_etas)} new random variables {new_etas}; names afterwards {list(M2.random_variables.names)}")
        return c
    eta = new_etas[0]
    if use_names and eta != use_names[0]:
        c.violate(None, f"{c.sample['call']}: the new eta is called {eta}")
    fixed = None
    if form == "re_log":
        fixed = {q.name: float(q.init) for q in M.parameters}
    recs = records(M2)
    pts = _collect_points(c, rng, M, M2, recs, K, fixed=fixed)
    if pts is None or not pts:
        return c
    i_last = last_assignment_index(M, p)
    if (form, op) in D.IIV_FORMS:
        formula = D.IIV_FORMS[(form, op)]
    else:
        formula = (lambda o, e: o * _custom_iiv_value(form, e)) if op == "*" else (lambda o, e: o + _custom_iiv_value(form, e))
    c.hit("iiv_formula", len(pts))
    c.nontrivial = True
    key = None
    if stratum == "custom_precedence":
        key = "C09/add-iiv-custom-expression-not-parenthesised"
    ok = _judge_overrides(c, M, M2, pts, lambda vals, rec: [(i_last, p, lambda st: formula(st[p], _mp(vals[eta])))],
                          f"expected = original with {p} replaced by the documented {form} form after its last assignment", key)
    if not ok:
        return c
    # neutral at eta = 0
    names = [n for n in dict.fromkeys(assigned_names(M)) if n in set(assigned_names(M2))]
    for vals, rec, amounts, t, A in pts:
        v0 = dict(vals)
        v0[eta] = 0.0
        try:
            E = run(M, v0, rec, amounts, t)
            A0 = run(M2, v0, rec, amounts, t)
        except Exception:
            c.hit("point_rejected")
            continue
        c.hit("iiv_neutral")
        m0 = compare_runs(E, A0, names)
        if m0:
            nk = None
            if form == "exp" and op == "+":
                nk = "C09/add-iiv-exp-plus-not-neutral-at-eta-zero"
            elif form == "re_log":
                nk = "C09/add-iiv-re-log-not-neutral-at-eta-zero"
            elif form == "log":
                nk = "C09/add-iiv-logit-not-neutral-at-eta-zero"
            elif form not in ("add", "prop", "exp"):
                c.hit("not_judged:neutrality-of-custom-iiv")
                break
            c.violate(nk, f"{c.sample['call']}: at {eta} = 0 the extended model differs from the original: {m0}")
            break
    # initial estimate of the variance
    try:
        var = M2.random_variables[eta].get_variance(eta)
        om = M2.parameters[var.name]
        c.hit("iiv_init")
        want = kw.get("initial_estimate", D.IIV_DEFAULT_INIT)
        if not close(float(om.init), want):
            c.violate(None, f"{c.sample['call']}: initial estimate of {om.name} is {float(om.init)}, documented {want}")
    except Exception:
        c.hit("not_judged:variance-parameter-not-found")
    # removal (a custom expression need not be neutral at eta = 0: removal cannot restore and is not judged)
    if form not in ("add", "prop", "exp", "log", "re_log"):
        c.hit("not_judged:removal-of-custom-iiv")
        return c
    try:
        R = pm.remove_iiv(M2, eta)
    except Exception as e:
        c.hit(f"remove_failed:{type(e).__name__}")
        return c
    m3 = _same_function(c, rng, M, R, K)
    if m3:
        c.violate({"re_log": "C09/remove-iiv-of-re-log-form-gives-constant",
                   "log": "C09/remove-iiv-of-logit-form-does-not-restore"}.get(form),
                  f"{c.sample['call']} then remove_iiv(m, {eta!r}) does not restore the original function: {m3}")
    return c


@with_mp
def case_pk_iiv(c, rng, idx, K):
    import pharmpy.modeling as pm

    from vp import docs_frozen as D

    nsteps = rng.choice([0, 1, 2])
    M, sname, steps = build_start(rng, ["pheno_iv", "pheno_oral", "pheno_zo", "pheno_2cmt"], nsteps)
    prep = None
    if rng.random() < 0.5:
        try:
            names = list(M.random_variables.iiv.names)
            # keep one eta: a model without any eta gets a DUMMYETA whose code generation fails afterwards (not C09)
            if "ETA_VC" in names and rng.random() < 0.7:
                names.remove("ETA_VC")  # VC = TVV (IF block): add_iiv on it fails in code generation (not C09)
            drop = rng.sample(names, rng.randint(1, max(1, len(names) - 1))) if len(names) > 1 else []
            M = pm.remove_iiv(M, drop) if drop else M
            prep = f"remove_iiv(m, {drop})"
        except Exception:
            pass
    kw = {}
    if rng.random() < 0.4:
        kw["initial_estimate"] = round(rng.uniform(0.01, 0.5), 3)
    c.sample = {"kind": "pk_iiv", "start": sname, "steps": steps, "prep": prep, "call": f"add_pk_iiv(m, **{kw})"}
    c.fp = fp_of("pk_iiv", sname, steps, prep, sorted(kw.items()))
    M2 = apply_real(c, lambda: pm.add_pk_iiv(M, **kw), "add_pk_iiv")
    if M2 is None:
        return c
    new_etas = [n for n in M2.random_variables.names if n not in set(M.random_variables.names)]
    if not new_etas:
        c.hit("pk_iiv_nothing_added")
        return c
    recs = records(M2)
    pts = _collect_points(c, rng, M, M2, recs, K)
    if not pts:
        return c
    formula = lambda pv, e, rec: D.iiv_exp_mul(pv, _mp(e))  # noqa: E731
    found, msg = _explain_sequentially(c, M, M2, pts, list(dict.fromkeys(assigned_names(M))), new_etas, formula)
    c.hit("iiv_formula", len(pts))
    c.nontrivial = True
    dup = [n for n in set(M2.random_variables.names) if list(M2.random_variables.names).count(n) > 1]
    if msg:
        c.violate(KEY_ETA_COLLISION if dup else None, f"{c.sample['call']}: {msg}" + (f" [random variable names occur twice: {dup}]" if dup else ""))
        return c
    if len(found) != len(new_etas):
        c.violate(None, f"{c.sample['call']}: etas {new_etas} were added but only {[(p, T) for _, p, T in found]} act as exponential IIV")
        return c
    if not _judge_overrides(c, M, M2, pts, lambda vals, rec: [(i, p, (lambda st, p=p, T=T: formula(st[p], vals[T], rec))) for i, p, T in found],
                            "expected = original with P*exp(eta) after the last assignment of each parameter"):
        return c
    names = [n for n in dict.fromkeys(assigned_names(M)) if n in set(assigned_names(M2))]
    for vals, rec, amounts, t, A in pts:
        v0 = dict(vals)
        for e in new_etas:
            v0[e] = 0.0
        try:
            E = run(M, v0, rec, amounts, t)
            A0 = run(M2, v0, rec, amounts, t)
        except Exception:
            continue
        c.hit("iiv_neutral")
        m0 = compare_runs(E, A0, names)
        if m0:
            c.violate(None, f"{c.sample['call']}: at new etas = 0 the extended model differs from the original: {m0}")
            return c
    for e in new_etas:
        try:
            om = M2.parameters[M2.random_variables[e].get_variance(e).name]
        except Exception:
            continue
        c.hit("iiv_init")
        want = kw.get("initial_estimate", D.IIV_DEFAULT_INIT)
        if not close(float(om.init), want):
            c.violate(None, f"{c.sample['call']}: initial estimate of {om.name} is {float(om.init)}, documented {want}")
    return c


@with_mp
def case_iov(c, rng, idx, K):
    import pharmpy.modeling as pm

    from vp import docs_frozen as D
    from vp.ir_eval import EvalError, Unbound

    nsteps = rng.choice([0, 0, 1, 2])
    M, sname, steps = build_start(rng, ["pheno_iv", "pheno_oral", "pheno_2cmt"], nsteps, avoid=("add_iov",))
    iivs = list(M.random_variables.iiv.names)
    if not iivs:
        c.skipped = "no-iiv"
        return c
    occ = rng.choice(["OCC", "OCC", "FA1"])
    dist = rng.choice(["disjoint", "disjoint", "joint", "same-as-iiv"])
    k = rng.randint(1, min(2, len(iivs)))
    chosen = rng.sample(iivs, k)
    lop = chosen if rng.random() < 0.75 else None
    if lop is None:
        chosen = iivs[:]
        fixed_par = {q.name for q in M.parameters if q.fix}
        if any(set(d.parameter_names) & fixed_par for d in M.random_variables.etas):
            # default "all": pharmpy leaves out etas with a fixed variance - not documented either way
            c.hit("not_judged:add-iov-to-all-etas-with-fixed-variances")
            c.sample = {"kind": "iov", "start": sname, "steps": steps}
            c.fp = fp_of("iov", sname, steps, "nj")
            return c
    if len(chosen) > 3:
        c.skipped = "too-many-etas"
        return c
    c.sample = {"kind": "iov", "start": sname, "steps": steps,
                "call": f"add_iov(m, {occ!r}, list_of_parameters={lop!r}, distribution={dist!r})"}
    c.fp = fp_of("iov", sname, steps, occ, lop, dist)
    M2 = apply_real(c, lambda: pm.add_iov(M, occ, list_of_parameters=lop, distribution=dist), "add_iov")
    if M2 is None:
        return c
    new_etas = [n for n in M2.random_variables.names if n not in set(M.random_variables.names)]
    levels = sorted(set(M.dataset[occ].tolist()))
    if len(new_etas) != len(chosen) * len(levels):
        c.violate(None, f"{c.sample['call']}: {len(new_etas)} new etas for {len(chosen)} etas x {len(levels)} occasions")
        return c
    recs = records(M2)
    names = [n for n in dict.fromkeys(assigned_names(M)) if n in set(assigned_names(M2))]
    # ---- identify, for every new eta, the occasion at which it acts and the IIV eta it is added to
    base = None
    for _ in range(12):
        vals, rec, amounts, t = draw_point(rng, [M, M2], recs)
        for e in new_etas:
            vals[e] = 0.0
        try:
            for lv in levels:
                r2 = dict(rec)
                r2[occ] = lv
                run(M, vals, r2, amounts, t)
                run(M2, vals, r2, amounts, t)
            base = (vals, rec, amounts, t)
            break
        except (EvalError, Unbound):
            c.hit("point_rejected")
    if base is None:
        c.hit("no_point_judged")
        return c
    vals, rec, amounts, t = base
    mapping = {}
    d = 0.37
    try:
        for e in new_etas:
            active = []
            for lv in levels:
                r2 = dict(rec)
                r2[occ] = lv
                v1 = dict(vals)
                v1[e] = d
                A = run(M2, v1, r2, amounts, t)
                E0 = run(M, vals, r2, amounts, t)
                if compare_runs(E0, A, names) is None:
                    continue
                who = None
                for j in chosen:
                    v2 = dict(vals)
                    v2[j] = vals[j] + d
                    Ej = run(M, v2, r2, amounts, t)
                    if compare_runs(Ej, A, names) is None:
                        who = j
                        break
                active.append((lv, who))
            c.hit("iov_formula")
            if len(active) != 1 or active[0][1] is None:
                c.violate(None, f"{c.sample['call']}: new eta {e} acts at occasions {active} (expected: exactly one occasion, added to one "
                                f"of {chosen})")
                return c
            mapping[e] = active[0]
    except (EvalError, Unbound):
        c.hit("point_rejected")
        return c
    c.nontrivial = True
    if len(set(mapping.values())) != len(new_etas):
        c.violate(None, f"{c.sample['call']}: (occasion, eta) pairs are not covered one to one: {mapping}")
        return c
    # ---- random points with all new etas active at once
    pts = _collect_points(c, rng, M, M2, recs, K)
    if not pts:
        return c

    def subst(vals, rec):
        out = {}
        for j in chosen:
            add = [e for e, (lv, who) in mapping.items() if who == j and lv == rec[occ]]
            out[j] = (lambda st, j=j, add=add: st[j] + sum(st[e] for e in add))
        return out

    if not _judge_overrides(c, M, M2, pts, None, "expected = original with eta + IOV eta of the record's occasion", rv_subst=subst):
        return c
    # ---- neutral at zero
    for vals, rec, amounts, t, A in pts:
        v0 = dict(vals)
        for e in new_etas:
            v0[e] = 0.0
        try:
            E = run(M, v0, rec, amounts, t)
            A0 = run(M2, v0, rec, amounts, t)
        except Exception:
            continue
        c.hit("iiv_neutral")
        m0 = compare_runs(E, A0, names)
        if m0:
            c.violate(None, f"{c.sample['call']}: at IOV etas = 0 the extended model differs from the original: {m0}")
            return c
    # ---- initial estimates: 10 % of the IIV variance; same variance parameter on every occasion
    for j in chosen:
        try:
            iiv_var = M.random_variables[j].get_variance(j)
            iiv_init = float(M.parameters[iiv_var.name].init)
        except Exception:
            c.hit("not_judged:iiv-variance-not-a-parameter")
            continue
        pars = set()
        for e, (lv, who) in mapping.items():
            if who == j:
                pars.add(M2.random_variables[e].get_variance(e).name)
        c.hit("iov_init")
        if len(pars) != 1:
            c.violate(None, f"{c.sample['call']}: the IOV etas of {j} have different variance parameters on different occasions: {sorted(pars)}")
            return c
        got = float(M2.parameters[next(iter(pars))].init)
        if not close(got, D.IOV_INIT_FRACTION * iiv_init):
            c.violate(None, f"{c.sample['call']}: initial estimate of {next(iter(pars))} is {got}, documented 10% of {iiv_init}")
            return c
    # ---- removal
    try:
        R = pm.remove_iov(M2)
    except Exception as e:
        c.hit(f"remove_failed:{type(e).__name__}")
        return c
    if not M.random_variables.iov.names:
        m3 = _same_function(c, rng, M, R, K)
        if m3:
            c.violate(None, f"{c.sample['call']} then remove_iov(m) does not restore the original function: {m3}")
    return c


# ====================================================================================================== eta transforms
@with_mp
def case_etatrans(c, rng, idx, K):
    import pharmpy.modeling as pm

    from vp import docs_frozen as D

    which = rng.choice(["boxcox", "boxcox", "tdist", "tdist", "john_draper"])
    nsteps = rng.choice([0, 0, 1, 2])
    M, sname, steps = build_start(rng, ["pheno_iv", "pheno_oral", "pheno_2cmt"], nsteps, gen=0.15)
    etas = list(M.random_variables.iiv.names)
    if not etas:
        c.skipped = "no-iiv"
        return c
    r = rng.random()
    if r < 0.55:
        sel = [rng.choice(etas)]
    elif r < 0.85:
        sel = rng.sample(etas, min(len(etas), rng.randint(2, 3)))
    else:
        sel = None
    target = sel if sel is not None else list(M.random_variables.etas.names)
    if sel is None:
        fixed_par = {q.name for q in M.parameters if q.fix}
        if list(M.random_variables.iov.names) or any(set(d.parameter_names) & fixed_par for d in M.random_variables.etas):
            # "If None, all etas will be transformed": pharmpy leaves out IOV etas and etas with fixed variance - not documented
            c.hit("not_judged:transform-all-etas-with-fixed-or-iov-etas")
            c.sample = {"kind": "etatrans", "start": sname, "steps": steps, "call": f"transform_etas_{which}(m, None)"}
            c.fp = fp_of("etatrans", sname, steps, which, sel, "nj")
            return c
    if len(target) > 3:
        c.skipped = "too-many-etas"
        return c
    fn = {"boxcox": pm.transform_etas_boxcox, "tdist": pm.transform_etas_tdist, "john_draper": pm.transform_etas_john_draper}[which]
    c.sample = {"kind": "etatrans", "start": sname, "steps": steps, "call": f"transform_etas_{which}(m, {sel!r})"}
    c.fp = fp_of("etatrans", sname, steps, which, sel)
    sym = {"boxcox": "ETAB", "tdist": "ETAT", "john_draper": "ETAD"}[which]
    earlier_same_type = any(n.startswith(sym) and n[len(sym):].isdigit() for n in assigned_names(M))
    M2 = apply_real(c, lambda: fn(M, sel), f"transform_etas_{which}")
    if M2 is None:
        return c
    newp = [q.name for q in M2.parameters if q.name not in set(M.parameters.names)]
    formula, d_init, d_lo, d_up = D.ETA_TRANSFORMS[which]
    if len(newp) != len(target):
        c.violate(None, f"{c.sample['call']}: {len(newp)} new parameters {newp} for {len(target)} etas")
        return c
    if which == "tdist":
        sampler = {q: (lambda r_: r_.uniform(3.0, 100.0)) for q in newp}
    else:
        sampler = {q: (lambda r_: r_.choice([-1, 1]) * r_.uniform(0.05, 2.9)) for q in newp}
    recs = records(M2)
    pts = _collect_points(c, rng, M, M2, recs, K, sampler)
    if not pts:
        return c
    c.hit("etatrans_formula", len(pts))
    c.nontrivial = True
    names = [n for n in dict.fromkeys(assigned_names(M)) if n in set(assigned_names(M2))]
    good = None
    from vp.ir_eval import EvalError, Unbound

    for perm in itertools.permutations(newp):
        ok = True
        for vals, rec, amounts, t, A in pts:
            try:
                E = run(M, vals, rec, amounts, t,
                        rv_subst={e: (lambda st, e=e, q=q: formula(_mp(st[e]), _mp(st[q]))) for e, q in zip(target, perm)})
            except (EvalError, Unbound):
                continue
            if compare_runs(E, A, names) is not None:
                ok = False
                break
        if ok:
            good = perm
            break
    if good is None:
        vals, rec, amounts, t, A = pts[0]
        E = run(M, vals, rec, amounts, t, rv_subst={e: (lambda st, e=e, q=q: formula(_mp(st[e]), _mp(st[q]))) for e, q in zip(target, newp)})
        key = "C09/eta-transformation-reuses-symbol-of-earlier-transformation" if earlier_same_type else None
        c.violate(key, f"{c.sample['call']}: the transformed model is not the original with each selected eta replaced by its documented "
                       f"{which} transform for any assignment of the new parameters {newp}: e.g. {compare_runs(E, A, names)} at {_pt(vals, rec)}")
        return c
    # neutral at eta = 0
    for vals, rec, amounts, t, A in pts:
        v0 = dict(vals)
        for e in target:
            v0[e] = 0.0
        try:
            E = run(M, v0, rec, amounts, t)
            A0 = run(M2, v0, rec, amounts, t)
        except Exception:
            continue
        c.hit("etatrans_neutral")
        m0 = compare_runs(E, A0, names)
        if m0:
            c.violate(None, f"{c.sample['call']}: at eta = 0 the transformed model differs from the original: {m0}")
            return c
    # documented initial estimate and bounds
    for q in newp:
        par = M2.parameters[q]
        c.hit("etatrans_params")
        got = (float(par.init), float(par.lower), float(par.upper))
        if not (close(got[0], d_init) and close(got[1], d_lo) and close(got[2], d_up)):
            key = None
            if which == "tdist" and len(target) > 1:
                key = "C09/tdist-several-etas-get-lambda-settings"
            elif which in ("boxcox", "john_draper") and close(got[1], d_lo) and close(got[2], d_up):
                key = "C09/lambda-init-differs-from-docstring"
            c.violate(key, f"{c.sample['call']}: {q} has (init, lower, upper) = {got}, documented ({d_init}, {d_lo}, {d_up})")
    return c


# ====================================================================================================== error models
def y_name(M):
    return next(iter(M.dependent_variables)).name


def eps_probe(M, vals, rec, amounts, t, eps_names=None):
    """The first dependent variable as a function of the epsilons at one point.
    -> (f = Y at eps 0, {eps: dY/deps}, linear: Y == f + sum coef*eps for the drawn eps values)"""
    y = y_name(M)
    eps_names = list(M.random_variables.epsilons.names) if eps_names is None else eps_names
    v0 = dict(vals)
    for e in eps_names:
        v0[e] = 0.0
    f = run(M, v0, rec, amounts, t)[0][y]
    coefs = {}
    linear = True
    for e in eps_names:
        v1 = dict(v0)
        v1[e] = 1.0
        y1 = run(M, v1, rec, amounts, t)[0][y]
        v1[e] = -0.5
        y2 = run(M, v1, rec, amounts, t)[0][y]
        coefs[e] = y1 - f
        if not close(y2 - f, -0.5 * coefs[e], 1e-8):
            linear = False
    yr = run(M, vals, rec, amounts, t)[0][y]
    if not close(yr, f + sum(coefs[e] * _mp(vals[e]) for e in eps_names), 1e-8):
        linear = False
    return f, coefs, linear


def eps_types(M, rng, vals, rec, amounts, t):
    """Numeric classification of every epsilon of M: 'add' (coefficient does not change with the prediction),
    'prop' (coefficient / prediction constant), 'zero', 'other'.  -> ({eps: type}, linear) ; amounts are varied."""
    f1, c1, l1 = eps_probe(M, vals, rec, amounts, t)
    am2 = {k: v * rng.uniform(1.7, 3.0) for k, v in amounts.items()}
    f2, c2, l2 = eps_probe(M, vals, rec, am2, t)
    types = {}
    for e in c1:
        if c1[e] == 0 and c2[e] == 0:
            types[e] = "zero"
        elif abs(f1 - f2) <= 1e-6 * max(abs(f1), abs(f2)):
            types[e] = "unknown"  # prediction does not move with the amounts: cannot tell
        elif abs(c1[e] - c2[e]) <= 1e-8 * max(abs(c1[e]), abs(c2[e])):
            types[e] = "add"
        elif f1 != 0 and f2 != 0 and close(c1[e] / f1, c2[e] / f2, 1e-8):
            types[e] = "prop"
        else:
            types[e] = "other"
    return types, (l1 and l2)


def error_class(types, linear):
    if "unknown" in types.values():
        return "unknown"
    if not linear:
        return "other"
    nz = sorted(t for t in types.values() if t != "zero")
    if nz == ["add"]:
        return "additive"
    if nz == ["prop"]:
        return "proportional"
    if nz == ["add", "prop"]:
        return "combined"
    return "other"


def min_observation(df):
    import numpy as np

    if "MDV" in df.columns:
        obs = df[df["MDV"] == 0]
    elif "EVID" in df.columns:
        obs = df[df["EVID"] == 0]
    else:
        obs = df[df["AMT"] == 0]
    if not len(obs):
        return None
    return float(np.min(obs["DV"].to_numpy(dtype=float)))


def taylor_log(f, e, nterms):
    """first `nterms` terms of the expansion of log(f + e) in e"""
    from vp import docs_frozen as D

    s = D.log(f)
    for k in range(1, nterms):
        s = s + ((-1) ** (k + 1)) * (e / f) ** k / k
    return s


ERR_START = ["pheno_iv", "pheno_oral", "pheno_2cmt", "pheno_noerr", "pheno_noerr"]


@with_mp
def case_err_basic(c, rng, idx, K):
    import pharmpy.modeling as pm

    from vp import docs_frozen as D
    from vp.ir_eval import EvalError, Unbound

    which = rng.choice(["additive", "proportional", "combined"])
    nsteps = rng.choice([0, 0, 1, 1, 2])
    M, sname, steps = build_start(rng, ERR_START, nsteps, avoid=PD_STEPS, gen=0.15)
    if several_dvs(c, M):
        return c
    kw = {}
    r = rng.random()
    log_trans = False
    if r < 0.25:
        kw["data_trans"] = f"log({y_name(M)})"
        log_trans = True
    if which == "additive" and log_trans and rng.random() < 0.4:
        kw["series_terms"] = rng.choice([2, 3, 4])
    if which == "proportional" and rng.random() < 0.4:
        kw["zero_protection"] = rng.random() < 0.5
    fn = {"additive": pm.set_additive_error_model, "proportional": pm.set_proportional_error_model,
          "combined": pm.set_combined_error_model}[which]
    c.sample = {"kind": "err_basic", "start": sname, "steps": steps, "call": f"set_{which}_error_model(m, **{kw})"}
    c.fp = fp_of("err", sname, steps, which, sorted(kw.items()))
    pnames = set(M.parameters.names)
    composed = which == "combined" and ("time_varying" in pnames or "ETA_RV1" in M.random_variables.names)
    M2 = apply_real(c, lambda: fn(M, **kw), f"set_{which}_error_model")
    if M2 is None:
        return c
    y = y_name(M)
    if y_name(M2) != y:
        c.violate(None, f"{c.sample['call']}: the dependent variable changed from {y} to {y_name(M2)}")
        return c
    if composed:
        c.hit("not_judged:combined-on-time-varying-or-iiv-on-ruv")
        return c
    old_eps = list(M.random_variables.epsilons.names)
    new_eps = [e for e in M2.random_variables.epsilons.names if e not in old_eps]
    unchanged = not new_eps
    cand = new_eps if new_eps else list(M2.random_variables.epsilons.names)
    need = 2 if which == "combined" else 1
    recs = [r_ for r_ in records(M2) if r_.get("AMT", 0) == 0] or records(M2)
    pts = _collect_points(c, rng, M, M2, recs, K)
    if not pts:
        return c
    i_y = last_assignment_index(M, y)
    nterms = kw.get("series_terms", 2)

    def doc(f, es):
        if which == "additive":
            if log_trans:
                return taylor_log(f, es[0], nterms)
            return D.err_additive(f, es[0])
        if which == "proportional":
            return D.err_proportional(f, es[0], log_trans)
        return D.err_combined(f, es[0], es[1], log_trans)

    c.hit("err_formula", len(pts))
    c.nontrivial = True
    names = [n for n in dict.fromkeys(assigned_names(M)) if n in set(assigned_names(M2))]
    good = None
    first_msg = None
    if len(cand) < need:
        c.violate(None, f"{c.sample['call']}: the resulting model has {len(cand)} epsilon(s), the {which} model needs {need}")
        return c
    orders = list(itertools.permutations(cand, need))
    if which == "combined" and set(cand) == {"epsilon_p", "epsilon_a"}:
        # the docstring examples name the epsilons: epsilon_p multiplies the prediction, epsilon_a is added
        orders = [("epsilon_p", "epsilon_a")]
    for order in orders:
        ok = True
        for vals, rec, amounts, t, A in pts:
            v0 = dict(vals)
            for e in old_eps:
                v0[e] = 0.0
            try:
                f = run(M, v0, rec, amounts, t)[0][y]
                ev_ = doc(f, [_mp(vals[e]) for e in order])
                # epsilons of the result that are not in `order` must not influence Y: they are drawn non-zero
                E = run(M, vals, rec, amounts, t, override=(i_y, y, lambda st, v=ev_: v))
            except (EvalError, Unbound, ValueError, ZeroDivisionError):
                continue
            msg = compare_runs(E, A, names)
            if msg:
                ok = False
                first_msg = first_msg or (msg, vals, rec)
                break
        if ok:
            good = order
            break
    if good is None:
        msg, vals, rec = first_msg
        key = "C09/error-setter-ignores-data-trans-when-model-has-the-kind-already" if (unchanged and log_trans) else None
        c.violate(key, f"{c.sample['call']}: Y is not the documented {which} function of (f, eps) for any assignment of the epsilons "
                       f"{cand}: {msg} at {_pt(vals, rec)}" + (" [the setter returned the model unchanged]" if unchanged else ""))
        return c
    # ---- detectors (documented for untransformed data)
    if not log_trans:
        det = {}
        for nm, h in (("additive", pm.has_additive_error_model), ("proportional", pm.has_proportional_error_model),
                      ("combined", pm.has_combined_error_model)):
            v, err = limited(lambda h=h: bool(h(M2)))
            det[nm] = v if err is None else f"<{err}>"
        want = {k: (k == which) for k in det}
        if any(v == "<timeout>" for v in det.values()):
            c.hit("not_judged:detector-timeout")
        else:
            c.hit("err_detector")
        if det != want and not any(v == "<timeout>" for v in det.values()):
            key = None
            try:
                # delta check of KEY_DETECT_AFTER_Y: without the statements that follow the Y statement the detectors agree
                from pharmpy.model import Assignment

                sts = list(M2.statements)
                ydv = list(M2.dependent_variables)[0]
                iy = max(i for i, st_ in enumerate(sts) if isinstance(st_, Assignment) and st_.symbol == ydv)
                if iy < len(sts) - 1:
                    M3 = M2.replace(statements=M2.statements[: iy + 1])
                    det3 = {nm: bool(h(M3)) for nm, h in (("additive", pm.has_additive_error_model),
                                                          ("proportional", pm.has_proportional_error_model),
                                                          ("combined", pm.has_combined_error_model))}
                    c.hit("delta_check")
                    if det3 == want:
                        key = KEY_DETECT_AFTER_Y
            except Exception:
                key = None
            c.violate(key, f"{c.sample['call']}: the model has the {which} functional form but the detectors report {det}")
    else:
        c.hit("not_judged:detectors-on-log-transformed-error-model")
    # ---- numeric classification agrees
    if not log_trans:
        vals, rec, amounts, t, A = pts[0]
        try:
            types, lin = eps_types(M2, rng, vals, rec, amounts, t)
            cls2 = error_class(types, lin)
            if cls2 == "unknown":
                c.hit("not_judged:prediction-does-not-move-with-amounts")
            else:
                c.hit("err_class")
            if cls2 not in (which, "unknown"):
                c.violate(None, f"{c.sample['call']}: numeric classification of the epsilons of the result: {types}, linear={lin}")
        except (EvalError, Unbound):
            pass
    # ---- initial estimates of the new sigmas
    if new_eps:
        mdv = min_observation(M.dataset)
        roles = {"additive": ["sigma"], "proportional": ["sigma"], "combined": ["sigma_prop", "sigma_add"]}[which]
        for e, role in zip(good, roles):
            if e not in new_eps:
                continue
            try:
                sig = M2.parameters[M2.random_variables[e].get_variance(e).name]
            except Exception:
                c.hit("not_judged:sigma-not-found")
                continue
            want = D.ERR_INIT[which][role]
            if want == "min_dv":
                if mdv is None or mdv == 0:
                    c.hit("not_judged:min-dv-zero")
                    continue
                want = D.init_min_dv(mdv)
            c.hit("err_init")
            if not close(float(sig.init), want):
                key = None
                if which == "combined":
                    other = D.ERR_INIT[which][[r_ for r_ in roles if r_ != role][0]]
                    other = D.init_min_dv(mdv) if other == "min_dv" and mdv else other
                    if isinstance(other, float) and close(float(sig.init), other):
                        key = "C09/combined-error-inits-swapped-vs-docstring"
                c.violate(key, f"{c.sample['call']}: initial estimate of {sig.name} ({'proportional' if role != 'sigma_add' else 'additive'} "
                               f"epsilon {e}) is {float(sig.init)}, documented {want}")
    else:
        c.hit("setter_returned_unchanged")
    # ---- removal: Y = f again
    try:
        R = pm.remove_error_model(M2)
        R0 = pm.remove_error_model(M)
    except Exception as e:
        c.hit(f"remove_failed:{type(e).__name__}")
        return c
    if not log_trans:
        m3 = _same_function(c, rng, R0, R, K)
        if m3:
            c.violate(None, f"{c.sample['call']} then remove_error_model does not give the model without error model: {m3}")
    return c


KEY_EPS_UPPER = "C09/list-of-eps-name-uppercased-before-lookup"
PD_STEPS = ("add_effect_compartment", "set_direct_effect", "add_indirect_effect", "add_metabolite", "set_tmdd",
            "set_dtbs_error_model")


def several_dvs(c, M):
    if len(M.dependent_variables) > 1:
        c.hit("not_judged:several-dependent-variables")
        return True
    return False


def _choose_eps(rng, kw, eps_all):
    """Stratified: most explicit selections name upper-case epsilons only (lower-case names: listed finding)."""
    r = rng.random()
    upper = [e for e in eps_all if e == e.upper()]
    lower = [e for e in eps_all if e != e.upper()]
    if r < 0.25 and upper:
        kw["list_of_eps"] = [rng.choice(upper)] if rng.random() < 0.7 else list(upper)
    elif r < 0.37 and lower:
        kw["list_of_eps"] = [rng.choice(lower)]


@with_mp
def case_power(c, rng, idx, K):
    import pharmpy.modeling as pm

    from vp import docs_frozen as D
    from vp.ir_eval import EvalError, Unbound

    nsteps = rng.choice([0, 0, 1, 2])
    M, sname, steps = build_start(rng, ["pheno_iv", "pheno_oral", "pheno_2cmt"], nsteps, avoid=("set_power_on_ruv",) + PD_STEPS)
    if several_dvs(c, M):
        return c
    prep = None
    r = rng.random()
    try:
        if r < 0.3:
            M = pm.set_additive_error_model(M)
            prep = "set_additive_error_model"
        elif r < 0.6:
            M = pm.set_combined_error_model(M)
            prep = "set_combined_error_model"
    except Exception:
        pass
    eps_all = list(M.random_variables.epsilons.names)
    if not eps_all:
        c.skipped = "no-epsilon"
        return c
    kw = {}
    _choose_eps(rng, kw, eps_all)
    if rng.random() < 0.4:
        kw["lower_limit"] = rng.choice([None, 0.0, 0.5])
    if rng.random() < 0.3:
        kw["zero_protection"] = True
    if rng.random() < 0.25:
        kw["dv"] = y_name(M)
    c.sample = {"kind": "power", "start": sname, "steps": steps, "prep": prep, "call": f"set_power_on_ruv(m, **{kw})"}
    c.fp = fp_of("power", sname, steps, prep, sorted(kw.items(), key=str))
    y = y_name(M)
    M2 = apply_real(c, lambda: pm.set_power_on_ruv(M, **kw), "set_power_on_ruv")
    if M2 is None:
        return c
    newp = [q.name for q in M2.parameters if q.name not in set(M.parameters.names)]
    sel = kw.get("list_of_eps", eps_all)
    lower_named = [e for e in kw.get("list_of_eps", []) if e != e.upper()]
    if len(newp) != len(sel):
        c.nontrivial = True
        c.hit("power_formula")
        c.violate(KEY_EPS_UPPER if lower_named else None,
                  f"{c.sample['call']}: {len(newp)} new parameters for {len(sel)} selected epsilons {sel}")
        return c
    sampler = {q: (lambda r_: r_.uniform(0.05, 2.0)) for q in newp}
    recs = [r_ for r_ in records(M2) if r_.get("AMT", 0) == 0] or records(M2)
    pts = _collect_points(c, rng, M, M2, recs, K, sampler)
    if not pts:
        return c
    vals, rec, amounts, t, A = pts[0]
    try:
        types, lin = eps_types(M, rng, vals, rec, amounts, t)
    except (EvalError, Unbound):
        c.hit("point_rejected")
        return c
    if not lin or any(types[e] not in ("add", "prop") for e in sel):
        c.hit("not_judged:power-on-error-model-that-is-neither-additive-nor-proportional")
        return c
    cls = error_class(types, lin)
    i_y = last_assignment_index(M, y)
    names = [n for n in dict.fromkeys(assigned_names(M)) if n in set(assigned_names(M2))]
    c.hit("power_formula", len(pts))
    c.nontrivial = True
    good = None
    first = None
    for perm in itertools.permutations(newp):
        ok = True
        for vals, rec, amounts, t, A in pts:
            try:
                f, coefs, _ = eps_probe(M, vals, rec, amounts, t)
                if f <= 0:
                    raise PointRejected()
                yv = f
                for e in eps_all:
                    cf = coefs[e]
                    if e in sel:
                        th = _mp(vals[perm[sel.index(e)]])
                        # docstring example: EPS*F -> EPS*F**power; an additive epsilon gets the factor F**power
                        cf = (cf / f if types[e] == "prop" else cf) * D.power(f, th)
                    yv = yv + cf * _mp(vals[e])
                E = run(M, vals, rec, amounts, t, override=(i_y, y, lambda st, v=yv: v))
            except (EvalError, Unbound, PointRejected, ValueError):
                continue
            msg = compare_runs(E, A, names)
            if msg:
                ok = False
                first = first or (msg, vals, rec)
                break
        if ok:
            good = perm
            break
    if good is None:
        msg, vals, rec = first
        key = None
        try:
            f, coefs, _ = eps_probe(M, vals, rec, pts[0][2], pts[0][3])
            if any(types[e] == "prop" and not close(coefs[e] / f, 1.0) for e in sel):
                key = "C09/power-on-ruv-scaled-proportional-term-keeps-ipred-factor"
        except Exception:
            pass
        c.violate(key, f"{c.sample['call']} on a {cls} model ({types}): Y is not f + sum eps*coef*f**theta for any assignment of {newp}: "
                       f"{msg} at {_pt(vals, rec)}")
        return c
    # documented initial estimates and lower limit
    try:
        is_prop = bool(pm.has_proportional_error_model(M))
    except Exception:
        is_prop = None
    for q in newp:
        par = M2.parameters[q]
        c.hit("power_params")
        bad = []
        if cls in ("additive", "proportional", "combined") and is_prop is not None and (cls == "proportional") == is_prop:
            want = D.POWER_INIT["proportional"] if cls == "proportional" else D.POWER_INIT["other"]
            if not close(float(par.init), want):
                bad.append(f"init {float(par.init)}, documented {want} for a {cls} error model")
        ll = kw.get("lower_limit", D.POWER_LOWER_DEFAULT)
        if ll is None:
            if float(par.lower) > -1e6:
                bad.append(f"lower {float(par.lower)}, documented no limit")
        elif not close(float(par.lower), ll):
            bad.append(f"lower {float(par.lower)}, documented {ll}")
        if bad:
            c.violate(None, f"{c.sample['call']}: {q}: " + "; ".join(bad))
    # a proportional model is unchanged at power = 1 (its documented initial estimate)
    if cls == "proportional":
        for vals, rec, amounts, t, A in pts:
            v1 = dict(vals)
            for q in newp:
                v1[q] = 1.0
            try:
                E = run(M, v1, rec, amounts, t)
                A1 = run(M2, v1, rec, amounts, t)
            except (EvalError, Unbound):
                continue
            c.hit("power_neutral")
            m1 = compare_runs(E, A1, names)
            if m1:
                c.violate(None, f"{c.sample['call']}: at power = 1 the proportional model differs from the original: {m1}")
                break
    return c


@with_mp
def case_iiv_on_ruv(c, rng, idx, K):
    import pharmpy.modeling as pm

    from vp import docs_frozen as D

    nsteps = rng.choice([0, 0, 1, 2])
    M, sname, steps = build_start(rng, ["pheno_iv", "pheno_oral", "pheno_2cmt"], nsteps, avoid=("set_iiv_on_ruv",) + PD_STEPS)
    if several_dvs(c, M):
        return c
    prep = None
    if rng.random() < 0.45:
        try:
            M = pm.set_combined_error_model(M)
            prep = "set_combined_error_model"
        except Exception:
            pass
    eps_all = list(M.random_variables.epsilons.names)
    if not eps_all:
        c.skipped = "no-epsilon"
        return c
    kw = {}
    _choose_eps(rng, kw, eps_all)
    if rng.random() < 0.5:
        kw["same_eta"] = rng.random() < 0.5
    if rng.random() < 0.25:
        kw["dv"] = y_name(M)
    sel = kw.get("list_of_eps", eps_all)
    if rng.random() < 0.3:
        n_names = len(sel)
        kw["eta_names"] = [f"ETA_RUVX{i + 1}" for i in range(n_names)]
    c.sample = {"kind": "iiv_on_ruv", "start": sname, "steps": steps, "prep": prep, "call": f"set_iiv_on_ruv(m, **{kw})"}
    c.fp = fp_of("iiv_on_ruv", sname, steps, prep, sorted(kw.items(), key=str))
    M2 = apply_real(c, lambda: pm.set_iiv_on_ruv(M, **kw), "set_iiv_on_ruv")
    if M2 is None:
        return c
    new_etas = [n for n in M2.random_variables.names if n not in set(M.random_variables.names)]
    same = kw.get("same_eta", True)
    want_n = 1 if same else len(sel)
    lower_named = [e for e in kw.get("list_of_eps", []) if e != e.upper()]
    if len(new_etas) != want_n:
        c.nontrivial = True
        c.hit("iiv_on_ruv_formula")
        c.violate(KEY_EPS_UPPER if lower_named else None, f"{c.sample['call']}: {len(new_etas)} new etas {new_etas}, documented {want_n}")
        return c
    recs = [r_ for r_ in records(M2) if r_.get("AMT", 0) == 0] or records(M2)
    pts = _collect_points(c, rng, M, M2, recs, K)
    if not pts:
        return c
    c.hit("iiv_on_ruv_formula", len(pts))
    c.nontrivial = True
    names = [n for n in dict.fromkeys(assigned_names(M)) if n in set(assigned_names(M2))]
    from vp.ir_eval import EvalError, Unbound

    good = None
    first = None
    assigns = [dict(zip(sel, [new_etas[0]] * len(sel)))] if same else [dict(zip(sel, perm)) for perm in itertools.permutations(new_etas)]
    for asg in assigns:
        ok = True
        for vals, rec, amounts, t, A in pts:
            try:
                E = run(M, vals, rec, amounts, t,
                        rv_subst={e: (lambda st, e=e, h=h: st[e] * D.exp(_mp(st[h]))) for e, h in asg.items()})
            except (EvalError, Unbound):
                continue
            msg = compare_runs(E, A, names)
            if msg:
                ok = False
                first = first or (msg, vals, rec)
                break
        if ok:
            good = asg
            break
    if good is None:
        msg, vals, rec = first
        c.violate(KEY_EPS_UPPER if lower_named else None,
                  f"{c.sample['call']}: the model is not the original with eps*exp(eta) for the selected epsilons {sel}: {msg} at {_pt(vals, rec)}")
        return c
    for vals, rec, amounts, t, A in pts:
        v0 = dict(vals)
        for h in new_etas:
            v0[h] = 0.0
        try:
            E = run(M, v0, rec, amounts, t)
            A0 = run(M2, v0, rec, amounts, t)
        except Exception:
            continue
        c.hit("iiv_neutral")
        m0 = compare_runs(E, A0, names)
        if m0:
            c.violate(None, f"{c.sample['call']}: at the new etas = 0 the model differs from the original: {m0}")
            return c
    for h in new_etas:
        try:
            om = M2.parameters[M2.random_variables[h].get_variance(h).name]
        except Exception:
            continue
        c.hit("iiv_on_ruv_init")
        if not close(float(om.init), D.IIV_ON_RUV_INIT):
            c.violate(None, f"{c.sample['call']}: initial variance of {h} is {float(om.init)}, documented {D.IIV_ON_RUV_INIT}")
    return c


@with_mp
def case_time_varying(c, rng, idx, K):
    import pharmpy.modeling as pm

    from vp.ir_eval import EvalError, Unbound

    nsteps = rng.choice([0, 0, 1, 2])
    M, sname, steps = build_start(rng, ["pheno_iv", "pheno_oral", "pheno_2cmt"], nsteps, avoid=PD_STEPS)
    if several_dvs(c, M):
        return c
    prep = None
    if rng.random() < 0.4:
        try:
            M = rng.choice([pm.set_combined_error_model, pm.set_additive_error_model])(M)
            prep = "set_combined_or_additive"
        except Exception:
            pass
    eps_all = list(M.random_variables.epsilons.names)
    if not eps_all:
        c.skipped = "no-epsilon"
        return c
    idv = rng.choice(["TIME", "TIME", "CVT"])
    vals_idv = sorted(set(M.dataset[idv].tolist()))
    cutoff = float(rng.choice(vals_idv[1:-1])) if rng.random() < 0.6 else round(rng.uniform(vals_idv[0], vals_idv[-1]), 2)
    c.sample = {"kind": "time_varying", "start": sname, "steps": steps, "prep": prep,
                "call": f"set_time_varying_error_model(m, cutoff={cutoff}, idv={idv!r})"}
    c.fp = fp_of("time_varying", sname, steps, prep, cutoff, idv)
    M2 = apply_real(c, lambda: pm.set_time_varying_error_model(M, cutoff=cutoff, idv=idv), "set_time_varying_error_model")
    if M2 is None:
        return c
    newp = [q.name for q in M2.parameters if q.name not in set(M.parameters.names)]
    if len(newp) != 1:
        c.violate(None, f"{c.sample['call']}: {len(newp)} new parameters")
        return c
    th = newp[0]
    y = y_name(M)
    i_y = last_assignment_index(M, y)
    below = [v for v in vals_idv if v < cutoff]
    above = [v for v in vals_idv if v >= cutoff]
    forced = ([rng.choice(below)] if below else []) + ([rng.choice(above)] if above else []) + [cutoff] + [rng.choice(vals_idv) for _ in range(K)]
    recs = [r_ for r_ in records(M2) if r_.get("AMT", 0) == 0] or records(M2)
    sampler = {th: (lambda r_: r_.uniform(0.2, 3.0))}
    pts = _collect_points(c, rng, M, M2, recs, K, sampler, rec_patch=lambda rec, i: {idv: float(forced[i])})
    if not pts:
        return c
    c.hit("time_varying_formula", len(pts))
    c.nontrivial = True
    names = [n for n in dict.fromkeys(assigned_names(M)) if n in set(assigned_names(M2))]
    for vals, rec, amounts, t, A in pts:
        try:
            if rec[idv] < cutoff:
                vs = dict(vals)
                for e in eps_all:
                    vs[e] = vals[e] * vals[th]
                yv = run(M, vs, rec, amounts, t)[0][y]
            else:
                yv = run(M, vals, rec, amounts, t)[0][y]
            E = run(M, vals, rec, amounts, t, override=(i_y, y, lambda st, v=yv: v))
        except (EvalError, Unbound):
            continue
        msg = compare_runs(E, A, names)
        if msg:
            c.violate(None, f"{c.sample['call']}: expected Y with every epsilon multiplied by {th} for {idv} < cutoff, unchanged otherwise: {msg} "
                            f"at {idv}={rec[idv]}, {_pt(vals, rec)}")
            return c
    for vals, rec, amounts, t, A in pts:
        v1 = dict(vals)
        v1[th] = 1.0
        try:
            E = run(M, v1, rec, amounts, t)
            A1 = run(M2, v1, rec, amounts, t)
        except (EvalError, Unbound):
            continue
        c.hit("time_varying_neutral")
        m1 = compare_runs(E, A1, names)
        if m1:
            c.violate(None, f"{c.sample['call']}: at {th} = 1 the model differs from the original: {m1}")
            return c
    return c


@with_mp
def case_weighted(c, rng, idx, K):
    import pharmpy.modeling as pm

    from vp.ir_eval import EvalError, Unbound
    from vp.numctx import CTX

    nsteps = rng.choice([0, 0, 1, 2])
    M, sname, steps = build_start(rng, ["pheno_iv", "pheno_oral", "pheno_2cmt"], nsteps, avoid=("set_weighted_error_model", "set_dtbs_error_model") + PD_STEPS)
    if several_dvs(c, M):
        return c
    prep = None
    r = rng.random()
    try:
        if r < 0.3:
            M = pm.set_additive_error_model(M)
            prep = "set_additive_error_model"
        elif r < 0.65:
            M = pm.set_combined_error_model(M)
            prep = "set_combined_error_model"
    except Exception:
        pass
    eps_all = list(M.random_variables.epsilons.names)
    if not eps_all:
        c.skipped = "no-epsilon"
        return c
    c.sample = {"kind": "weighted", "start": sname, "steps": steps, "prep": prep, "call": "set_weighted_error_model(m)"}
    c.fp = fp_of("weighted", sname, steps, prep)
    y = y_name(M)
    M2 = apply_real(c, lambda: pm.set_weighted_error_model(M), "set_weighted_error_model")
    if M2 is None:
        return c
    recs = [r_ for r_ in records(M2) if r_.get("AMT", 0) == 0] or records(M2)
    pts = _collect_points(c, rng, M, M2, recs, K)
    if not pts:
        return c
    eps2 = list(M2.random_variables.epsilons.names)
    names = [n for n in dict.fromkeys(assigned_names(M)) if n in set(assigned_names(M2)) and n != "W"]
    i_y = last_assignment_index(M, y)
    judged = 0
    for vals, rec, amounts, t, A in pts:
        try:
            f, coefs, lin = eps_probe(M, vals, rec, amounts, t)
            if not lin:
                c.hit("not_judged:weighted-on-nonlinear-error-model")
                return c
            w = CTX.f("sqrt", sum(cf * cf for cf in coefs.values()))
            f2, coefs2, lin2 = eps_probe(M2, vals, rec, amounts, t)
        except (EvalError, Unbound):
            continue
        judged += 1
        c.hit("weighted_formula")
        nz = [e for e in eps2 if coefs2[e] != 0]
        if not lin2 or len(nz) > 1:
            c.violate(None, f"{c.sample['call']}: the result is not linear in a single epsilon (coefficients {{{', '.join(f'{k}: {_f(v)}' for k, v in coefs2.items())}}})")
            return c
        if not close(f, f2):
            c.violate(None, f"{c.sample['call']}: Y at eps = 0 changed from {_f(f)} to {_f(f2)}")
            return c
        got = abs(coefs2[nz[0]]) if nz else 0
        if not close(got, w, 1e-8):
            c.violate(None, f"{c.sample['call']}: weight of the single epsilon is {_f(got)}, sqrt of the sum of squared epsilon coefficients of the "
                            f"original is {_f(w)} (coefficients {[(k, _f(v)) for k, v in coefs.items()]}) at {_pt(vals, rec)}")
            return c
        if "W" in A[0] and not close(abs(A[0]["W"]), w, 1e-8):
            c.violate(None, f"{c.sample['call']}: W = {_f(A[0]['W'])}, expected {_f(w)}")
            return c
        # everything else unchanged
        E = run(M, vals, rec, amounts, t, override=(i_y, y, lambda st, v=A[0][y]: v))
        msg = compare_runs(E, A, names)
        c.hit("intervention_symbols", len(names))
        if msg:
            c.violate(None, f"{c.sample['call']}: unrelated quantity changed: {msg}")
            return c
    c.nontrivial = judged > 0
    if judged:
        try:
            c.hit("err_detector")
            if not pm.has_weighted_error_model(M2):
                c.violate(None, f"{c.sample['call']}: has_weighted_error_model reports False on the result")
        except Exception as e:
            c.hit(f"internal_error:has_weighted_error_model:{type(e).__name__}")
    return c


@with_mp
def case_dtbs(c, rng, idx, K):
    import pharmpy.modeling as pm

    from vp import docs_frozen as D
    from vp.ir_eval import EvalError, Unbound, ev

    nsteps = rng.choice([0, 0, 1])
    M, sname, steps = build_start(rng, ["pheno_iv", "pheno_oral", "pheno_2cmt"], nsteps, avoid=("set_weighted_error_model", "set_dtbs_error_model") + PD_STEPS)
    if several_dvs(c, M):
        return c
    fix = rng.random() < 0.5
    c.sample = {"kind": "dtbs", "start": sname, "steps": steps, "call": f"set_dtbs_error_model(m, fix_to_log={fix})"}
    c.fp = fp_of("dtbs", sname, steps, fix)
    y = y_name(M)
    M2 = apply_real(c, lambda: pm.set_dtbs_error_model(M, fix_to_log=fix), "set_dtbs_error_model")
    if M2 is None:
        return c
    newp = [q.name for q in M2.parameters if q.name not in set(M.parameters.names)]
    lam = [q for q in newp if "lambda" in q]
    zeta = [q for q in newp if "zeta" in q]
    if len(lam) != 1 or len(zeta) != 1:
        c.hit("not_judged:dtbs-parameter-names")
        return c
    lam, zeta = lam[0], zeta[0]
    if fix:
        c.hit("dtbs_params")
        for q in (lam, zeta):
            par = M2.parameters[q]
            if float(par.init) != 0 or not par.fix:
                c.violate(None, f"{c.sample['call']}: {q} = {float(par.init)} fix={par.fix}; documented: fixed to 0")
    recs = [r_ for r_ in records(M2) if r_.get("AMT", 0) == 0] or records(M2)
    sampler = {lam: (lambda r_: 0.0 if fix else r_.choice([-1, 1]) * r_.uniform(0.1, 1.5)), zeta: (lambda r_: 0.0 if fix else r_.uniform(0.0, 1.0))}
    pts = _collect_points(c, rng, M, M2, recs, K, sampler)
    if not pts:
        return c
    eps_all = list(M.random_variables.epsilons.names)
    obs = M2.observation_transformation
    judged = 0
    for vals, rec, amounts, t, A in pts:
        v0 = dict(vals)
        for e in eps_all:
            v0[e] = 0.0
        try:
            f = run(M, v0, rec, amounts, t)[0][y]
            if f <= 0:
                continue
            g = run(M2, v0, rec, amounts, t)[0][y]
            want = D.tbs(f, _mp(vals[lam]))
        except (EvalError, Unbound, ValueError):
            continue
        judged += 1
        c.hit("dtbs_formula")
        if not close(g, want, 1e-8):
            c.violate(None, f"{c.sample['call']}: Y at eps = 0 is {_f(g)}; the transform (lambda = {vals[lam]}) of the original prediction {_f(f)} is {_f(want)}")
            return c
        # both sides: the observation transformation is the same function
        try:
            tr = None
            for k_, v_ in obs.items():
                if k_.name == y:
                    tr = v_
            if tr is not None:
                yobs = rng.uniform(0.5, 30.0)
                env = dict(vals)
                env[y] = yobs
                got = ev(tr, env)
                c.hit("dtbs_both_sides")
                if not close(got, D.tbs(_mp(yobs), _mp(vals[lam])), 1e-8):
                    c.violate(None, f"{c.sample['call']}: observation transformation at y = {yobs}, lambda = {vals[lam]} gives {_f(got)}, the "
                                    f"prediction side uses {_f(D.tbs(_mp(yobs), _mp(vals[lam])))}")
                    return c
        except (EvalError, Unbound):
            pass
    c.nontrivial = judged > 0
    return c


@with_mp
def case_blq(c, rng, idx, K):
    import pharmpy.modeling as pm

    from vp import docs_frozen as D
    from vp.ir_eval import EvalError, Unbound
    from vp.numctx import CTX

    nsteps = rng.choice([0, 0, 1])
    M, sname, steps = build_start(rng, ["pheno_iv", "pheno_oral", "pheno_2cmt"], nsteps, avoid=PD_STEPS)
    if several_dvs(c, M):
        return c
    prep = None
    r = rng.random()
    try:
        if r < 0.3:
            M = pm.set_additive_error_model(M)
            prep = "set_additive_error_model"
        elif r < 0.6:
            M = pm.set_combined_error_model(M)
            prep = "set_combined_error_model"
    except Exception:
        pass
    method = rng.choice(["m3", "m4"])
    lloq = rng.choice([0.1, 5.0, 10.0, 12.5])
    c.sample = {"kind": "blq", "start": sname, "steps": steps, "prep": prep, "call": f"transform_blq(m, method={method!r}, lloq={lloq})"}
    c.fp = fp_of("blq", sname, steps, prep, method, lloq)
    y = y_name(M)
    M2 = apply_real(c, lambda: pm.transform_blq(M, method=method, lloq=lloq), "transform_blq")
    if M2 is None:
        return c
    recs = [r_ for r_ in records(M2) if r_.get("AMT", 0) == 0] or records(M2)
    forced = [lloq * 0.5, lloq * 2.0, lloq, lloq * 0.9]
    pts = _collect_points(c, rng, M, M2, recs, K, rec_patch=lambda rec, i: {"DV": float(forced[i % len(forced)])})
    if not pts:
        return c
    eps_all = list(M.random_variables.epsilons.names)
    names = [n for n in dict.fromkeys(assigned_names(M)) if n in set(assigned_names(M2))]
    i_y = last_assignment_index(M, y)
    judged = 0
    for vals, rec, amounts, t, A in pts:
        try:
            f, coefs, lin = eps_probe(M, vals, rec, amounts, t)
            if not lin:
                c.hit("not_judged:blq-on-nonlinear-error-model")
                return c
            var = 0
            for e in eps_all:
                sig = M.random_variables[e].get_variance(e)
                var = var + coefs[e] * coefs[e] * _mp(vals[sig.name])
            sd = CTX.f("sqrt", var)
            if rec["DV"] >= lloq:
                yv = run(M, vals, rec, amounts, t)[0][y]
            else:
                cumd = D.phi_cdf((lloq - f) / sd)
                if method == "m3":
                    yv = cumd
                else:
                    cumdz = D.phi_cdf(-f / sd)
                    yv = (cumd - cumdz) / (1 - cumdz)
            E = run(M, vals, rec, amounts, t, override=(i_y, y, lambda st, v=yv: v))
        except (EvalError, Unbound, ZeroDivisionError):
            continue
        judged += 1
        c.hit("blq_formula")
        msg = compare_runs(E, A, names, skip=("SD",))
        if msg:
            c.violate(None, f"{c.sample['call']}: {msg} (DV = {rec['DV']}; expected the {method} likelihood of Beal (2001) below the LLOQ and the "
                            f"unchanged Y above) at {_pt(vals, rec)}")
            return c
    c.nontrivial = judged > 0
    return c


# ====================================================================================================== absorption
STRUCTURAL_ONLY = {"structural": 1, "stochastic": 0, "error": 0, "covariate": 0, "parameter": 0, "refactor": 0}


def _graph(model, st):
    """Independent reading of the compartment graph at a store: dosing compartments, central (has the output flow),
    numeric outflow rates."""
    from pharmpy.model import output

    from vp.ir_eval import ev

    cs = model.statements.ode_system
    names = list(cs.compartment_names)
    out = {}
    central = None
    for n in names:
        comp = cs.find_compartment(n)
        flows = []
        for dest, rate in cs.get_compartment_outflows(comp):
            to = None if dest is output else dest.name
            flows.append((to, ev(rate, st, {cs.find_compartment(k).amount.name: 1.0 for k in names})))
            if dest is output:
                central = n
        out[n] = flows
    dosing = [n for n in names if cs.find_compartment(n).doses]
    return names, out, central, dosing


@with_mp
def case_absorption(c, rng, idx, K):
    import pharmpy.modeling as pm
    from pharmpy.model import Bolus, Infusion

    from vp.ir_eval import EvalError, Unbound, ev

    which = rng.choice(["FO", "ZO", "SEQ"])
    nsteps = rng.choice([0, 0, 1])
    M, sname, steps = build_start(rng, ["pheno_iv", "pheno_oral", "pheno_zo", "pheno_2cmt"], nsteps,
                                  avoid=("set_transit_compartments", "add_lag_time") + PD_STEPS, groups=STRUCTURAL_ONLY)
    fn = {"FO": pm.set_first_order_absorption, "ZO": pm.set_zero_order_absorption, "SEQ": pm.set_seq_zo_fo_absorption}[which]
    c.sample = {"kind": "absorption", "start": sname, "steps": steps, "call": f"{fn.__name__}(m)"}
    c.fp = fp_of("absorption", sname, steps, which)
    M2 = apply_real(c, lambda: fn(M), fn.__name__)
    if M2 is None:
        return c
    if M2.statements.ode_system is None:
        c.skipped = "no-ode"
        return c
    if M2.statements == M.statements:
        c.hit("not_judged:absorption-already-of-requested-kind")
        return c
    recs = records(M2)
    judged = 0
    for _ in range(3 * K):
        if judged >= K:
            break
        vals, rec, amounts, t = draw_point(rng, [M2], recs)
        try:
            st, field, events = run(M2, vals, rec, amounts, t)
            names, out, central, dosing = _graph(M2, st)
        except (EvalError, Unbound):
            c.hit("point_rejected")
            continue
        if central is None or len(dosing) != 1:
            c.hit("not_judged:absorption-structure-not-single-dose-compartment")
            return c
        d = dosing[0]
        comp = M2.statements.ode_system.find_compartment(d)
        dose = comp.doses[0]
        if "MAT" not in st:
            c.hit("not_judged:no-MAT-symbol")
            return c
        mat = st["MAT"]
        judged += 1
        c.hit("absorption_mean_time")
        if which in ("FO", "SEQ"):
            if d == central or len(out[d]) != 1:
                c.hit("not_judged:absorption-structure-unexpected")
                return c
            rate = out[d][0][1]
            if not close(rate * mat, 1.0, 1e-9):
                c.violate(None, f"{c.sample['call']}: first-order absorption rate {_f(rate)} is not 1/MAT (MAT = {_f(mat)})")
                return c
        if which == "ZO":
            if d != central or not isinstance(dose, Infusion) or dose.duration is None:
                c.hit("not_judged:absorption-structure-unexpected")
                return c
            dur = ev(dose.duration, st)
            if not close(dur, 2 * mat, 1e-9):
                key = None
                if "MDT" in st and close(dur, 2 * st["MDT"], 1e-9) and "MDT" in assigned_names(M) and "MAT" in assigned_names(M):
                    # the start model had sequential zero/first-order absorption (duration 2*MDT, rate 1/MAT)
                    key = "C09/zero-order-after-seq-absorption-keeps-mdt-duration-mat-unused"
                c.violate(key, f"{c.sample['call']}: zero-order input duration {_f(dur)} is not 2*MAT (MAT = {_f(mat)})")
                return c
        if which == "SEQ":
            if not isinstance(dose, Infusion) or dose.duration is None:
                c.hit("not_judged:absorption-structure-unexpected")
                return c
            dur = ev(dose.duration, st)
            ok = any(k in st and close(dur, 2 * st[k], 1e-9) for k in ("MDT", "MAT"))
            if not ok:
                c.violate(None, f"{c.sample['call']}: zero-order input duration {_f(dur)} is neither 2*MDT nor 2*MAT")
                return c
    c.nontrivial = judged > 0
    return c


@with_mp
def case_transit(c, rng, idx, K):
    import pharmpy.modeling as pm

    from vp.ir_eval import EvalError, Unbound

    nsteps = rng.choice([0, 0, 1])
    M, sname, steps = build_start(rng, ["pheno_oral", "pheno_oral", "pheno_iv", "pheno_2cmt"], nsteps,
                                  avoid=("set_transit_compartments", "add_lag_time", "remove_lag_time", "set_seq_zo_fo_absorption",
                                         "set_zero_order_absorption") + PD_STEPS, groups=STRUCTURAL_ONLY)
    if "MDT" in assigned_names(M):
        c.hit("not_judged:MDT-symbol-exists-before-transits")
        c.sample = {"kind": "transit", "start": sname, "steps": steps}
        c.fp = fp_of("transit", sname, steps, "nj")
        return c
    if rng.random() < 0.35:
        # a bioavailability on the dosing compartment (F1): the transit setters must carry it along
        try:
            M = pm.add_bioavailability(M)
            steps = steps + ["add_bioavailability"]
        except Exception:
            pass
    n1 = rng.choice([2, 3, 5] if sname != "pheno_oral" else [1, 2, 3, 5])
    keep = rng.random() < 0.6
    second = rng.random() < 0.5
    n2 = rng.choice([x for x in (1, 2, 3, 4, 6) if x != n1]) if second else None
    if second and n2 == 1 and (sname != "pheno_oral" or not keep) and rng.random() < 0.6:
        n2 = rng.choice([x for x in (2, 3, 4, 6) if x != n1])  # most cases avoid the listed single-transit construct
    calls = [f"set_transit_compartments(m, {n1}, keep_depot={keep})"] + ([f"set_transit_compartments(m, {n2})"] if second else [])
    c.sample = {"kind": "transit", "start": sname, "steps": steps, "call": "; ".join(calls)}
    c.fp = fp_of("transit", sname, steps, n1, keep, n2)
    M2 = apply_real(c, lambda: pm.set_transit_compartments(M, n1, keep_depot=keep), "set_transit_compartments")
    if M2 is None:
        return c
    if second:
        M1 = M2
        M2 = apply_real(c, lambda: pm.set_transit_compartments(M1, n2), "set_transit_compartments")
        if M2 is None:
            return c
    n = n2 if second else n1
    recs = records(M2)
    judged = 0
    for _ in range(3 * K):
        if judged >= K:
            break
        vals, rec, amounts, t = draw_point(rng, [M2], recs)
        try:
            st, field, events = run(M2, vals, rec, amounts, t)
            names, out, central, dosing = _graph(M2, st)
        except (EvalError, Unbound):
            c.hit("point_rejected")
            continue
        tr = [x for x in names if x.upper().startswith("TRANSIT")]
        if len(tr) != n:
            c.hit("not_judged:number-of-transit-compartments-differs (C08)")
            return c
        # the dose enters the (new) first compartment of the chain with the bioavailability and amount it had before
        try:
            amounts0 = {k: v for k, v in amounts.items() if k in set(M.statements.ode_system.compartment_names)}
            for k in M.statements.ode_system.compartment_names:
                amounts0.setdefault(k, 1.0)
            _, _, ev0 = run(M, {k: v for k, v in vals.items()}, rec, amounts0, t)
            d0 = [(e["bio"], [(k_, a_) for k_, a_, *_ in e["doses"]]) for e in ev0.values() if e["doses"]]
            d2 = [(e["bio"], [(k_, a_) for k_, a_, *_ in e["doses"]]) for e in events.values() if e["doses"]]
            if len(d0) == 1 and len(d2) == 1:
                c.hit("transit_dose_bioavailability")
                if not close(d0[0][0], d2[0][0], 1e-9) or len(d0[0][1]) != len(d2[0][1]) or any(
                        x[0] != y[0] or not close(x[1], y[1], 1e-9) for x, y in zip(d0[0][1], d2[0][1])):
                    c.violate(None, f"{c.sample['call']} (after {steps}): the dose entered with bioavailability {_f(d0[0][0])} and "
                                    f"doses {d0[0][1]} before, with bioavailability {_f(d2[0][0])} and doses {d2[0][1]} after")
                    return c
        except (EvalError, Unbound):
            c.hit("point_rejected")
        if "MDT" not in st:
            c.hit("not_judged:no-MDT-symbol")
            return c
        mdt = st["MDT"]
        judged += 1
        c.hit("transit_mean_time")
        rates = []
        for x in tr:
            if len(out[x]) != 1:
                c.hit("not_judged:transit-with-several-outflows")
                return c
            rates.append(out[x][0][1])
        total = sum(1 / r for r in rates)
        if not all(close(r * mdt, n, 1e-9) for r in rates) or not close(total, mdt, 1e-9):
            key = None
            if second and n == 1 and not any(x.upper().startswith("DEPOT") for x in names) and close(rates[0] * mdt, n1, 1e-9):
                key = "C09/transit-reduction-to-one-on-depotless-model-keeps-numerator"
            c.violate(key, f"{c.sample['call']}: transit rates {[_f(r) for r in rates]} with MDT = {_f(mdt)}: expected {n}/MDT each "
                            f"(mean transit time {_f(total)} instead of MDT)")
            return c
    c.nontrivial = judged > 0
    return c


def case_lagtime(c, rng, idx, K):
    import numpy as np
    import pharmpy.modeling as pm

    nsteps = rng.choice([0, 1, 2])
    M, sname, steps = build_start(rng, ["pheno_iv", "pheno_oral", "pheno_zo", "pheno_2cmt"], nsteps,
                                  avoid=("add_lag_time", "set_transit_compartments") + PD_STEPS, groups=STRUCTURAL_ONLY)
    c.sample = {"kind": "lagtime", "start": sname, "steps": steps, "call": "add_lag_time(m)"}
    c.fp = fp_of("lagtime", sname, steps)
    try:
        had = bool(pm.has_lag_time(M)) if hasattr(pm, "has_lag_time") else False
    except Exception:
        had = False
    M2 = apply_real(c, lambda: pm.add_lag_time(M), "add_lag_time")
    if M2 is None:
        return c
    newp = [q.name for q in M2.parameters if q.name not in set(M.parameters.names)]
    if had or len(newp) != 1:
        c.hit("not_judged:lag-time-existed-or-parameter-not-identified")
        return c
    df = M.dataset
    obs = df[df["AMT"] == 0]
    tmin = float(np.min(obs["TIME"].to_numpy(dtype=float)))
    if tmin <= 0:
        c.hit("not_judged:observation-at-time-zero")
        return c
    c.hit("lagtime_init")
    c.nontrivial = True
    got = float(M2.parameters[newp[0]].init)
    if not close(got, tmin / 2):
        c.violate(None, f"add_lag_time: initial estimate of {newp[0]} is {got}; documented: time of first observation / 2 = {tmin / 2}")
    return c
